#!/bin/sh
# Nothing to compile: the framework is Python + contract text. Warm Verus (first run loads vstd) and check tools.
set -e
cd "$(dirname "$0")"
command -v verus >/dev/null || { echo "verus not on PATH" >&2; exit 1; }
verus --version | head -3
mkdir -p build evidence replays
cat > build/_warm.rs <<'R'
use vstd::prelude::*;
verus! { proof fn warm() ensures 1 + 1 == 2int {} }
fn main() {}
R
verus build/_warm.rs >/dev/null 2>&1 || { echo "verus cannot verify a trivial file" >&2; exit 1; }
rm -f build/_warm.rs
# Kani: cold-compile the crate once under cargo kani into build/kani_target (several minutes); later runs are incremental
if command -v cargo-kani >/dev/null 2>&1 || cargo kani --version >/dev/null 2>&1; then
  python3 tools/kani_run.py /repo le8_injective > build/kani_setup.json 2>build/kani_setup.err || true
  grep -q '"status": "ok"' build/kani_setup.json && echo "kani warm" || echo "kani warm-up did not succeed (checks will retry)" >&2
fi
echo setup ok
