#!/bin/sh
# Nothing to compile: the framework is Python + contract text. Warm Verus (first run loads vstd) and check tools.
set -e
cd "$(dirname "$0")"
command -v verus >/dev/null || { echo "verus not on PATH" >&2; exit 1; }
verus --version | head -3
mkdir -p build evidence replays
cat > build/_warm.rs <<'R'
use vstd::prelude::*;
verus! { proof fn warm() ensures 1 + 1 == 2int {} }
fn main() {}
R
verus build/_warm.rs >/dev/null 2>&1 || { echo "verus cannot verify a trivial file" >&2; exit 1; }
rm -f build/_warm.rs
echo setup ok
