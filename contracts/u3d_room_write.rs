//@ unit u3d_room_write props C10 C07
// Unit U3d: how an accepted room definition is stored (src/database/room_node.rs: RoomNode::write, AuthorisationNode::write,
// UserNode::write, EntityRightNode::write).  The in-memory room is built from the merged definition (units u3b / u3c); a restart
// and a re-export read it back from storage.  What is decided here: a write that reports success has handed to the database the
// room row, every reference of every list, and every entry row that is not stored yet - for every group, whether or not the
// group's own row is rewritten.  "Was handed to the database" is a fact only the contract of Node::write / Edge::write can
// establish (uninterpreted predicates `node_written` / `edge_written`): a call that is skipped leaves no fact.
#![allow(unused_imports, unused_variables, dead_code, unused_mut, non_snake_case)]
use vstd::prelude::*;
use vstd::std_specs::iter::IteratorSpec;
use std::collections::{HashMap, HashSet, VecDeque};   // the std collections a change to the extracted code may reach for
verus! {
pub type Uid = [u8; 16];
pub mod rusqlite { pub struct Error { x: u8 } pub struct Connection { x: u8 } }
pub use rusqlite::Connection;

//@ extract src/database/node.rs :: struct Node
//@ end
//@ extract src/database/edge.rs :: struct Edge
//@ end
//@ extract src/database/room_node.rs :: struct UserNode
//@ end
//@ extract src/database/room_node.rs :: struct EntityRightNode
//@ end
//@ extract src/database/room_node.rs :: struct AuthorisationNode
//@ end
//@ extract src/database/room_node.rs :: struct RoomNode
//@ end

/// the row / the reference was handed to the database by a successful Node::write / Edge::write
pub uninterp spec fn node_written(n: Node) -> bool;
pub uninterp spec fn edge_written(e: Edge) -> bool;
impl Node {
    /// Node::write is under contract in unit u14_index (which statements it issues); here: a successful call stored this row;
    /// the only field it changes is the storage slot
    #[verifier::external_body]
    pub fn write(&mut self, conn: &Connection, index: bool, old_fts_str: &Option<String>, node_fts_str: &Option<String>) -> (r: std::result::Result<(), rusqlite::Error>)
        ensures r is Ok ==> node_written(*old(self)),
                *final(self) == (Node { _local_id: final(self)._local_id, ..*old(self) }),
    { unimplemented!() }
}
impl Edge {
    #[verifier::external_body]
    pub fn write(&self, conn: &Connection) -> (r: std::result::Result<(), rusqlite::Error>)
        ensures r is Ok ==> edge_written(*self),
    { unimplemented!() }
}
/// an entry row is in storage after the call: it was there already (it has a storage slot) or it was written
pub open spec fn entry_stored(n: Node) -> bool { n._local_id is Some || node_written(n) }
pub open spec fn all_edges_written(s: Seq<Edge>) -> bool { forall|i: int| 0 <= i < s.len() ==> edge_written(#[trigger] s[i]) }
pub open spec fn all_users_stored(s: Seq<UserNode>) -> bool { forall|i: int| 0 <= i < s.len() ==> entry_stored((#[trigger] s[i]).node) }
pub open spec fn all_rights_stored(s: Seq<EntityRightNode>) -> bool { forall|i: int| 0 <= i < s.len() ==> entry_stored((#[trigger] s[i]).node) }
/// everything a group holds is in storage
pub open spec fn group_stored(a: AuthorisationNode) -> bool {
    (a.need_update ==> node_written(a.node))
    && all_edges_written(a.right_edges@) && all_rights_stored(a.right_nodes@)
    && all_edges_written(a.user_edges@) && all_users_stored(a.user_nodes@)
    && all_edges_written(a.user_admin_edges@) && all_users_stored(a.user_admin_nodes@)
}
pub open spec fn all_groups_stored(s: Seq<AuthorisationNode>) -> bool { forall|i: int| 0 <= i < s.len() ==> group_stored(#[trigger] s[i]) }

//@ extract src/database/room_node.rs :: impl UserNode / fn write
//@ result r
//@ spec
        ensures
            // [user_entry_stored_after_write]{C10,C07} a user entry is in storage after a successful write: written unless it already had a storage slot
            r is Ok ==> entry_stored(old(self).node),
            final(self).node == (Node { _local_id: final(self).node._local_id, ..old(self).node }),
//@ end
//@ extract src/database/room_node.rs :: impl EntityRightNode / fn write
//@ result r
//@ spec
        ensures
            // [right_entry_stored_after_write]{C10,C07}
            r is Ok ==> entry_stored(old(self).node),
            final(self).node == (Node { _local_id: final(self).node._local_id, ..old(self).node }),
//@ end

//@ extract src/database/room_node.rs :: impl AuthorisationNode / fn write
//@ result r
//@ attr #[verifier::loop_isolation(false)]
//@ rewrite E17 "(?<=for c in )&mut self\.right_nodes(?= \{)" => "self.right_nodes.iter_mut()" x1
//@ rewrite E17 "(?<=for u in )&mut self\.user_nodes(?= \{)" => "self.user_nodes.iter_mut()" x1
//@ rewrite E17 "(?<=for a in )&mut self\.user_admin_nodes(?= \{)" => "self.user_admin_nodes.iter_mut()" x1
//@ loop "for c in &self.right_edges" iter it
            invariant forall|i: int| 0 <= i < it.index@ ==> edge_written(#[trigger] self.right_edges@[i]),
//@ loop "for c in" #2 iter it
            invariant
                it.seq().len() == old(self).right_nodes@.len(), forall|i: int| #![trigger it.seq()[i]] #![trigger old(self).right_nodes@[i]] 0 <= i < it.seq().len() ==> *it.seq()[i] == old(self).right_nodes@[i],
                forall|i: int| 0 <= i < it.index@ ==> entry_stored((#[trigger] old(self).right_nodes@[i]).node),
//@ loop "for u in &self.user_edges" iter it
            invariant forall|i: int| 0 <= i < it.index@ ==> edge_written(#[trigger] self.user_edges@[i]),
//@ loop "for u in" #2 iter it
            invariant
                it.seq().len() == old(self).user_nodes@.len(), forall|i: int| #![trigger it.seq()[i]] #![trigger old(self).user_nodes@[i]] 0 <= i < it.seq().len() ==> *it.seq()[i] == old(self).user_nodes@[i],
                forall|i: int| 0 <= i < it.index@ ==> entry_stored((#[trigger] old(self).user_nodes@[i]).node),
//@ loop "for a in &self.user_admin_edges" iter it
            invariant forall|i: int| 0 <= i < it.index@ ==> edge_written(#[trigger] self.user_admin_edges@[i]),
//@ loop "for a in" #2 iter it
            invariant
                it.seq().len() == old(self).user_admin_nodes@.len(), forall|i: int| #![trigger it.seq()[i]] #![trigger old(self).user_admin_nodes@[i]] 0 <= i < it.seq().len() ==> *it.seq()[i] == old(self).user_admin_nodes@[i],
                forall|i: int| 0 <= i < it.index@ ==> entry_stored((#[trigger] old(self).user_admin_nodes@[i]).node),
//@ spec
        ensures
            // [group_content_stored_whether_or_not_its_row_is_rewritten]{C10,C07} after a successful write every reference and every entry of the group (rights, users, user admins) is in storage - also when the group's own row is kept as stored (need_update false): what was merged into the in-memory room is what a restart or a re-export reads back
            r is Ok ==> group_stored(*old(self)),
//@ end

//@ extract src/database/room_node.rs :: impl RoomNode / fn write
//@ result r
//@ attr #[verifier::loop_isolation(false)]
//@ rewrite E17 "(?<=for a in )&mut self\.admin_nodes(?= \{)" => "self.admin_nodes.iter_mut()" x1
//@ rewrite E17 "(?<=for a in )&mut self\.auth_nodes(?= \{)" => "self.auth_nodes.iter_mut()" x1
//@ loop "for a in &self.admin_edges" iter it
            invariant forall|i: int| 0 <= i < it.index@ ==> edge_written(#[trigger] self.admin_edges@[i]),
//@ loop "for a in" #2 iter it
            invariant
                it.seq().len() == old(self).admin_nodes@.len(), forall|i: int| #![trigger it.seq()[i]] #![trigger old(self).admin_nodes@[i]] 0 <= i < it.seq().len() ==> *it.seq()[i] == old(self).admin_nodes@[i],
                forall|i: int| 0 <= i < it.index@ ==> entry_stored((#[trigger] old(self).admin_nodes@[i]).node),
//@ loop "for a in &self.auth_edges" iter it
            invariant forall|i: int| 0 <= i < it.index@ ==> edge_written(#[trigger] self.auth_edges@[i]),
//@ loop "for a in" #4 iter it
            invariant
                it.seq().len() == old(self).auth_nodes@.len(), forall|i: int| #![trigger it.seq()[i]] #![trigger old(self).auth_nodes@[i]] 0 <= i < it.seq().len() ==> *it.seq()[i] == old(self).auth_nodes@[i],
                forall|i: int| 0 <= i < it.index@ ==> group_stored(#[trigger] old(self).auth_nodes@[i]),
//@ spec
        ensures
            // [room_definition_stored_whole]{C10,C07} after a successful write the room row, every admin reference and entry, every group reference and every group with all its content are in storage
            r is Ok ==> node_written(old(self).node) && all_edges_written(old(self).admin_edges@) && all_users_stored(old(self).admin_nodes@)
                && all_edges_written(old(self).auth_edges@) && all_groups_stored(old(self).auth_nodes@),
//@ end
} // verus!
fn main() {}
