//@ unit u4b_sign_all props C06
// Unit U4b: every row and reference a local mutation writes is signed (src/database/mutation_query.rs: InsertEntity::sign_all,
// NodeToMutate::sign, MutationQuery::sign_all).  Node::sign / Edge::sign themselves (digest over all signed fields, signature by the
// key) are under contract in unit u4_digests; here: the walk over a prepared mutation reaches EVERY entity of the tree - also the
// entities nested under an entity whose own row is not rewritten - and signs its row (when it has one) and each of its new references.
// "Was signed" is a fact only the contracts of Node::sign / Edge::sign establish.
#![allow(unused_imports, unused_variables, dead_code, unused_mut, non_snake_case)]
use vstd::prelude::*;
use vstd::std_specs::iter::IteratorSpec;
use std::collections::{HashMap, HashSet, VecDeque};
verus! {
pub type Uid = [u8; 16];
pub struct Error { x: u8 }
pub type Result<T> = std::result::Result<T, Error>;
pub trait SigningKey { }
//@ extract src/database/node.rs :: struct Node
//@ end
//@ extract src/database/edge.rs :: struct Edge
//@ end
//@ extract src/database/edge.rs :: struct EdgeDeletionEntry
//@ end
//@ extract src/database/mutation_query.rs :: struct NodeToMutate
//@ end
//@ extract src/database/mutation_query.rs :: struct InsertEntity
//@ end
/// the row / the reference carries a signature made by a successful Node::sign / Edge::sign on exactly this content
pub uninterp spec fn node_signed(n: Node) -> bool;
pub uninterp spec fn edge_signed(e: Edge) -> bool;
impl Node {
    #[verifier::external_body]
    pub fn sign(&mut self, signing_key: &impl SigningKey) -> (r: Result<()>) ensures r is Ok ==> node_signed(*final(self)) { unimplemented!() }
}
impl Edge {
    #[verifier::external_body]
    pub fn sign(&mut self, signing_key: &impl SigningKey) -> (r: Result<()>) ensures r is Ok ==> edge_signed(*final(self)) { unimplemented!() }
}
/// every nested entity of the map went through sign_all successfully: established by the E8 cut of the loop over `&mut HashMap`
/// (IterMut has no Verus model), whose per-entry body is verified below (sign_sub_body)
pub uninterp spec fn subs_signed(m: HashMap<String, Vec<InsertEntity>>) -> bool;
/// the whole prepared entity is signed: its row when it has one, each new reference, and every nested entity
pub open spec fn tree_signed(e: InsertEntity) -> bool {
    (e.node_to_mutate.node is Some ==> node_signed(e.node_to_mutate.node->Some_0))
    && (forall|i: int| 0 <= i < e.edge_insertions@.len() ==> edge_signed(#[trigger] e.edge_insertions@[i]))
    && subs_signed(e.sub_nodes)
}
// E8 cut: `for query in &mut self.sub_nodes { <body> }` - ASSUMED: std's IterMut visits every entry once; the body it runs on each
// entry is `sign_sub_body` (verified); a failure of the body is propagated
#[verifier::external_body]
pub fn cut_sign_sub_nodes(sub_nodes: &mut HashMap<String, Vec<InsertEntity>>, signing_key: &impl SigningKey) -> (r: Result<()>)
    ensures r is Ok ==> subs_signed(*final(sub_nodes))
{ unimplemented!() }

//@ extract src/database/mutation_query.rs :: impl NodeToMutate / fn sign
//@ result r
//@ spec
        ensures
            // [prepared_row_signed] the row of a prepared entity is signed when there is one; nothing else of the entity changes
            r is Ok ==> (final(self).node is Some ==> node_signed(final(self).node->Some_0)) && (old(self).node is None ==> final(self).node is None),
//@ end

//@ extract src/database/mutation_query.rs :: impl InsertEntity / fn sign_all as InsertEntity::sign_sub_body
//@ lift-loop "for query in &mut self.sub_nodes" :: fn sign_sub_body(query: (&String, &mut Vec<InsertEntity>), signing_key: &impl SigningKey) -> (r: Result<()>) tail "Ok(())"
//@ attr #[verifier::loop_isolation(false)]
//@ attr #[verifier::exec_allows_no_decreases_clause]
//@ rewrite E17 "(?<=for insert in )query\.1(?= \{)" => "query.1.iter_mut()" x1
//@ loop "for insert in" iter it
                invariant forall|i: int| 0 <= i < it.index@ ==> tree_signed(*final(#[trigger] it.seq()[i])),
//@ spec
        ensures
            // [every_nested_entity_is_signed_whatever_its_own_row] every entity nested under a field goes through sign_all - also one whose own row is not rewritten (a pure reference by id): the rows changed further down are reached through it
            r is Ok ==> forall|i: int| 0 <= i < final(query.1)@.len() ==> tree_signed(#[trigger] final(query.1)@[i]),
//@ end

//@ extract src/database/mutation_query.rs :: impl InsertEntity / fn sign_all
//@ result r
//@ attr #[verifier::loop_isolation(false)]
//@ attr #[verifier::exec_allows_no_decreases_clause]
//@ cut "for query in &mut self.sub_nodes" => "cut_sign_sub_nodes(&mut self.sub_nodes, signing_key)?;" body-verified
//@ rewrite E17 "(?<=for edge in )&mut self\.edge_insertions(?= \{)" => "self.edge_insertions.iter_mut()" x1
//@ loop "for edge in" iter it
            invariant
                subs_signed(self.sub_nodes), self.node_to_mutate.node is Some ==> node_signed(self.node_to_mutate.node->Some_0),
                forall|i: int| 0 <= i < it.index@ ==> edge_signed(*final(#[trigger] it.seq()[i])),
//@ spec
        ensures
            // [everything_a_mutation_writes_is_signed] after a successful sign_all the entity's row (when it has one), each of its new references and every nested entity are signed
            r is Ok ==> tree_signed(*final(self)),
//@ end

pub struct MutationParser { x: u8 }
//@ extract src/database/mutation_query.rs :: struct MutationQuery
//@ rewrite E3 "Arc<MutationParser>" => "Box<MutationParser>" x1
//@ end
//@ extract src/database/mutation_query.rs :: impl MutationQuery / fn sign_all
//@ result r
//@ attr #[verifier::loop_isolation(false)]
//@ attr #[verifier::exec_allows_no_decreases_clause]
//@ rewrite E17 "(?<=for insert in )&mut self\.mutate_entities(?= \{)" => "self.mutate_entities.iter_mut()" x1
//@ loop "for insert in" iter it
            invariant forall|i: int| 0 <= i < it.index@ ==> tree_signed(*final(#[trigger] it.seq()[i])),
//@ spec
        ensures
            // [every_entity_of_a_mutation_is_signed] a successful sign_all of a mutation has signed every one of its top-level entities (row, new references, nested entities); a failure of any of them is reported
            r is Ok ==> forall|i: int| 0 <= i < final(self).mutate_entities@.len() ==> tree_signed(#[trigger] final(self).mutate_entities@[i]),
            final(self).mutate_entities@.len() == old(self).mutate_entities@.len(),
//@ end
} // verus!
fn main() {}
