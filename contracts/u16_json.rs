//@ unit u16_json props C02 also C12
// Unit U16: "conforms to the data model" for a row received from a peer
// (src/database/query_language/data_model_parser.rs: validate_json_for_entity, called by GraphDatabase::add_nodes - unit
// u2b_ingest - for every received row).  The content of a row conforms to an entity exactly when: the row has no content, or
// its content is a JSON object in which every non-system field of the entity is either an explicit null on a nullable field
// (what the local mutation path stores for `field: null`), a value of the field's type, or absent on a field that is nullable
// or has a default.  Fields of reference type (Array / Entity) are not stored in the content and are not looked at.
// serde_json is an uninterpreted JSON tree with projections: nothing is assumed beyond "the projections are functions of the value".
#![feature(allocator_api)]
#![allow(unused_imports, unused_variables, dead_code, unused_mut, non_snake_case)]
use vstd::prelude::*;
use vstd::std_specs::iter::IteratorSpec;
use vstd::std_specs::hash::*;
use std::alloc::Allocator;
use std::collections::{HashMap, HashSet, VecDeque};
use std::collections::hash_map::Iter;
verus! {
pub mod trusted_keys {
    use vstd::prelude::*;
    use vstd::std_specs::hash::*;
    // std's Hash/Eq for String are structural; vstd only ships this axiom for primitives
    #[verifier::external_body]
    pub broadcast proof fn axiom_string_key_model() ensures #[trigger] obeys_key_model::<String>() {}
}
broadcast use {vstd::std_specs::hash::group_hash_axioms, trusted_b64::axiom_b64_of_chars, trusted_keys::axiom_string_key_model};
pub struct SecError { x: u8 }
/// `crate::database::Error`: the variants this function builds
pub mod database {
    pub enum Error {
        InvalidJsonObject(String), MissingJsonField(String), InvalidJsonFieldValue(String, String), Json(super::serde_json::Error), Cryptography(super::SecError),
    }
}
use database::Error;
impl From<serde_json::Error> for Error {
    #[verifier::external_body]
    fn from(e: serde_json::Error) -> Error { unimplemented!() }
}
impl From<SecError> for Error {
    #[verifier::external_body]
    fn from(e: SecError) -> Error { unimplemented!() }
}
#[verifier::external_body]
pub fn fmt_stub() -> (r: String) { unimplemented!() }
pub mod trusted_b64 {
    use vstd::prelude::*;
    use vstd::string::StringSliceAdditionalSpecFns;
    /// whether a byte string is valid base64 (security::base64_decode: the `base64` crate)
    pub uninterp spec fn b64_ok(data: Seq<u8>) -> bool;
    pub uninterp spec fn str_b64_ok(c: Seq<char>) -> bool;
    /// the UTF-8 bytes of a str are determined by its characters
    #[verifier::external_body]
    pub broadcast proof fn axiom_b64_of_chars(s: &str) ensures #[trigger] b64_ok(s.spec_bytes()) == str_b64_ok(s@) {}
}
pub use trusted_b64::{b64_ok, str_b64_ok};
#[verifier::external_body]
pub fn base64_decode(data: &[u8]) -> (r: std::result::Result<Vec<u8>, SecError>) ensures r is Ok <==> b64_ok(data@) { unimplemented!() }

pub open spec fn iter_covers<K, V>(m: Map<K, V>, rem: Seq<(&K, &V)>) -> bool {
    &&& rem.len() == m.len()
    &&& forall|i: int| 0 <= i < rem.len() ==> m.contains_key(*(#[trigger] rem[i]).0) && m[*rem[i].0] == *rem[i].1
    &&& forall|k: K| m.contains_key(k) ==> exists|i: int| 0 <= i < rem.len() && *(#[trigger] rem[i]).0 == k
}
/// iteration over `&HashMap`: ASSUMED std semantics - every entry exactly once, in some order
pub assume_specification<'a, K, V, S, A: Allocator>[ <&'a HashMap<K, V, S, A> as IntoIterator>::into_iter ](m: &'a HashMap<K, V, S, A>) -> (r: Iter<'a, K, V>)
    ensures iter_covers(m@, r.remaining()), r.obeys_prophetic_iter_laws();

// ---------------------------------------------------------------- serde_json: an uninterpreted JSON tree
pub mod serde_json {
    use vstd::prelude::*;
    pub struct Error { x: u8 }
    pub struct Value { x: u8 }
    pub struct JsonMap { x: u8 }
    impl Value {
        pub uninterp spec fn s_obj(&self) -> Option<JsonMap>;
        pub uninterp spec fn s_str(&self) -> Option<Seq<char>>;
        pub uninterp spec fn s_i64(&self) -> Option<i64>;
        pub uninterp spec fn s_f64(&self) -> Option<f64>;
        pub uninterp spec fn s_bool(&self) -> Option<bool>;
        pub uninterp spec fn s_is_arr(&self) -> bool;
        pub uninterp spec fn s_null(&self) -> bool;
        #[verifier::external_body]
        pub fn is_object(&self) -> (r: bool) ensures r == (self.s_obj() is Some) { unimplemented!() }
        #[verifier::external_body]
        pub fn is_array(&self) -> (r: bool) ensures r == self.s_is_arr() { unimplemented!() }
        #[verifier::external_body]
        pub fn is_null(&self) -> (r: bool) ensures r == self.s_null() { unimplemented!() }
        #[verifier::external_body]
        pub fn as_object(&self) -> (r: Option<&JsonMap>) ensures (match r { Some(m) => Some(*m), None => None }) == self.s_obj() { unimplemented!() }
        #[verifier::external_body]
        pub fn as_str(&self) -> (r: Option<&str>) ensures (match r { Some(s) => Some(s@), None => None }) == self.s_str() { unimplemented!() }
        #[verifier::external_body]
        pub fn as_i64(&self) -> (r: Option<i64>) ensures r == self.s_i64() { unimplemented!() }
        #[verifier::external_body]
        pub fn as_f64(&self) -> (r: Option<f64>) ensures r == self.s_f64() { unimplemented!() }
        #[verifier::external_body]
        pub fn as_bool(&self) -> (r: Option<bool>) ensures r == self.s_bool() { unimplemented!() }
    }
    impl JsonMap {
        pub uninterp spec fn s_get(&self, k: Seq<char>) -> Option<Value>;
        #[verifier::external_body]
        pub fn get(&self, k: &String) -> (r: Option<&Value>) ensures (match r { Some(v) => Some(*v), None => None }) == self.s_get(k@) { unimplemented!() }
    }
    /// whether a text is JSON, and the tree it denotes (uninterpreted: the same function wherever a stored row is decoded)
    pub uninterp spec fn spec_json_ok(s: Seq<char>) -> bool;
    pub uninterp spec fn spec_json_parse(s: Seq<char>) -> Value;
    #[verifier::external_body]
    pub fn from_str(s: &String) -> (r: Result<Value, Error>) ensures r is Ok <==> spec_json_ok(s@), r is Ok ==> r->Ok_0 == spec_json_parse(s@) { unimplemented!() }
}
/// a parameter / default value: opaque
pub struct ParamValue { x: u8 }
pub struct Index { x: u8 }
//@ extract src/database/query_language/mod.rs :: enum FieldType
//@ end
//@ extract src/database/query_language/data_model_parser.rs :: struct Field
//@ end
//@ extract src/database/query_language/data_model_parser.rs :: struct Entity
//@ end

// ---------------------------------------------------------------- the specification, from the property ("conforms to the data model") and the local writer
/// a value stored under a field conforms to the field's type
pub open spec fn typed_ok(t: FieldType, v: serde_json::Value) -> bool {
    match t {
        FieldType::Boolean => v.s_bool() is Some,
        FieldType::Float => v.s_f64() is Some,
        FieldType::Base64 => v.s_str() is Some && str_b64_ok(v.s_str()->Some_0),
        FieldType::Integer => v.s_i64() is Some,
        FieldType::String => v.s_str() is Some,
        FieldType::Json => v.s_obj() is Some || v.s_is_arr(),
        FieldType::Array(_) => true,
        FieldType::Entity(_) => true,
    }
}
pub open spec fn is_reference(t: FieldType) -> bool { t is Array || t is Entity }
/// one field of the entity against the content of the row
pub open spec fn field_ok(obj: serde_json::JsonMap, f: Field) -> bool {
    f.is_system || is_reference(f.field_type) || match obj.s_get(f.short_name@) {
        // an explicit null is a value of a nullable field: it is what the local mutation path stores for `field: null`
        Some(v) => (f.nullable && v.s_null()) || typed_ok(f.field_type, v),
        // an absent field reads as null or as its default
        None => f.nullable || f.default_value is Some,
    }
}
pub open spec fn json_conforms(e: Entity, json: Option<String>) -> bool {
    json is Some ==> serde_json::spec_json_ok(json->Some_0@) && serde_json::spec_json_parse(json->Some_0@).s_obj() is Some
        && forall|k: String| #[trigger] e.fields@.contains_key(k) ==> field_ok(serde_json::spec_json_parse(json->Some_0@).s_obj()->Some_0, e.fields@[k])
}

//@ extract src/database/query_language/data_model_parser.rs :: fn validate_json_for_entity
//@ result r
//@ attr #[verifier::loop_isolation(false)]
//@ attr #[verifier::exec_allows_no_decreases_clause]
//@ rewrite E16 "(name|\"[A-Za-z0-9 ]+\")\.to_string\(\)" => "fmt_stub()" x*
//@ closure "|v|" ret bool
                ensures b == v.s_null()
//@ insert before-stmt "let name = f.0;"
            proof { assert(entity.fields@.contains_key(*f.0) && entity.fields@[*f.0] == *f.1); }
//@ loop "for f in &entity.fields" iter it
            invariant
                iter_covers(entity.fields@, it.seq()),
                forall|i: int| 0 <= i < it.index@ ==> field_ok(*json, *(#[trigger] it.seq()[i]).1),
//@ spec
        ensures
            // [row_content_conforms_iff_every_field_does]{C02,C12} the content of a received row is accepted exactly when it is absent, or a JSON object in which every non-system scalar field of the entity holds an explicit null (nullable field), a value of its type, or is absent with the field nullable or defaulted - the same contents the local mutation path writes
            r is Ok <==> json_conforms(*entity, *json),
//@ end
} // verus!
fn main() {}
