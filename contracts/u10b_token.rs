//@ unit u10b_token props C19
// Unit U10b: the meeting token two peers derive for each other (src/security.rs: MeetingSecret::token, derive_token).  The token a peer
// announces and the token it expects are the same function of the pair's Diffie-Hellman secret: assuming x25519 is commutative
// (dh(a, pub(b)) == dh(b, pub(a)): the defining property of the exchange, trusted), both sides derive the same token.  That tokens of
// distinct pairs differ rests on collision resistance of blake3 truncated to the token size and is NOT decided.
#![allow(unused_imports, unused_variables, dead_code, unused_mut, non_snake_case)]
use vstd::prelude::*;
use std::collections::{HashMap, HashSet, VecDeque};   // the std collections a change to the extracted code may reach for
verus! {
//@ extract src/security.rs :: const MEETING_TOKEN_SIZE
//@ end
//@ extract src/security.rs :: type MeetingToken
//@ end
/// x25519: secrets, public keys, the shared secret
pub mod x25519 {
    use vstd::prelude::*;
    pub struct StaticSecret { x: u8 }
    pub struct PublicKey { x: u8 }
    pub struct SharedSecret { x: u8 }
    pub uninterp spec fn pub_of(s: StaticSecret) -> PublicKey;
    pub uninterp spec fn dh(s: StaticSecret, p: PublicKey) -> Seq<u8>;
    pub uninterp spec fn secret_bytes(s: StaticSecret) -> Seq<u8>;
    /// TRUSTED: the Diffie-Hellman exchange is commutative
    #[verifier::external_body]
    pub proof fn axiom_dh_commutes(a: StaticSecret, b: StaticSecret) ensures dh(a, pub_of(b)) == dh(b, pub_of(a)) {}
    impl StaticSecret {
        #[verifier::external_body]
        pub fn diffie_hellman(&self, their_public: &PublicKey) -> (r: SharedSecret) ensures r.bytes() == dh(*self, *their_public) { unimplemented!() }
        #[verifier::external_body]
        pub fn as_bytes(&self) -> (r: &[u8; 32]) ensures r@ == secret_bytes(*self) { unimplemented!() }
    }
    impl SharedSecret {
        pub uninterp spec fn bytes(&self) -> Seq<u8>;
        #[verifier::external_body]
        pub fn as_bytes(&self) -> (r: &[u8; 32]) ensures r@ == self.bytes() { unimplemented!() }
    }
    impl PublicKey {
        #[verifier::external_body]
        pub fn from(s: &StaticSecret) -> (r: PublicKey) ensures r == pub_of(*s) { unimplemented!() }
        /// #[derive(PartialEq)] on the 32 key bytes
        #[verifier::external_body]
        pub fn eq(&self, o: &PublicKey) -> (r: bool) ensures r == (*self == *o) { unimplemented!() }
    }
}
pub use x25519::*;
/// blake3 plain hash
pub uninterp spec fn spec_hash(b: Seq<u8>) -> Seq<u8>;
#[verifier::external_body]
pub fn hash(bytes: &[u8]) -> (r: [u8; 32]) ensures r@ == spec_hash(bytes@) { unimplemented!() }
//@ extract src/security.rs :: struct MeetingSecret
//@ end
impl MeetingSecret {
    /// the (private) x25519 secret
    pub closed spec fn sec(&self) -> StaticSecret { self.secret }
}
/// E31: `token.copy_from_slice(&hash[0..MEETING_TOKEN_SIZE])` -> this stub with std's semantics: the first bytes of the digest
#[verifier::external_body]
pub fn copy_prefix(token: &mut MeetingToken, hash: &[u8; 32]) ensures final(token)@ == hash@.subrange(0, MEETING_TOKEN_SIZE as int) { unimplemented!() }
/// the token a secret derives for a public key
pub open spec fn spec_token(s: StaticSecret, p: PublicKey) -> Seq<u8> {
    (if p == pub_of(s) { spec_hash(secret_bytes(s)) } else { spec_hash(dh(s, p)) }).subrange(0, MEETING_TOKEN_SIZE as int)
}
//@ extract src/security.rs :: impl MeetingSecret / fn public_key
//@ result r
//@ spec
        ensures r == pub_of(self.sec()),
//@ end
//@ extract src/security.rs :: impl MeetingSecret / fn token
//@ result r
//@ rewrite E31 "token\.copy_from_slice\(&hash\[0\.\.MEETING_TOKEN_SIZE\]\)" => "copy_prefix(&mut token, &hash)" x1
//@ spec
        ensures
            // [meeting_token_is_a_function_of_the_shared_secret] the token derived for a peer is the truncated digest of the Diffie-Hellman secret of the pair (of the own secret for the own key): nothing else enters it
            r@ == spec_token(self.sec(), *their_public),
//@ end
//@ obligation L_meeting_token_same_on_both_sides props C19 : the token peer A derives for B's public key is the token B derives for A's public key (x25519 commutativity trusted)
pub proof fn L_meeting_token_same_on_both_sides(a: StaticSecret, b: StaticSecret)
    requires pub_of(a) != pub_of(b),
    ensures spec_token(a, pub_of(b)) == spec_token(b, pub_of(a)),
{
    axiom_dh_commutes(a, b);
}
} // verus!
fn main() {}
