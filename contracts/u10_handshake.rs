//@ unit u10_handshake props C19 also C06
// Unit U10: the connection handshake (src/synchronisation/peer_inbound_service.rs::initialise_connection).
// The remote key is bound to the connection, the connection is reported as connected and an invitation is consumed only
// after (1) the identity answer verified against the challenge created in THIS call, (2) the peer row validated, and
// (3) the token-type specific check (expected key for an allowed peer, invite signature for an invitation).
#![allow(unused_imports, unused_variables, dead_code, unused_mut, non_snake_case)]
use vstd::prelude::*;
use std::collections::{HashMap, HashSet, VecDeque};   // the std collections a change to the extracted code may reach for
use vstd::std_specs::cmp::PartialEqSpec;
use std::sync::Arc;
verus! {
broadcast use vstd::laws_eq::group_laws_eq;
pub type Uid = [u8; 16];
pub mod crate_error { pub enum Error { InvalidConnection(String), TimeOut(String), Security(super::security::Error), Database(super::DbError), Other() } }
pub struct DbError { x: u8 }
impl From<security::Error> for crate_error::Error {
    #[verifier::external_body]
    fn from(e: security::Error) -> crate_error::Error { unimplemented!() }
}
impl From<DbError> for crate_error::Error {
    #[verifier::external_body]
    fn from(e: DbError) -> crate_error::Error { unimplemented!() }
}
pub struct SyncError { x: u8 }
} // verus!
impl std::fmt::Debug for SyncError { fn fmt(&self, f: &mut std::fmt::Formatter<'_>) -> std::fmt::Result { Ok(()) } }
verus! {
#[verifier::external_body]
pub fn fmt_stub() -> (r: String) { unimplemented!() }
pub fn drop<T>(_x: T) {}

/// sig_ok(vk, msg, sig): `sig` verifies for message `msg` under the verifying key `vk` (ed25519 as mathematics)
pub uninterp spec fn sig_ok(vk: Seq<u8>, msg: Seq<u8>, sig: Seq<u8>) -> bool;
pub mod security {
    use vstd::prelude::*;
    pub struct Error { x: u8 }
    pub struct ImportedKey { k: Vec<u8> }
    impl ImportedKey {
        pub uninterp spec fn key(&self) -> Seq<u8>;
        #[verifier::external_body]
        pub fn verify(&self, data: &[u8], signature: &Vec<u8>) -> (r: std::result::Result<(), Error>)
            ensures r is Ok ==> super::sig_ok(self.key(), data@, signature@)
        { unimplemented!() }
    }
    /// blake3::hash (plain mode: the mode that digests rows)
    pub uninterp spec fn spec_plain_hash(bytes: Seq<u8>) -> Seq<u8>;
    #[verifier::external_body]
    pub fn hash(bytes: &[u8]) -> (r: [u8; 32]) ensures r@ == spec_plain_hash(bytes@) { unimplemented!() }
    /// blake3::derive_key (key-derivation mode; separated by construction from the plain hash mode that digests rows)
    pub uninterp spec fn spec_derive(context: Seq<char>, key_material: Seq<u8>) -> Seq<u8>;
    #[verifier::external_body]
    pub fn derive_key(context: &str, key_material: &[u8]) -> (r: [u8; 32]) ensures r@ == spec_derive(context@, key_material@) { unimplemented!() }
    #[verifier::external_body]
    pub fn import_verifying_key(veriying_key: &Vec<u8>) -> (r: std::result::Result<Box<ImportedKey>, Error>)
        ensures r is Ok ==> r->Ok_0.key() == veriying_key@
    { unimplemented!() }
}
// the plain-mode hasher (the one that digests rows), so that code reaching for it is decided rather than rejected by the front end
//@ include common/blake3_stub.rs
/// a fresh 32-byte challenge (the randomness itself is not modelled: what is decided is that the proof is checked against
/// the value created in this call and sent in this call's ProveIdentity request)
#[verifier::external_body]
pub fn random32() -> (r: [u8; 32]) { unimplemented!() }
pub assume_specification<T: Clone>[ <[T]>::to_vec ](s: &[T]) -> (r: Vec<T>) ensures r@ == s@;
#[verifier::external_body]
pub uninterp spec fn spec_b64dec(data: Seq<u8>) -> Seq<u8>;
#[verifier::external_body]
pub fn base64_decode(data: &[u8]) -> (r: std::result::Result<Vec<u8>, security::Error>) ensures r is Ok ==> r->Ok_0@ == spec_b64dec(data@) { unimplemented!() }
pub uninterp spec fn str_bytes(s: Seq<char>) -> Seq<u8>;
pub assume_specification[ String::as_bytes ](s: &String) -> (r: &[u8]) ensures r@ == str_bytes(s@);

pub struct Node { pub verifying_key: Vec<u8>, pub x: u8 }
impl Node {
    #[verifier::external_body]
    pub fn clone(&self) -> (r: Node) ensures r == *self { unimplemented!() }
}
pub struct IdentityAnswer { pub peer: Node, pub chall_signature: Vec<u8> }
//@ extract src/synchronisation/mod.rs :: const IDENTITY_CHALLENGE_CONTEXT
//@ end
/// the message signed and verified for an identity challenge: blake3's key-derivation mode under the handshake context
pub open spec fn identity_message(challenge: Seq<u8>) -> Seq<u8> { security::spec_derive(IDENTITY_CHALLENGE_CONTEXT@, challenge) }
//@ extract src/synchronisation/mod.rs :: fn identity_challenge_message
//@ result r
//@ spec
    ensures
        // [identity_message_is_domain_separated]{C06,C19} the bytes signed for the handshake are derived from the remote side's bytes in blake3's key-derivation mode, never those bytes themselves
        r@ == identity_message(challenge@),
//@ end
//@ extract src/synchronisation/mod.rs :: impl IdentityAnswer / fn verify
//@ result r
//@ spec
        ensures
            // [identity_answer_checked_over_the_derived_message]{C19,C06} an identity answer is accepted only if its signature verifies, under the key it states, over the message derived from THIS challenge
            r is Ok ==> sig_ok(self.peer.verifying_key@, identity_message(challenge@), self.chall_signature@),
//@ end
pub uninterp spec fn peer_row_valid(n: Node) -> bool;
pub struct Peer { pub id: String, pub verifying_key: String }
impl Peer {
    #[verifier::external_body]
    pub fn validate(peer: &Node) -> (r: std::result::Result<(), DbError>) ensures r is Ok ==> peer_row_valid(*peer) { unimplemented!() }
}
pub struct AllowedPeer { pub peer: Peer, pub meeting_token: String }
pub struct OwnedInvite { x: u8 }
pub struct Invite { pub invite_id: Uid, pub application: String, pub invite_sign: Vec<u8> }
impl Invite {
    pub uninterp spec fn spec_hash(&self) -> Seq<u8>;
    #[verifier::external_body]
    pub fn hash(&self) -> (r: [u8; 32]) ensures r@ == self.spec_hash() { unimplemented!() }
}
pub enum TokenType { AllowedPeer(AllowedPeer), OwnedInvite(OwnedInvite), Invite(Invite) }
impl TokenType {
    #[verifier::external_body]
    pub fn clone(&self) -> (r: TokenType) ensures r == *self { unimplemented!() }   // #[derive(Clone)]
}
pub enum Query { ProveIdentity(Vec<u8>), Other() }
pub struct QueryService { x: u8 }
pub type MeetingToken = [u8; 7];
//@ extract src/network/mod.rs :: struct ConnectionInfo
//@ end
pub struct Mutex<T> { x: Option<T> }
impl Mutex<Vec<u8>> {
    #[verifier::external_body]
    pub async fn lock(&self) -> (r: Box<Vec<u8>>) { unimplemented!() }     // the cell holding the key bound to the connection
}
pub struct AtomicBool { x: bool }
pub enum Ordering { Relaxed }
impl AtomicBool {
    #[verifier::external_body]
    pub fn store(&self, v: bool, o: Ordering) { unimplemented!() }
}
pub struct Sender<T> { x: Option<T> }
pub struct SendTimeoutError { x: u8 }
pub enum RemoteEvent { Ready, ReadyFingerprint, RoomDefinitionChanged(Uid), RoomDataChanged(Uid) }
pub struct PeerConnectionService { x: u8 }
impl PeerConnectionService {
    #[verifier::external_body]
    pub async fn invite_accepted(&self, token: TokenType, peer: Node)
        requires !(token is AllowedPeer)     // PeerManager::invite_accepted (unit u12_invites) treats any other token type as unreachable
    { unimplemented!() }
    #[verifier::external_body]
    pub async fn connected(&self, verifying_key: Vec<u8>, conn_id: Uid) { unimplemented!() }
}
pub struct LocalPeerService { x: u8 }
impl LocalPeerService {
    /// sends the query to the remote side and decodes its answer: the answer is whatever the remote side chooses
    #[verifier::external_body]
    pub async fn query(query_service: &QueryService, query: Query) -> (r: std::result::Result<IdentityAnswer, SyncError>) { unimplemented!() }
    #[verifier::external_body]
    pub async fn send_event(event_sender: &Sender<RemoteEvent>, event: RemoteEvent) -> (r: std::result::Result<(), SendTimeoutError>) { unimplemented!() }
}
/// the check that goes with the kind of meeting token the connection used
pub open spec fn token_check_passed(tt: TokenType, proof: IdentityAnswer) -> bool {
    match tt {
        TokenType::AllowedPeer(p) => spec_b64dec(str_bytes(p.peer.verifying_key@)) =~= proof.peer.verifying_key@,
        TokenType::Invite(inv) => sig_ok(proof.peer.verifying_key@, inv.spec_hash(), inv.invite_sign@),
        TokenType::OwnedInvite(_) => true,
    }
}
/// what must have been established before the connection is treated as the peer `proof.peer.verifying_key`
pub open spec fn identity_proved(proof: IdentityAnswer, challenge: Seq<u8>) -> bool {
    sig_ok(proof.peer.verifying_key@, identity_message(challenge), proof.chall_signature@) && peer_row_valid(proof.peer)
}

//@ extract src/synchronisation/peer_inbound_service.rs :: impl LocalPeerService / fn initialise_connection
//@ rewrite E3 "crate::Error" => "crate_error::Error" x*
//@ rewrite E3 "&Arc<Mutex<Vec<u8>>>" => "&Mutex<Vec<u8>>" x1
//@ rewrite E3 "&Arc<AtomicBool>" => "&AtomicBool" x1
//@ rewrite E6 "\|_\|" => "|_e|" x*
//@ rewrite E16 "\"([A-Za-z ]+)\"\.to_string\(\)" => "fmt_stub()" x*
//@ rewrite E3 "let proof: IdentityAnswer = proof\.unwrap\(\);" => "let proof: IdentityAnswer = proof.unwrap();" x1
//@ insert after-stmt "let challenge = random32().to_vec()"
        let ghost sent_challenge = challenge@;
//@ insert before-stmt "let proof = Self::query("
        // [challenge_sent_is_challenge_checked] the challenge sent to the remote side is the one created in this call
        assert(challenge@ == sent_challenge);
//@ insert-each before-stmt "*key = proof.peer.verifying_key.clone();"
                    // [key_bound_only_after_proof] the remote key is bound to the connection only after the proof of possession verified on this call's challenge and the peer row validated
                    assert(identity_proved(proof, sent_challenge));
                    // [key_bound_only_after_the_token_check] ... and only after the check that goes with the meeting token it used: for a known peer the proven key is the key expected for that token; an accepted invitation was signed by the proven key
                    assert(token_check_passed(token_type, proof));
//@ insert-each before-stmt ".invite_accepted(token_type.clone(), proof.peer.clone())"
                // [invite_consumed_only_after_proof] an invitation is consumed only by a connection that proved its key and, for an accepted invitation, whose key signed it
                assert(identity_proved(proof, sent_challenge) && token_check_passed(token_type, proof));
//@ insert before-stmt ".connected(proof.peer.verifying_key, connection_info.conn_id)"
            // [connected_only_after_proof] the connection is reported as connected (and will be served) only after the proof and the token check
            assert(identity_proved(proof, sent_challenge) && token_check_passed(token_type, proof));
//@ end
} // verus!
fn main() {}
