//@ unit u7b_local_event props C08
// Unit U7b: the other source of the allowed-room set: LocalPeerService::process_local_event
// (src/synchronisation/peer_inbound_service.rs) re-authorises a room for the connection whenever its definition changes.
#![feature(allocator_api)]
#![allow(unused_imports, unused_variables, dead_code, unused_mut, non_snake_case)]
use vstd::prelude::*;
use vstd::std_specs::iter::IteratorSpec;
use vstd::std_specs::hash::*;
use vstd::std_specs::cmp::PartialEqSpec;
use std::alloc::Allocator;
use std::collections::{HashMap, HashSet};
use std::sync::Arc;
verus! {
broadcast use {vstd::laws_eq::group_laws_eq, vstd::std_specs::hash::group_hash_axioms, trusted_keys::group_trusted_keys};
pub type Uid = [u8; 16];
pub enum Error { AuthorisationExists(), InvalidUserDate(), InvalidRightDate() }
pub type Result<T> = std::result::Result<T, Error>;
pub mod crate_error { pub enum Error { TimeOut(String), Other() } }

//@ extract src/database/room.rs :: const WILDCARD_ENTITY
//@ end
//@ extract src/database/room.rs :: struct Room
//@ end
//@ extract src/database/room.rs :: struct Authorisation
//@ end
//@ extract src/database/room.rs :: struct User
//@ end
//@ extract src/database/room.rs :: struct EntityRight
//@ end
//@ extract src/database/room.rs :: enum RightType
//@ end
//@ include common/room_spec.rs
//@ use-contract u1_room.rs :: Room::has_user
//@ use-contract u1_room.rs :: Room::is_user_valid_at

pub struct Mutex<T> { x: Option<T> }
impl Mutex<Vec<u8>> {
    #[verifier::external_body]
    pub async fn lock(&self) -> (r: Box<Vec<u8>>) { unimplemented!() }   // the authenticated key of the remote side (tokio MutexGuard)
}
pub struct Sender<T> { x: Option<T> }
pub struct SendTimeoutError { x: u8 }
pub enum RemoteEvent { Ready, ReadyFingerprint, RoomDefinitionChanged(Uid), RoomDataChanged(Uid) }
#[verifier::external_body]
pub fn now() -> (r: i64) { unimplemented!() }
pub struct InboundQueryService { x: u8 }
impl InboundQueryService {
    /// adds `room` to the set of rooms the remote side of this connection may read (unit u7_serving).
    /// `key` and `date` are ghost: the authenticated key and the current date.  The membership the property demands is the
    /// precondition; it is checked where the function is called.
    #[verifier::external_body]
    pub fn add_allowed_room(&self, room: Uid) { unimplemented!() }
}
pub struct LocalPeerService { x: u8 }
impl LocalPeerService {
    #[verifier::external_body]
    pub async fn send_event(event_sender: &Sender<RemoteEvent>, event: RemoteEvent) -> (r: std::result::Result<(), SendTimeoutError>) { unimplemented!() }
}

//@ extract src/synchronisation/peer_inbound_service.rs :: impl LocalPeerService / fn process_local_event as LocalPeerService::lifted_room_definition_changed
//@ lift "LocalEvent::RoomDefinitionChanged(room) =>" :: async fn lifted_room_definition_changed(room: Arc<Room>, remote_key: &Mutex<Vec<u8>>, event_sender: &Sender<RemoteEvent>, remote_rooms: &HashSet<Uid>, inbound_query_service: &InboundQueryService) -> std::result::Result<(), crate_error::Error> tail "Ok(())"
//@ rewrite E3 "crate::Error" => "crate_error::Error" x*
//@ rewrite E6 "\|_\|" => "|_e|" x*
//@ insert before-stmt "inbound_query_service.add_allowed_room(room.id)"
                    // [allow_room_only_for_a_key_listed_in_it] a room is (re-)authorised for the connection only if the authenticated key is listed in its definition - never on the say-so of the remote side (the rooms it announced)
                    assert(spec_ever_listed(*room, *key));
                    // [allow_room_only_for_current_member] a room is (re-)authorised for the connection only if the authenticated key is a member of it now
                    assert(exists|d: i64| spec_room_member(*room, *key, d));
//@ end
} // verus!
fn main() {}
