//@ unit u1_room props C01 C02 C08 C10 C12
// Unit U1: the room decision kernel (src/database/room.rs).
#![feature(allocator_api)]
#![allow(unused_imports, unused_variables, dead_code, unused_mut, non_snake_case)]
use vstd::prelude::*;
use vstd::std_specs::iter::IteratorSpec;
use vstd::std_specs::hash::*;
use vstd::std_specs::cmp::PartialEqSpec;
use std::alloc::Allocator;
use std::collections::{HashMap, HashSet};
use std::collections::hash_map::Iter;
verus! {
broadcast use {vstd::laws_eq::group_laws_eq, vstd::std_specs::hash::group_hash_axioms, trusted_keys::group_trusted_keys,
    trusted_default::axiom_default_vec_user, trusted_default::axiom_default_vec_right};

pub type Uid = [u8; 16];
pub enum Error {
    AuthorisationExists(),
    InvalidUserDate(),
    InvalidRightDate(),
}
pub type Result<T> = std::result::Result<T, Error>;

// ---- assumed specifications of std functions vstd does not cover (DESIGN.md section 7)
pub open spec fn iter_covers<K, V>(m: Map<K, V>, rem: Seq<(&K, &V)>) -> bool {
    &&& rem.len() == m.len()
    &&& forall|i: int| 0 <= i < rem.len() ==> m.contains_key(*(#[trigger] rem[i]).0) && m[*rem[i].0] == *rem[i].1
    &&& forall|k: K| m.contains_key(k) ==> exists|i: int| 0 <= i < rem.len() && *(#[trigger] rem[i]).0 == k
}
// std implements `<&HashMap as IntoIterator>::into_iter` as `self.iter()`; vstd only specifies `iter`
pub assume_specification<'a, K, V, S, A: Allocator>[ <&'a HashMap<K, V, S, A> as IntoIterator>::into_iter ](m: &'a HashMap<K, V, S, A>) -> (r: Iter<'a, K, V>)
    ensures iter_covers(m@, r.remaining()), r.obeys_prophetic_iter_laws();

pub mod trusted_default {
    use vstd::prelude::*;
    use super::{User, EntityRight};
    pub uninterp spec fn spec_is_default<V>(v: V) -> bool;
    #[verifier::external_body]
    pub broadcast proof fn axiom_default_vec_user(v: Vec<User>) ensures #[trigger] spec_is_default(v) ==> v@ == Seq::<User>::empty() {}
    #[verifier::external_body]
    pub broadcast proof fn axiom_default_vec_right(v: Vec<EntityRight>) ensures #[trigger] spec_is_default(v) ==> v@ == Seq::<EntityRight>::empty() {}
}
pub use trusted_default::spec_is_default;
// Entry::or_default: same contract as vstd's or_insert with V::default() as the inserted value
pub assume_specification<'a, K, V: std::default::Default>[ std::collections::hash_map::Entry::<'a, K, V>::or_default ](entry: std::collections::hash_map::Entry<'a, K, V>) -> (value: &'a mut V)
    ensures
        match entry.value() { Some(v) => *value == v, None => spec_is_default(*value) },
        entry.final_value() == Some(*final(value));


//@ extract src/database/room.rs :: const WILDCARD_ENTITY
//@ end
//@ extract src/database/room.rs :: struct Room
//@ end
//@ extract src/database/room.rs :: struct Authorisation
//@ end
//@ extract src/database/room.rs :: struct User
//@ end
//@ extract src/database/room.rs :: struct EntityRight
//@ end
//@ extract src/database/room.rs :: enum RightType
//@ end

//@ include common/room_spec.rs

// ================================================================= decisions
//@ extract src/database/room.rs :: impl Room / fn is_admin
//@ result r
//@ closure "|&user|" as "|user|"
//@ insert after-stmt "let user_opt"
            proof { lemma_rfind_user(val@, date, user_opt); }
//@ spec
        ensures
            // [is_admin_eq_spec] admin at `date` iff the key's last admin entry not later than `date` is enabled
            r == spec_is_admin(*self, *user, date),
//@ end

//@ extract src/database/room.rs :: impl Authorisation / fn can_admin_users
//@ result r
//@ closure "|&user|" as "|user|"
//@ insert after-stmt "let user_opt"
            proof { lemma_rfind_user(val@, date, user_opt); }
//@ spec
        ensures
            // [can_admin_users_eq_spec]
            r == spec_can_admin_users(*self, *user, date),
//@ end

//@ extract src/database/room.rs :: impl Authorisation / fn is_user_valid_at
//@ result r
//@ closure "|&user|" #1 as "|user|"
//@ closure "|&user|" #2 as "|user|"
//@ insert after-stmt "let user_opt" #1
            proof { lemma_rfind_user(val@, date, user_opt); }
//@ insert after-stmt "let user_opt" #2
            proof { lemma_rfind_user(val@, date, user_opt); }
//@ spec
        ensures
            // [member_eq_spec] member of the group at `date` iff enabled as user or as user admin
            r == spec_member(*self, *user, date),
//@ end

//@ extract src/database/room.rs :: impl Authorisation / fn get_right_at
//@ result r
//@ closure "|&cred|" as "|cred|"
//@ insert body-start
        broadcast use lemma_rfind_right;
//@ spec
        ensures
            // [get_right_at_find_form] (auxiliary) the result is the first match of the reversed list
            self.rights@.contains_key(string_of(entity@)) ==> rfind_right(self.rights@[string_of(entity@)]@, date, r),
            // [get_right_at_eq_spec] the entity's last right entry not later than `date`
            deref_right(r) == spec_right_at(*self, entity@, date),
//@ end

//@ extract src/database/room.rs :: impl Authorisation / fn can
//@ result r
//@ spec
        ensures
            // [auth_can_eq_spec] per-entity right at `date`, else the wildcard right at `date`, else refused
            r == spec_auth_can(*self, entity@, date, *right),
//@ end

//@ extract src/database/room.rs :: impl Room / fn can
//@ result r
//@ attr #[verifier::exec_allows_no_decreases_clause]
//@ attr #[verifier::loop_isolation(false)]
//@ loop "for entry in &self.authorisations" iter it
            invariant
                iter_covers(self.authorisations@, it.seq()),
                forall|id: Uid| self.authorisations@.contains_key(id)
                    && (user_valid || spec_member(self.authorisations@[id], *user, date))
                    && spec_auth_can(self.authorisations@[id], entity@, date, *right)
                    ==> exists|i: int| it.index@ <= i < it.seq().len() && *(#[trigger] it.seq()[i]).0 == id,
//@ spec
        ensures
            // [can_eq_spec]{C01,C02,C12,C10} the room's verdict equals the property's decision function
            r == spec_can(*self, *user, entity@, date, *right),
//@ end

//@ extract src/database/room.rs :: impl Room / fn is_user_valid_at
//@ result r
//@ attr #[verifier::exec_allows_no_decreases_clause]
//@ attr #[verifier::loop_isolation(false)]
//@ closure "|&user|" as "|user|"
//@ insert after-stmt "let user_opt"
            proof { lemma_rfind_user(users@, date, user_opt); }
//@ loop "for entry in &self.authorisations" iter it
            invariant
                iter_covers(self.authorisations@, it.seq()),
                !spec_is_admin(*self, *verifying_key, date),
                forall|id: Uid| self.authorisations@.contains_key(id) && spec_member(self.authorisations@[id], *verifying_key, date)
                    ==> exists|i: int| it.index@ <= i < it.seq().len() && *(#[trigger] it.seq()[i]).0 == id,
//@ spec
        ensures
            // [room_member_eq_spec]{C08,C10} member of the room at `date`: enabled admin, or enabled user / user admin of some group
            r == spec_room_member(*self, *verifying_key, date),
//@ end

//@ extract src/database/room.rs :: impl EntityRight / fn new
//@ result r
//@ spec
        ensures
            // [new_right_normalised]{C10,C01} the all-rows right implies the own-rows right
            right_normalised(r),
            // [new_right_fields]
            er_valid_from(r) == valid_from && er_entity(r) == entity && er_all(r) == mutate_all && er_self(r) == (mutate_self || mutate_all),
//@ end


//@ extract src/database/room.rs :: impl Room / fn add_admin_user
//@ result r
//@ spec
        ensures
            // [add_admin_appends]{C01,C10,C07} accepted: the key's history gains exactly this entry at the end, every other key is untouched
            r is Ok ==> users_appended(old(self).admins@, final(self).admins@, user) && last_date_le(user_list(old(self).admins@, user.verifying_key), user.date),
            // [add_admin_refuses_out_of_order]{C10} refused exactly when the new entry is older than the key's last entry; then no existing history changes
            r is Err ==> users_unchanged(old(self).admins@, final(self).admins@) && !last_date_le(user_list(old(self).admins@, user.verifying_key), user.date),
            // [add_admin_frame]
            final(self).id == old(self).id && final(self).mdate == old(self).mdate && final(self).authorisations == old(self).authorisations,
//@ end

//@ extract src/database/room.rs :: impl Authorisation / fn add_user
//@ result r
//@ spec
        ensures
            // [add_user_appends]{C01,C10,C07}
            r is Ok ==> users_appended(old(self).users@, final(self).users@, user) && last_date_le(user_list(old(self).users@, user.verifying_key), user.date),
            // [add_user_refuses_out_of_order]{C10}
            r is Err ==> users_unchanged(old(self).users@, final(self).users@) && !last_date_le(user_list(old(self).users@, user.verifying_key), user.date),
            // [add_user_frame]
            final(self).id == old(self).id && final(self).mdate == old(self).mdate && final(self).rights == old(self).rights
              && final(self).user_admins == old(self).user_admins,
//@ end

//@ extract src/database/room.rs :: impl Authorisation / fn add_user_admin
//@ result r
//@ spec
        ensures
            // [add_user_admin_appends]{C01,C10,C07}
            r is Ok ==> users_appended(old(self).user_admins@, final(self).user_admins@, user) && last_date_le(user_list(old(self).user_admins@, user.verifying_key), user.date),
            // [add_user_admin_refuses_out_of_order]{C10}
            r is Err ==> users_unchanged(old(self).user_admins@, final(self).user_admins@) && !last_date_le(user_list(old(self).user_admins@, user.verifying_key), user.date),
            // [add_user_admin_frame]
            final(self).id == old(self).id && final(self).mdate == old(self).mdate && final(self).rights == old(self).rights
              && final(self).users == old(self).users,
//@ end


//@ extract src/database/room.rs :: impl Authorisation / fn add_right
//@ result r
//@ spec
        ensures
            // [add_right_appends]{C01,C10,C07}
            r is Ok ==> rights_appended(old(self).rights@, final(self).rights@, right) && last_from_le(right_list(old(self).rights@, er_entity(right)), er_valid_from(right)),
            // [add_right_refuses_out_of_order]{C10}
            r is Err ==> rights_unchanged(old(self).rights@, final(self).rights@) && !last_from_le(right_list(old(self).rights@, er_entity(right)), er_valid_from(right)),
            // [add_right_frame]
            final(self).id == old(self).id && final(self).mdate == old(self).mdate && final(self).users == old(self).users
              && final(self).user_admins == old(self).user_admins,
//@ end

//@ extract src/database/room.rs :: impl Room / fn add_auth
//@ result r
//@ spec
        ensures
            // [add_auth_new_group_only]{C01,C07} a group is added only under an id not yet present; an existing group is never replaced
            r is Ok ==> !old(self).authorisations@.contains_key(auth.id) && final(self).authorisations@ == old(self).authorisations@.insert(auth.id, auth),
            r is Err ==> old(self).authorisations@.contains_key(auth.id) && final(self).authorisations@ == old(self).authorisations@,
            // [add_auth_frame]
            final(self).id == old(self).id && final(self).mdate == old(self).mdate && final(self).admins == old(self).admins,
//@ end

//@ extract src/database/room.rs :: impl Authorisation / fn has_user
//@ result r
//@ spec
        ensures
            // [auth_has_user] ever listed (enabled or not) as user or user admin of the group
            r == (self.users@.contains_key(*user) || self.user_admins@.contains_key(*user)),
//@ end

//@ extract src/database/room.rs :: impl Room / fn has_user
//@ result r
//@ attr #[verifier::exec_allows_no_decreases_clause]
//@ attr #[verifier::loop_isolation(false)]
//@ insert body-start
        proof { assert(<Vec<u8> as PartialEqSpec<Vec<u8>>>::obeys_eq_spec()); }
//@ loop "for entry in &self.admins" iter ita
            invariant
                iter_covers(self.admins@, ita.seq()),
                forall|k: Vec<u8>, i: int| #[trigger] self.admins@.contains_key(k) && 0 <= i < self.admins@[k]@.len() && (#[trigger] self.admins@[k]@[i]).verifying_key@ =~= user@
                    ==> exists|j: int| ita.index@ <= j < ita.seq().len() && *(#[trigger] ita.seq()[j]).0 == k,
//@ loop "for u in entry.1" iter itu
                invariant
                    forall|i: int| 0 <= i < itu.index@ ==> !((#[trigger] entry.1@[i]).verifying_key@ =~= user@),
//@ loop "for entry in &self.authorisations" iter it
            invariant
                iter_covers(self.authorisations@, it.seq()),
                !(exists|k: Vec<u8>, i: int| #[trigger] self.admins@.contains_key(k) && 0 <= i < self.admins@[k]@.len() && (#[trigger] self.admins@[k]@[i]).verifying_key@ =~= user@),
                forall|id: Uid| self.authorisations@.contains_key(id)
                    && (self.authorisations@[id].users@.contains_key(*user) || self.authorisations@[id].user_admins@.contains_key(*user))
                    ==> exists|i: int| it.index@ <= i < it.seq().len() && *(#[trigger] it.seq()[i]).0 == id,
//@ spec
        ensures
            // [has_user_eq_ever_listed]{C08} true exactly when the key was EVER listed in the room, enabled or not (this is not membership)
            r == spec_ever_listed(*self, *user),
//@ end
} // verus!
fn main() {}
