//@ unit u13b_data_event props C18 also C13
// Unit U13b: from a finished recomputation of the daily logs to the data-changed event (src/database/graph_database.rs:
// the DbMessage::ComputeDailyLog / DbMessage::DailyLogComputed arms of the service loop of GraphDatabaseService::start, rule E9, and
// the recomputation requested at every start, rule E9 range form).  Unit u5b_recompute decides that every recomputed day is
// handed to the log update; unit u13_events that DataModification::add keeps every day it is given.  Here: every (room, entity,
// day) of the finished update whose entity the data model knows is named by the ONE event that is sent - whatever the iteration
// order of the maps -, a recomputation request is forwarded to the writer, and a start asks for one.
#![feature(allocator_api)]
#![allow(unused_imports, unused_variables, dead_code, unused_mut, non_snake_case)]
use vstd::prelude::*;
use vstd::std_specs::iter::IteratorSpec;
use vstd::std_specs::hash::*;
use std::alloc::Allocator;
use std::collections::{HashMap, HashSet, VecDeque};
verus! {
broadcast use {vstd::std_specs::hash::group_hash_axioms, trusted_byvalue_iter::group_byvalue_iter};
pub type Uid = [u8; 16];
pub struct Error { x: u8 }
pub type Result<T> = std::result::Result<T, Error>;
pub struct SendErr { x: u8 }
impl From<SendErr> for Error { #[verifier::external_body] fn from(e: SendErr) -> Error { unimplemented!() } }

//@ include common/byvalue_iter.rs

//@ extract src/database/daily_log.rs :: struct DailyLog
//@ end
//@ extract src/database/daily_log.rs :: struct DailyLogsUpdate
//@ end
impl DailyLogsUpdate {
    #[verifier::external_body]
    pub fn default() -> (r: DailyLogsUpdate) { unimplemented!() }     // #[derive(Default)]
}
//@ extract src/database/mod.rs :: struct DataModification
//@ end
pub uninterp spec fn spec_b64(room: Uid) -> String;
/// the event names the day `date` of `entity` in the room whose encoded id is `room` (same definition as in unit u13_events)
pub open spec fn names(dm: DataModification, room: String, entity: String, date: i64) -> bool {
    dm.rooms@.contains_key(room) && dm.rooms@[room]@.contains_key(entity) && dm.rooms@[room]@[entity]@.contains(date)
}
//@ use-contract u13_events.rs :: DataModification::add

/// the data model: which entity name a stored short name stands for (DataModel::name_for: a map lookup, not under contract here)
pub struct DataModel { x: u8 }
pub uninterp spec fn spec_name_for(m: DataModel, short: Seq<char>) -> Option<String>;
impl DataModel {
    #[verifier::external_body]
    pub fn name_for(&self, short_name: &String) -> (r: Option<String>) ensures r == spec_name_for(*self, short_name@) { unimplemented!() }
}
pub enum EventServiceMessage { DataChanged(DataModification), Other() }
/// the message was handed to the event service / the writer: facts only these contracts establish
pub uninterp spec fn event_sent(m: EventServiceMessage) -> bool;
pub uninterp spec fn compute_requested() -> bool;
pub mod mpsc {
    use vstd::prelude::*;
    pub struct Sender<T> { x: Option<T> }
    impl<T> Sender<T> {
        #[verifier::external_body]
        pub fn clone(&self) -> (r: Sender<T>) { unimplemented!() }
    }
}
pub struct EventSender { x: u8 }
impl EventSender {
    #[verifier::external_body]
    pub async fn send(&self, m: EventServiceMessage) -> (r: std::result::Result<(), SendErr>) ensures event_sent(m) { unimplemented!() }
}
pub struct EventService { pub sender: EventSender }
pub struct DbMessage { x: u8 }
pub enum WriteMessage { ComputeDailyLog(DailyLogsUpdate, mpsc::Sender<DbMessage>), Other() }
pub struct BufferedDatabaseWriter { x: u8 }
impl BufferedDatabaseWriter {
    /// the writer's queue (BufferedDatabaseWriter::send): a recomputation request was handed to it
    #[verifier::external_body]
    pub async fn send(&self, m: WriteMessage) -> (r: Result<()>)
        ensures m is ComputeDailyLog ==> compute_requested()
    { unimplemented!() }
}
pub struct Database { pub writer: BufferedDatabaseWriter }
pub struct GraphDatabaseService { x: u8 }
pub struct GraphDatabase { pub data_model: DataModel, pub event_service: EventService, pub graph_database: Database }

/// the event names every day of the finished update whose entity the model knows
pub open spec fn event_covers(dm: DataModification, rd: Map<Uid, HashSet<DailyLog>>, model: DataModel) -> bool {
    forall|room: Uid, log: DailyLog| #![trigger rd[room]@.contains(log)] rd.contains_key(room) && rd[room]@.contains(log) && spec_name_for(model, log.entity@) is Some
        ==> names(dm, spec_b64(room), spec_name_for(model, log.entity@)->Some_0, log.date)
}
pub open spec fn logs_named(dm: DataModification, room: Uid, logs: Seq<DailyLog>, n: int, model: DataModel) -> bool {
    forall|j: int| 0 <= j < n && spec_name_for(model, (#[trigger] logs[j]).entity@) is Some ==> names(dm, spec_b64(room), spec_name_for(model, logs[j].entity@)->Some_0, logs[j].date)
}
pub open spec fn set_named(dm: DataModification, room: Uid, logs: Set<DailyLog>, model: DataModel) -> bool {
    forall|log: DailyLog| #[trigger] logs.contains(log) && spec_name_for(model, log.entity@) is Some ==> names(dm, spec_b64(room), spec_name_for(model, log.entity@)->Some_0, log.date)
}

//@ extract src/database/graph_database.rs :: impl GraphDatabaseService / fn start as GraphDatabaseService::lifted_daily_log_computed
//@ lift "Ok(update) => {" :: async fn lifted_daily_log_computed(update: DailyLogsUpdate, db: &GraphDatabase)
//@ attr #[verifier::loop_isolation(false)]
//@ rewrite E28 "for room_entry in update\.room_dates \{" => "for room_entry in itm: map_into_iter(update.room_dates) invariant map_entries_once(rd0, itm.seq()), forall|i: int| 0 <= i < itm.index@ ==> set_named(data_mod, (#[trigger] itm.seq()[i]).0, itm.seq()[i].1@, db.data_model), {" x1
//@ rewrite E28 "for log in room_entry\.1 \{" => "for log in its: set_into_iter(room_entry.1) invariant set_elements_once(room_entry.1@, its.seq()), logs_named(data_mod, room, its.seq(), its.index@ as int, db.data_model), forall|i: int| 0 <= i < itm.index@ ==> set_named(data_mod, (#[trigger] itm.seq()[i]).0, itm.seq()[i].1@, db.data_model), {" x1
//@ insert body-start
        let ghost rd0 = update.room_dates@;
//@ insert before-stmt "let _ = db"
        assert(event_covers(data_mod, rd0, db.data_model));
//@ spec
        ensures
            // [data_changed_event_names_every_recomputed_day]{C18} one event is sent and it names every (room, entity, day) of the finished recomputation whose entity the data model knows - whatever the iteration order of the maps, nothing skipped
            exists|dm: DataModification| #[trigger] event_sent(EventServiceMessage::DataChanged(dm)) && event_covers(dm, update.room_dates@, db.data_model),
//@ end

//@ extract src/database/graph_database.rs :: impl GraphDatabaseService / fn start as GraphDatabaseService::lifted_compute_daily_log
//@ lift "DbMessage::ComputeDailyLog() => {" :: async fn lifted_compute_daily_log(db: &GraphDatabase, sender: mpsc::Sender<DbMessage>)
//@ rewrite E29 "(?m)^(\s*)_ = db" => "\1let _ = db" x1
//@ spec
        ensures
            // [recompute_request_forwarded_to_the_writer]{C18} a recomputation request received by the service loop is handed to the writer's queue
            compute_requested(),
//@ end

//@ extract src/database/graph_database.rs :: impl GraphDatabaseService / fn start as GraphDatabaseService::lifted_startup_recompute
//@ lift-range after "tokio::spawn(async move {" .. "Ok((" :: async fn lifted_startup_recompute(database: &Database, peer_sender: mpsc::Sender<DbMessage>) -> (r: Result<()>) tail "Ok(())"
//@ spec
        ensures
            // [recompute_requested_at_every_start]{C13,C18} a start that succeeds has asked the writer for a recomputation of the daily logs: days left marked by a process that died before recomputing (or during a synchronisation) are recomputed - and announced - after the restart
            r is Ok ==> compute_requested(),
//@ end
} // verus!
fn main() {}
