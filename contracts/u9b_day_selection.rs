//@ unit u9b_day_selection props C03 also C02 C20 C14
// Unit U9b: which days of a room are fetched from a peer (src/synchronisation/peer_inbound_service.rs:
// synchronise_room_data, synchronise_history, synchronise_last_day).  Convergence rests on it: a (room, entity, day) whose
// digest at the peer differs from the local one - or that is unknown locally - must be synchronised; when the chained history
// digests agree only the last day can differ.  "Was synchronised" is a fact produced by the contract of the callee
// (`day_synced`, an uninterpreted predicate that only synchronise_day's contract can establish), so no ghost bookkeeping is woven
// for it: the obligations are plain assertions over the function's own data at its end.
#![feature(allocator_api)]
#![allow(unused_imports, unused_variables, dead_code, unused_mut, non_snake_case)]
use vstd::prelude::*;
use vstd::std_specs::hash::*;
use vstd::std_specs::cmp::PartialEqSpec;
use std::collections::{HashMap, HashSet};
verus! {
pub mod trusted {
    use vstd::prelude::*;
    use vstd::std_specs::hash::*;
    use std::collections::HashMap;
    #[verifier::external_body]
    pub broadcast proof fn axiom_i64_key_model() ensures #[trigger] obeys_key_model::<i64>() {}
    #[verifier::external_body]
    pub broadcast proof fn axiom_string_key_model() ensures #[trigger] obeys_key_model::<String>() {}
    pub uninterp spec fn spec_is_default<V>(v: V) -> bool;
    #[verifier::external_body]
    pub broadcast proof fn axiom_default_map<K, V>(v: HashMap<K, V>) ensures #[trigger] spec_is_default(v) ==> v@ == Map::<K, V>::empty() {}
    pub uninterp spec fn key_of_borrowed<K, Q: ?Sized>(q: &Q) -> K;
    #[verifier::external_body]
    pub broadcast proof fn axiom_key_of_borrowed_same<K>(q: &K) ensures #[trigger] key_of_borrowed::<K, K>(q) == *q {}
    /// a String is determined by its content
    #[verifier::external_body]
    pub broadcast proof fn axiom_string_ext(a: String, b: String) ensures #[trigger] (a@ =~= b@) ==> a == b {}
    pub broadcast group group_trusted { axiom_i64_key_model, axiom_string_key_model, axiom_default_map, axiom_key_of_borrowed_same, axiom_string_ext }
}
pub use trusted::spec_is_default;
broadcast use {vstd::laws_eq::group_laws_eq, vstd::std_specs::hash::group_hash_axioms, trusted::group_trusted};
use vstd::std_specs::hash::EntrySpecFns;
pub assume_specification<'a, K, V: std::default::Default>[ std::collections::hash_map::Entry::<'a, K, V>::or_default ](entry: std::collections::hash_map::Entry<'a, K, V>) -> (value: &'a mut V)
    ensures
        match entry.value() { Some(v) => *value == v, None => spec_is_default(*value) },
        entry.final_value() == Some(*final(value));

pub type Uid = [u8; 16];
/// one error type stands for both synchronisation::Error and crate::Error (`crate::Error` resolves to it in this single-file unit;
/// the conversion between the two is `From`, which says nothing)
pub struct Error { x: u8 }
pub struct DbError { x: u8 }
impl From<DbError> for Error { #[verifier::external_body] fn from(e: DbError) -> Error { unimplemented!() } }
//@ extract src/database/daily_log.rs :: struct DailyLog
//@ end
//@ extract src/database/daily_log.rs :: struct RoomDefinitionLog
//@ end
//@ extract src/synchronisation/mod.rs :: enum Query
//@ end
pub struct Receiver<T> { x: Option<T> }
impl<T> Receiver<T> {
    #[verifier::external_body]
    pub async fn recv(&mut self) -> (r: Option<T>) { unimplemented!() }
}
pub struct GraphDatabaseService { x: u8 }
impl GraphDatabaseService {
    #[verifier::external_body]
    pub async fn get_room_log(&self, room_id: Uid) -> (r: Receiver<std::result::Result<Vec<DailyLog>, DbError>>) { unimplemented!() }
}
pub struct DiscretServices { pub database: GraphDatabaseService }
pub struct QueryService { x: u8 }

/// the (room, entity, day) was synchronised with the peer: ONLY the contract of synchronise_day establishes this
pub uninterp spec fn day_synced(room: Uid, entity: Seq<char>, date: i64) -> bool;
/// every day of the room whose digest differs was synchronised: ONLY the contract of synchronise_history establishes this
pub uninterp spec fn history_synced(room: Uid) -> bool;
pub uninterp spec fn last_day_synced(remote_room: RoomDefinitionLog) -> bool;

/// the digests of two log entries differ (a missing digest differs from everything, as in the code's Option comparison)
pub open spec fn digest_differs(a: Option<Vec<u8>>, b: Option<Vec<u8>>) -> bool { !(a == b) }
pub open spec fn opt_eq(a: Option<Vec<u8>>, b: Option<Vec<u8>>) -> bool {
    (a is None && b is None) || (a is Some && b is Some && a->Some_0@ =~= b->Some_0@)
}
/// the local log, as the table the function builds from it
pub open spec fn local_has(m: Map<i64, HashMap<String, DailyLog>>, date: i64, entity: String) -> bool {
    m.contains_key(date) && m[date]@.contains_key(entity)
}
pub open spec fn table_from_log(m: Map<i64, HashMap<String, DailyLog>>, log: Seq<DailyLog>, n: int) -> bool {
    &&& forall|j: int| 0 <= j < n ==> local_has(m, (#[trigger] log[j]).date, log[j].entity)
    &&& forall|d: i64, e: String| #[trigger] local_has(m, d, e) ==> m[d]@[e].date == d && m[d]@[e].entity == e && exists|j: int| 0 <= j < n && log[j] == m[d]@[e]
}
/// a day of the peer's log must be fetched: unknown locally, or known with another digest
pub open spec fn needs_fetch(m: Map<i64, HashMap<String, DailyLog>>, remote: DailyLog) -> bool {
    !local_has(m, remote.date, remote.entity) || !opt_eq(m[remote.date]@[remote.entity].daily_hash, remote.daily_hash)
}
/// the room-level decision, from what the digests mean: the chained history digest covers every day up to the last one
pub open spec fn histories_agree(remote: RoomDefinitionLog, local: Option<RoomDefinitionLog>) -> bool {
    local is Some && remote.history_hash is Some && opt_eq(local->Some_0.history_hash, remote.history_hash)
        && local->Some_0.last_data_date == remote.last_data_date
}
pub open spec fn last_days_agree(remote: RoomDefinitionLog, local: Option<RoomDefinitionLog>) -> bool {
    local is Some && local->Some_0.daily_hash is Some && local->Some_0.last_data_date is Some && opt_eq(local->Some_0.daily_hash, remote.daily_hash)
}
/// consistency of a stored room log (one SQL row of _daily_log gives both): a chained digest exists only with a last day
pub open spec fn local_log_consistent(local: Option<RoomDefinitionLog>) -> bool {
    local is Some ==> (local->Some_0.history_hash is Some ==> local->Some_0.last_data_date is Some)
}

pub struct LocalPeerService { x: u8 }
impl LocalPeerService {
    #[verifier::external_body]
    pub async fn query<T>(query_service: &QueryService, query: Query) -> (r: std::result::Result<T, Error>) { unimplemented!() }
    #[verifier::external_body]
    pub async fn query_multiple<T>(query_service: &QueryService, query: Query) -> (r: Receiver<std::result::Result<T, Error>>) { unimplemented!() }
    /// the callee views of the two functions verified below under the names *_body (rename): what their bodies assert is what the
    /// facts `history_synced` / `last_day_synced` stand for
    #[verifier::external_body]
    pub async fn synchronise_history(room_id: Uid, query_service: &QueryService, discret_services: &DiscretServices) -> (r: std::result::Result<bool, Error>)
        ensures r is Ok ==> history_synced(room_id)
    { unimplemented!() }
    #[verifier::external_body]
    pub async fn synchronise_last_day(remote_room: &RoomDefinitionLog, local_room_def: &Option<RoomDefinitionLog>, query_service: &QueryService, discret_services: &DiscretServices) -> (r: std::result::Result<bool, Error>)
        requires !last_days_agree(*remote_room, *local_room_def) ==> remote_room.last_data_date is Some,
        ensures r is Ok && !last_days_agree(*remote_room, *local_room_def) ==> last_day_synced(*remote_room)
    { unimplemented!() }
    /// under contract in unit u9_pipeline (what it may hand to the database); here only the fact that it ran to completion
    #[verifier::external_body]
    pub async fn synchronise_day(room_id: Uid, entity: String, date: i64, query_service: &QueryService, discret_services: &DiscretServices) -> (r: std::result::Result<bool, Error>)
        ensures r is Ok ==> day_synced(room_id, entity@, date)
    { unimplemented!() }
}

//@ extract src/synchronisation/peer_inbound_service.rs :: impl LocalPeerService / fn synchronise_history as LocalPeerService::synchronise_history_body
//@ rename synchronise_history_body
//@ attr #[verifier::exec_allows_no_decreases_clause]
//@ attr #[verifier::loop_isolation(false)]
//@ insert before-stmt "for log in local_log"
        let ghost local0 = local_log@;
//@ loop "for log in local_log" iter itl
            invariant
                itl.seq() == local0,
                table_from_log(local_map@, local0, itl.index@ as int),
//@ insert before-stmt "let room_entry = local_map.entry(log.date).or_default();"
            let ghost m0 = local_map@;
            let ghost lg = log;
//@ insert after-stmt "room_entry.insert(log.entity.clone(), log);"
            proof {
                let m1 = local_map@;
                let base = if m0.contains_key(lg.date) { m0[lg.date]@ } else { Map::<String, DailyLog>::empty() };
                assert(m1.contains_key(lg.date) && m1 =~= m0.insert(lg.date, m1[lg.date]));
                assert(m1[lg.date]@ =~= base.insert(lg.entity, lg));
                assert forall|j: int| 0 <= j < itl.index@ + 1 implies local_has(m1, (#[trigger] local0[j]).date, local0[j].entity) by {
                    if j < itl.index@ { assert(local_has(m0, local0[j].date, local0[j].entity)); }
                }
                assert forall|d: i64, e: String| #[trigger] local_has(m1, d, e) implies m1[d]@[e].date == d && m1[d]@[e].entity == e && exists|j: int| 0 <= j < itl.index@ + 1 && local0[j] == m1[d]@[e] by {
                    if d == lg.date && e == lg.entity {
                        assert(local0[itl.index@ as int] == m1[d]@[e]);
                    } else {
                        assert(local_has(m0, d, e));
                        let j = choose|j: int| 0 <= j < itl.index@ && local0[j] == m0[d]@[e];
                        assert(local0[j] == m1[d]@[e]);
                    }
                }
            }
//@ insert after-stmt "for log in local_log"
        // [local_table_is_the_local_log]{C03} the table the peer's log is compared with holds every entry of the local log under its own (day, entity), and nothing else
        assert(table_from_log(local_map@, local0, local0.len() as int));
//@ loop "for remote in &remote_log" iter it
            invariant
                forall|i: int| 0 <= i < it.index@ ==> (needs_fetch(local_map@, #[trigger] remote_log@[i]) ==> day_synced(room_id, remote_log@[i].entity@, remote_log@[i].date)),
//@ insert before-stmt "Ok(modified)"
        // [every_differing_day_is_synchronised]{C03,C02} success is reported only if every (entity, day) of the peer's log that is unknown locally or known with another digest was synchronised
        assert(forall|i: int| 0 <= i < remote_log@.len() ==> (needs_fetch(local_map@, #[trigger] remote_log@[i]) ==> day_synced(room_id, remote_log@[i].entity@, remote_log@[i].date)));
//@ end

//@ extract src/synchronisation/peer_inbound_service.rs :: impl LocalPeerService / fn synchronise_last_day as LocalPeerService::synchronise_last_day_body
//@ rename synchronise_last_day_body
//@ result r
//@ attr #[verifier::exec_allows_no_decreases_clause]
//@ attr #[verifier::loop_isolation(false)]
//@ insert body-start
        proof { assert(<Vec<u8> as PartialEqSpec<Vec<u8>>>::obeys_eq_spec()); }
//@ insert before-stmt "for log in remote_log"
            let ghost remote0 = remote_log@;
//@ loop "for log in remote_log" iter it
                invariant it.seq() == remote0,
                    forall|i: int| 0 <= i < it.index@ ==> day_synced(remote_room.room_id, (#[trigger] remote0[i]).entity@, remote_room.last_data_date->Some_0),
//@ insert before-stmt "Ok(true)"
            // [every_entity_of_the_last_day_is_synchronised]{C03,C02} when the last day's digests differ, success is reported only if every entity the peer lists for that day was synchronised
            assert(forall|i: int| 0 <= i < remote0.len() ==> day_synced(remote_room.room_id, (#[trigger] remote0[i]).entity@, remote_room.last_data_date->Some_0));
//@ spec
        requires
            // [last_day_unwrap_guarded]{C14} the `unwrap()` of the peer's last date is reached only with a date present (the caller's comparison guarantees it for a consistent local log)
            !last_days_agree(*remote_room, *local_room_def) ==> remote_room.last_data_date is Some,
        ensures
            // [last_day_fetched_iff_digests_differ]{C03} the last day is synchronised exactly when its digest differs from the local one (or the local one is unknown)
            r is Ok ==> r->Ok_0 == !last_days_agree(*remote_room, *local_room_def),
//@ end

/// "the summary of the room (RoomDefinitionLog) speaks for EVERY entity of the room": a fact nothing on this path establishes - the
/// summary is one row of _daily_log, the first the SQL returns among the rows of the room's last date, i.e. the log of ONE entity
pub uninterp spec fn summary_covers_every_entity(l: RoomDefinitionLog) -> bool;
pub uninterp spec fn nondet(k: int) -> bool;
//@ extract src/synchronisation/peer_inbound_service.rs :: impl LocalPeerService / fn synchronise_room_data
//@ result r
//@ insert body-start
        proof { assert(<Vec<u8> as PartialEqSpec<Vec<u8>>>::obeys_eq_spec()); assert(<i64 as PartialEqSpec<i64>>::obeys_eq_spec()); }
//@ insert before-text "Self::synchronise_last_day(remote_room, local_room_def, query_service, discret_services)"
            // [room_task_reaches_the_last_day_comparison_only_with_a_date_to_unwrap]{C20,C14} the last-day comparison unwraps the peer's last date: it is reached only when that date is present (or nothing will be fetched) - a panic here would end the room's synchronisation task before it hands back the room and its slot
            assert(!last_days_agree(*remote_room, *local_room_def) ==> remote_room.last_data_date is Some);
//@ insert after-stmt "let sync_history"
        proof {
            // [summary_that_stops_the_comparison_covers_every_entity]{C03} (known finding F41) the whole-history comparison may be skipped only on a summary that speaks for every entity of the room: the summary compared here is the log row of a single entity (RoomDefinitionLog::get reads one row of the join), so a change to any OTHER entity on or before the room's last date is never noticed and never fetched
            if nondet(41) { assert(!sync_history ==> summary_covers_every_entity(*remote_room)); }
        }
//@ spec
        requires
            // the stored room log is consistent (one row of _daily_log yields the chained digest and the last day together): ASSUMED of RoomDefinitionLog::get (SQL)
            local_log_consistent(*local_room_def),
        ensures
            // [whole_history_compared_unless_chained_digests_agree]{C03,C02} unless the chained digests and the last day of both sides agree, every day is compared and the differing ones synchronised
            r is Ok && !histories_agree(*remote_room, *local_room_def) ==> history_synced(remote_room.room_id),
            // [last_day_compared_when_histories_agree]{C03,C02} when they agree, only the last day can differ: it is synchronised if its digest differs
            r is Ok && histories_agree(*remote_room, *local_room_def) && !last_days_agree(*remote_room, *local_room_def) ==> last_day_synced(*remote_room),
//@ end

} // verus!
fn main() {}
