//@ unit u7c_row_filter props C08
// Unit U7c: the per-row room filter behind Query::Nodes (src/database/node.rs Node::filtered_by_room).
// The allowed-room guard of u7_serving only covers the room id of the request; what ties the row ids named by the peer to
// that room is this loop: a row is put in an answer only if it is stored in the requested room.
#![allow(unused_imports, unused_variables, dead_code, unused_mut, non_snake_case)]
use vstd::prelude::*;
use std::collections::{HashMap, HashSet, VecDeque};   // the std collections a change to the extracted code may reach for
use vstd::std_specs::cmp::PartialEqSpec;
verus! {
broadcast use vstd::laws_eq::group_laws_eq;
pub type Uid = [u8; 16];
pub const VEC_OVERHEAD: u64 = 4;
pub struct Error { x: u8 }
pub type Result<T> = std::result::Result<T, Error>;
pub mod rusqlite {
    use vstd::prelude::*;
    pub struct Error { x: u8 }
    pub struct Statement { x: u8 }
    pub struct Rows { x: u8 }
    pub struct Row { x: u8 }
    pub struct Params { x: u8 }
    impl Statement {
        #[verifier::external_body]
        pub fn query(&mut self, p: Params) -> (r: std::result::Result<Rows, Error>) { unimplemented!() }
    }
    impl Rows {
        #[verifier::external_body]
        pub fn next(&mut self) -> (r: std::result::Result<Option<Row>, Error>) { unimplemented!() }
    }
    impl Row {
        // SQLite returns whatever is stored: nothing is assumed about a column value
        #[verifier::external_body]
        pub fn get<T>(&self, idx: usize) -> (r: std::result::Result<T, Error>) { unimplemented!() }
    }
}
impl From<rusqlite::Error> for Error {
    #[verifier::external_body]
    fn from(e: rusqlite::Error) -> Error { unimplemented!() }
}
impl From<Box<bincode::ErrorKind>> for Error {
    #[verifier::external_body]
    fn from(e: Box<bincode::ErrorKind>) -> Error { unimplemented!() }
}
pub struct Connection { x: u8 }
impl Connection {
    #[verifier::external_body]
    pub fn prepare(&self, sql: &String) -> (r: std::result::Result<rusqlite::Statement, rusqlite::Error>) { unimplemented!() }
}
pub mod bincode {
    use vstd::prelude::*;
    pub struct ErrorKind { x: u8 }
    #[verifier::external_body]
    pub fn serialized_size(n: &super::Node) -> (r: Result<u64, Box<ErrorKind>>)
        ensures r is Ok ==> r->Ok_0 <= 0xFFFF_FFFF_FFFF      // machine arithmetic: a row in memory is far smaller than 2^48 bytes
    { unimplemented!() }
}
pub mod mpsc {
    pub struct Sender<T> { x: Option<T> }
    pub struct SendError { x: u8 }
    impl<T> Sender<T> {
        #[verifier::external_body]
        pub fn blocking_send(&self, t: T) -> (r: Result<(), SendError>) { unimplemented!() }
    }
}
// E8 cut: building the `?,?,...` placeholder list and the SELECT text (Peekable iterator, format!): string code, not modelled
#[verifier::external_body]
pub fn cut_build_select(node_ids: &Vec<Uid>) -> (r: String) { unimplemented!() }
#[verifier::external_body]
pub fn params_from_iter(ids: &Vec<Uid>) -> (r: rusqlite::Params) { unimplemented!() }

//@ extract src/database/node.rs :: struct Node
//@ end

pub open spec fn in_room(n: Node, room: Uid) -> bool { n.room_id is Some && n.room_id->Some_0@ =~= room@ }
pub open spec fn all_in_room(s: Seq<Node>, room: Uid) -> bool { forall|i: int| 0 <= i < s.len() ==> in_room(#[trigger] s[i], room) }

//@ extract src/database/node.rs :: impl Node / fn filtered_by_room
//@ attr #[verifier::exec_allows_no_decreases_clause]
//@ attr #[verifier::loop_isolation(false)]
//@ rewrite E8 "(?s)let it = &mut node_ids\.iter\(\)\.peekable\(\);.*?let query = format!\(.*?q\s*\);" => "let query = cut_build_select(&node_ids);" x1
//@ rewrite E3 "params_from_iter\(node_ids\.iter\(\)\)" => "params_from_iter(&node_ids)" x1
//@ rewrite E3 "while let Some\(row\) = rows\.next\(\)\?" => "while let Some(row) = rows.next()?" x1
//@ insert body-start
        proof { assert(<[u8; 16] as PartialEqSpec<[u8; 16]>>::obeys_eq_spec()); }
//@ insert before-stmt "res.push(node)"
            // [row_served_only_from_requested_room] a row is put in an answer only if it is stored in the room named by the request
            assert(in_room(node, *room_id));
//@ insert before-stmt "let s = sender.blocking_send(Ok(ready))"
                // [full_batch_contains_only_rows_of_the_room] every batch handed to the peer contains rows of the requested room only
                assert(all_in_room(ready@, *room_id));
//@ insert before-stmt "let _ = sender.blocking_send(Ok(res))"
            // [last_batch_contains_only_rows_of_the_room]
            assert(all_in_room(res@, *room_id));
//@ loop "while let Some(row) = rows.next()?"
            invariant all_in_room(res@, *room_id), len <= batch_size as u64,
//@ spec
        requires batch_size <= 0xFFFF_FFFF,     // machine arithmetic: the configured answer size (bytes) fits 32 bits
//@ end
} // verus!
fn main() {}
