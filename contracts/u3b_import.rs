//@ unit u3b_import props C07
// Unit U3b: acceptance of a room definition received from a peer (src/database/room_node.rs): shape consistency and
// entitlement of every entry of a room / group that is NEW to the receiver.  The merge with an existing definition
// (prepare_room_with_history / prepare_auth_with_history: 12 loops over iter_mut().find / sort_by / push) is not under
// contract yet.
#![feature(allocator_api)]
#![allow(unused_imports, unused_variables, dead_code, unused_mut, non_snake_case)]
use vstd::prelude::*;
use vstd::std_specs::iter::IteratorSpec;
use vstd::std_specs::hash::*;
use vstd::std_specs::cmp::PartialEqSpec;
use std::alloc::Allocator;
use std::collections::{HashMap, HashSet};
verus! {
broadcast use {vstd::laws_eq::group_laws_eq, vstd::std_specs::hash::group_hash_axioms, trusted_keys::group_trusted_keys};
pub type Uid = [u8; 16];
pub enum Error { AuthorisationExists(), InvalidUserDate(), InvalidRightDate(), InvalidNode(String) }
pub type Result<T> = std::result::Result<T, Error>;
#[verifier::external_body]
pub fn fmt_stub() -> (r: String) { unimplemented!() }

//@ extract src/database/room.rs :: const WILDCARD_ENTITY
//@ end
//@ extract src/database/room.rs :: struct Room
//@ end
//@ extract src/database/room.rs :: struct Authorisation
//@ end
//@ extract src/database/room.rs :: struct User
//@ end
//@ extract src/database/room.rs :: struct EntityRight
//@ end
//@ extract src/database/room.rs :: enum RightType
//@ end
//@ extract src/database/node.rs :: struct Node
//@ end
//@ extract src/database/edge.rs :: struct Edge
//@ end
//@ extract src/database/room_node.rs :: struct UserNode
//@ end
//@ extract src/database/room_node.rs :: struct EntityRightNode
//@ end
//@ extract src/database/room_node.rs :: struct AuthorisationNode
//@ end
//@ extract src/database/room_node.rs :: struct RoomNode
//@ end
//@ include common/room_spec.rs
//@ use-contract u1_room.rs :: Room::is_admin
//@ use-contract u1_room.rs :: Authorisation::can_admin_users

/// the room / group a definition denotes (RoomNode::parse / AuthorisationNode::parse fold the add_* mutators of unit u1 over
/// the entry lists; JSON decoding of the entries is under contract in unit u3_loaders)
pub uninterp spec fn spec_parse_room(n: RoomNode) -> Room;
pub uninterp spec fn spec_parse_auth(n: AuthorisationNode) -> Authorisation;
impl RoomNode {
    #[verifier::external_body]
    pub fn parse(&self) -> (r: Result<Room>) ensures r is Ok ==> r->Ok_0 == spec_parse_room(*self) { unimplemented!() }
}
impl AuthorisationNode {
    #[verifier::external_body]
    pub fn parse(&self) -> (r: Result<Authorisation>) ensures r is Ok ==> r->Ok_0 == spec_parse_auth(*self) { unimplemented!() }
}

// ---------------------------------------------------------------- shape consistency
pub open spec fn dest_in_users(e: Edge, nodes: Seq<UserNode>) -> bool { exists|j: int| 0 <= j < nodes.len() && (#[trigger] nodes[j]).node.id@ =~= e.dest@ }
pub open spec fn dest_in_rights(e: Edge, nodes: Seq<EntityRightNode>) -> bool { exists|j: int| 0 <= j < nodes.len() && (#[trigger] nodes[j]).node.id@ =~= e.dest@ }
pub open spec fn edges_point_into_users(edges: Seq<Edge>, src: Uid, nodes: Seq<UserNode>) -> bool {
    edges.len() == nodes.len() && forall|i: int| 0 <= i < edges.len() ==> (#[trigger] edges[i]).src@ =~= src@ && dest_in_users(edges[i], nodes)
}
pub open spec fn edges_point_into_rights(edges: Seq<Edge>, src: Uid, nodes: Seq<EntityRightNode>) -> bool {
    edges.len() == nodes.len() && forall|i: int| 0 <= i < edges.len() ==> (#[trigger] edges[i]).src@ =~= src@ && dest_in_rights(edges[i], nodes)
}
pub open spec fn auth_consistent(a: AuthorisationNode) -> bool {
    edges_point_into_rights(a.right_edges@, a.node.id, a.right_nodes@)
    && edges_point_into_users(a.user_edges@, a.node.id, a.user_nodes@)
    && edges_point_into_users(a.user_admin_edges@, a.node.id, a.user_admin_nodes@)
}

//@ extract src/database/room_node.rs :: impl AuthorisationNode / fn check_consistency
//@ result r
//@ attr #[verifier::loop_isolation(false)]
//@ rewrite E16 "\"[A-Za-z ]+\"\.to_string\(\)" => "fmt_stub()" x*
//@ insert body-start
        proof { assert(<[u8; 16] as PartialEqSpec<[u8; 16]>>::obeys_eq_spec()); }
//@ closure "|right|" #1 ret bool
        ensures b == (right.node.id@ =~= right_edge.dest@)
//@ closure "|user|" ret bool
        ensures b == (user.node.id@ =~= user_edge.dest@)
//@ closure "|right|" #2 ret bool
        ensures b == (right.node.id@ =~= user_admin_edge.dest@)
//@ insert before-stmt "if self.user_edges.len() != self.user_nodes.len()"
        assert(edges_point_into_rights(self.right_edges@, self.node.id, self.right_nodes@));
//@ insert before-stmt "if self.user_admin_edges.len() != self.user_admin_nodes.len()"
        assert(edges_point_into_users(self.user_edges@, self.node.id, self.user_nodes@));
//@ insert before-text "Ok(())"
        assert(edges_point_into_users(self.user_admin_edges@, self.node.id, self.user_admin_nodes@));
        assert(auth_consistent(*self));
//@ loop "for right_edge in &self.right_edges" iter it
            invariant forall|i: int| 0 <= i < it.index@ ==> (#[trigger] self.right_edges@[i]).src@ =~= self.node.id@ && dest_in_rights(self.right_edges@[i], self.right_nodes@),
//@ loop "for user_edge in &self.user_edges" iter it
            invariant forall|i: int| 0 <= i < it.index@ ==> (#[trigger] self.user_edges@[i]).src@ =~= self.node.id@ && dest_in_users(self.user_edges@[i], self.user_nodes@),
//@ loop "for user_admin_edge in &self.user_admin_edges" iter it
            invariant forall|i: int| 0 <= i < it.index@ ==> (#[trigger] self.user_admin_edges@[i]).src@ =~= self.node.id@ && dest_in_users(self.user_admin_edges@[i], self.user_admin_nodes@),
//@ spec
        ensures
            // [group_shape_consistent] accepted only if every list has as many references as entries, every reference starts at the group and ends at an entry of the matching list
            r is Ok ==> auth_consistent(*self),
//@ end


pub open spec fn dest_in_auths(e: Edge, nodes: Seq<AuthorisationNode>) -> bool { exists|j: int| 0 <= j < nodes.len() && (#[trigger] nodes[j]).node.id@ =~= e.dest@ && auth_consistent(nodes[j]) }
pub open spec fn room_consistent(n: RoomNode) -> bool {
    edges_point_into_users(n.admin_edges@, n.node.id, n.admin_nodes@)
    && n.auth_edges@.len() == n.auth_nodes@.len()
    && forall|i: int| 0 <= i < n.auth_edges@.len() ==> (#[trigger] n.auth_edges@[i]).src@ =~= n.node.id@ && dest_in_auths(n.auth_edges@[i], n.auth_nodes@)
}
//@ extract src/database/room_node.rs :: impl RoomNode / fn check_consistency
//@ result r
//@ attr #[verifier::loop_isolation(false)]
//@ rewrite E16 "\"[A-Za-z ]+\"\.to_string\(\)" => "fmt_stub()" x*
//@ insert body-start
        proof { assert(<[u8; 16] as PartialEqSpec<[u8; 16]>>::obeys_eq_spec()); }
//@ closure "|user|" ret bool
        ensures b == (user.node.id@ =~= admin_edge.dest@)
//@ closure "|auth|" ret bool
        ensures b == (auth.node.id@ =~= auth_edge.dest@)
//@ loop "for admin_edge in &self.admin_edges" iter it
            invariant forall|i: int| 0 <= i < it.index@ ==> (#[trigger] self.admin_edges@[i]).src@ =~= self.node.id@ && dest_in_users(self.admin_edges@[i], self.admin_nodes@),
//@ insert before-stmt "if self.auth_edges.len() != self.auth_nodes.len()"
        assert(edges_point_into_users(self.admin_edges@, self.node.id, self.admin_nodes@));
//@ loop "for auth_edge in &self.auth_edges" iter it
            invariant forall|i: int| 0 <= i < it.index@ ==> (#[trigger] self.auth_edges@[i]).src@ =~= self.node.id@ && dest_in_auths(self.auth_edges@[i], self.auth_nodes@),
//@ spec
        ensures
            // [room_shape_consistent] accepted only if the admin list and the group list each have as many references as entries, every reference starts at the room row and ends at an entry of the matching list, and every referenced group is itself consistent
            r is Ok ==> room_consistent(*self),
//@ end

// ---------------------------------------------------------------- entitlement of the entries of a room new to the receiver
pub open spec fn users_by_admin(room: Room, s: Seq<UserNode>) -> bool {
    forall|i: int| 0 <= i < s.len() ==> spec_is_admin(room, (#[trigger] s[i]).node.verifying_key, s[i].node.mdate)
}
pub open spec fn rights_by_admin(room: Room, s: Seq<EntityRightNode>) -> bool {
    forall|i: int| 0 <= i < s.len() ==> spec_is_admin(room, (#[trigger] s[i]).node.verifying_key, s[i].node.mdate)
}
pub open spec fn new_group_entitled(room: Room, a: AuthorisationNode) -> bool {
    spec_is_admin(room, a.node.verifying_key, a.node.mdate)
    && users_by_admin(room, a.user_nodes@) && rights_by_admin(room, a.right_nodes@) && users_by_admin(room, a.user_admin_nodes@)
}
pub open spec fn new_room_entitled(n: RoomNode) -> bool {
    users_by_admin(spec_parse_room(n), n.admin_nodes@)
    && forall|i: int| 0 <= i < n.auth_nodes@.len() ==> new_group_entitled(spec_parse_room(n), #[trigger] n.auth_nodes@[i])
}

//@ extract src/database/room_node.rs :: fn prepare_new_room
//@ result r
//@ attr #[verifier::loop_isolation(false)]
//@ rewrite E16 "\"[A-Za-z ]+\"\.to_string\(\)" => "fmt_stub()" x*
//@ loop "for admin in &room_node.admin_nodes" iter it
        invariant forall|i: int| 0 <= i < it.index@ ==> spec_is_admin(room, (#[trigger] room_node.admin_nodes@[i]).node.verifying_key, room_node.admin_nodes@[i].node.mdate),
//@ loop "for auth in &room_node.auth_nodes" iter ita
        invariant forall|i: int| 0 <= i < ita.index@ ==> new_group_entitled(room, #[trigger] room_node.auth_nodes@[i]),
//@ loop "for user in &auth.user_nodes" iter it
                    invariant forall|i: int| 0 <= i < it.index@ ==> spec_is_admin(room, (#[trigger] auth.user_nodes@[i]).node.verifying_key, auth.user_nodes@[i].node.mdate),
//@ loop "for right in &auth.right_nodes" iter it
                    invariant forall|i: int| 0 <= i < it.index@ ==> spec_is_admin(room, (#[trigger] auth.right_nodes@[i]).node.verifying_key, auth.right_nodes@[i].node.mdate),
//@ loop "for user_admin in &auth.user_admin_nodes" iter it
                    invariant forall|i: int| 0 <= i < it.index@ ==> spec_is_admin(room, (#[trigger] auth.user_admin_nodes@[i]).node.verifying_key, auth.user_admin_nodes@[i].node.mdate),
//@ spec
        ensures
            // [new_room_whole_history_entitled] a room not seen before is accepted only if, in the room it denotes, every admin entry, every group, and every user, right and user-admin entry of every group was authored by a key that is an admin at the entry's own date
            r is Ok ==> new_room_entitled(*room_node),
//@ end

//@ extract src/database/room_node.rs :: fn prepare_new_auth
//@ result r
//@ attr #[verifier::loop_isolation(false)]
//@ rewrite E16 "\"[A-Za-z ]+\"\.to_string\(\)" => "fmt_stub()" x*
//@ loop "for new_user in &new_auth.user_nodes" iter it
        invariant forall|i: int| 0 <= i < it.index@ ==> spec_can_admin_users(authorisation, (#[trigger] new_auth.user_nodes@[i]).node.verifying_key, new_auth.user_nodes@[i].node.mdate)
                || spec_is_admin(*room, new_auth.user_nodes@[i].node.verifying_key, new_auth.user_nodes@[i].node.mdate),
//@ loop "for new_right in &new_auth.right_nodes" iter it
        invariant forall|i: int| 0 <= i < it.index@ ==> spec_is_admin(*room, (#[trigger] new_auth.right_nodes@[i]).node.verifying_key, new_auth.right_nodes@[i].node.mdate),
//@ loop "for new_user_admin in &new_auth.user_admin_nodes" iter it
        invariant forall|i: int| 0 <= i < it.index@ ==> spec_is_admin(*room, (#[trigger] new_auth.user_admin_nodes@[i]).node.verifying_key, new_auth.user_admin_nodes@[i].node.mdate),
//@ spec
        ensures
            // [new_group_users_by_user_admins] in a group new to the receiver every user entry was authored, at the entry's date, by a user admin of that group or by an admin of the room (C07: "an admin or a user admin of the group for users"; the same rule as for a group the receiver already holds and as the local mutation path)
            r is Ok ==> forall|i: int| 0 <= i < new_auth.user_nodes@.len() ==> spec_can_admin_users(spec_parse_auth(*new_auth), (#[trigger] new_auth.user_nodes@[i]).node.verifying_key, new_auth.user_nodes@[i].node.mdate)
                || spec_is_admin(*room, new_auth.user_nodes@[i].node.verifying_key, new_auth.user_nodes@[i].node.mdate),
            // [new_group_rights_by_admins] and every right entry by a room admin at the entry's date
            r is Ok ==> rights_by_admin(*room, new_auth.right_nodes@),
            // [new_group_user_admins_by_admins] and every user-admin entry by a room admin at the entry's date
            r is Ok ==> users_by_admin(*room, new_auth.user_admin_nodes@),
//@ end
} // verus!
fn main() {}
