//@ unit u7_serving props C08 also C06
// Unit U7: the serving side of the synchronisation protocol (src/synchronisation/peer_outbound_service.rs).
// Every call that serves room data is preceded by a woven assertion that the requested room is in the set of rooms
// this connection may read; that set is filled only from the authenticated key's memberships.
#![feature(allocator_api)]
#![allow(unused_imports, unused_variables, dead_code, unused_mut, non_snake_case)]
use vstd::prelude::*;
use vstd::std_specs::hash::*;
use vstd::std_specs::cmp::PartialEqSpec;
use std::collections::{HashMap, HashSet};
use std::sync::Arc;
verus! {
pub mod trusted {
    use vstd::prelude::*;
    use vstd::std_specs::hash::*;
    #[verifier::external_body]
    pub broadcast proof fn axiom_uid_key_model() ensures #[trigger] obeys_key_model::<[u8; 16]>() {}
}
broadcast use {vstd::laws_eq::group_laws_eq, vstd::std_specs::hash::group_hash_axioms, trusted::axiom_uid_key_model};
pub type Uid = [u8; 16];

// ---------------------------------------------------------------- opaque stubs of everything external to the guard
pub mod crate_error {
    pub enum Error { SecurityViolation(String), SendError(String), Other() }
}
pub struct Opaque { x: u8 }                       // payloads (room definitions, logs, rows ...): content irrelevant to the guard
pub struct HardwareFingerprint { x: u8 }
impl HardwareFingerprint {
    #[verifier::external_body]
    pub fn clone(&self) -> (r: HardwareFingerprint) { unimplemented!() }
}
pub struct IdentityAnswer { pub peer: Opaque, pub chall_signature: Vec<u8> }
#[verifier::external_body]
pub fn base64_encode(data: &Vec<u8>) -> (r: String) { unimplemented!() }
#[verifier::external_body]
pub fn fmt_stub() -> (r: String) { unimplemented!() }          // E15: format!(..) replaced (error message text)

pub mod mpsc {
    use vstd::prelude::*;
    pub struct Receiver<T> { x: Option<T> }
    impl<T> Receiver<T> {
        #[verifier::external_body]
        pub async fn recv(&mut self) -> (r: Option<T>) { unimplemented!() }
    }
}
/// the authenticated key of the remote side, shared with the connection handler (tokio Mutex): read under its lock
pub struct KeyGuard { v: Vec<u8> }
impl KeyGuard {
    pub uninterp spec fn key(&self) -> Seq<u8>;
    #[verifier::external_body]
    pub fn is_empty(&self) -> (r: bool) ensures r == (self.key().len() == 0) { unimplemented!() }
    #[verifier::external_body]
    pub fn eq(&self, other: &Vec<u8>) -> (r: bool) ensures r == (self.key() =~= other@) { unimplemented!() }
    #[verifier::external_body]
    pub fn clone(&self) -> (r: Vec<u8>) ensures r@ == self.key() { unimplemented!() }
}
pub struct Mutex<T> { x: Option<T> }
impl Mutex<Vec<u8>> {
    #[verifier::external_body]
    pub async fn lock(&self) -> (r: KeyGuard) { unimplemented!() }
}
pub struct AtomicBool { x: bool }
pub enum Ordering { Relaxed }
impl AtomicBool {
    pub uninterp spec fn val(&self) -> bool;     // the value read (readiness of the connection as set by the handshake)
    #[verifier::external_body]
    pub fn load(&self, o: Ordering) -> (r: bool) ensures r == self.val() { unimplemented!() }
}

pub mod security {
    use vstd::prelude::*;
    /// blake3::derive_key (key-derivation mode; separated by construction from the plain hash mode that digests rows: ASSUMED)
    pub uninterp spec fn spec_derive(context: Seq<char>, key_material: Seq<u8>) -> Seq<u8>;
    #[verifier::external_body]
    pub fn derive_key(context: &str, key_material: &[u8]) -> (r: [u8; 32]) ensures r@ == spec_derive(context@, key_material@) { unimplemented!() }
}
pub assume_specification<T: Clone>[ <[T]>::to_vec ](s: &[T]) -> (r: Vec<T>) ensures r@ == s@;
//@ extract src/synchronisation/mod.rs :: const IDENTITY_CHALLENGE_CONTEXT
//@ end
pub open spec fn identity_message(challenge: Seq<u8>) -> Seq<u8> { security::spec_derive(IDENTITY_CHALLENGE_CONTEXT@, challenge) }
//@ use-contract u10_handshake.rs :: identity_challenge_message
/// the database service: every method that serves data of a room takes the room id first.
/// A request kind that calls a method not listed here does not type-check (exit 2), so it cannot slip past unguarded.
pub struct GraphDatabaseService { x: u8 }
pub type DbResult<T> = std::result::Result<T, crate_error::Error>;
impl GraphDatabaseService {
    /// ghost: the rooms of which `key` is a member now (unit u2_verdicts proves rooms_for_peer returns exactly these)
    pub uninterp spec fn member_rooms(&self, key: Seq<u8>) -> Set<Uid>;
    // not room data: signing for the identity challenge, the local peer row
    #[verifier::external_body]
    pub async fn sign(&self, data: Vec<u8>) -> (r: (Vec<u8>, Vec<u8>))
        // [remote_chosen_bytes_never_signed_raw]{C06} what the serving side signs with the user's key is the derived identity message of some challenge - never bytes chosen by the remote peer, which could be the digest of a row the user did not author
        requires exists|ch: Seq<u8>| data@ == identity_message(ch),
    { unimplemented!() }
    #[verifier::external_body]
    pub async fn get_peer_node(&self, key: Vec<u8>) -> (r: DbResult<Option<Opaque>>) ensures r is Ok ==> r->Ok_0 is Some { unimplemented!() }
    // the membership source
    #[verifier::external_body]
    pub async fn get_rooms_for_peer(&self, key: Vec<u8>) -> (r: RoomsReply) ensures r.key() == key@, r.db_rooms() == self.member_rooms(key@) { unimplemented!() }
    // room data
    #[verifier::external_body]
    pub async fn get_room_definition(&self, room_id: Uid) -> (r: DbResult<Opaque>) { unimplemented!() }
    #[verifier::external_body]
    pub async fn get_room_node(&self, room_id: Uid) -> (r: DbResult<Opaque>) { unimplemented!() }
    #[verifier::external_body]
    pub async fn get_room_log(&self, room_id: Uid) -> (r: mpsc::Receiver<DbResult<Opaque>>) { unimplemented!() }
    #[verifier::external_body]
    pub async fn get_room_log_at(&self, room_id: Uid, date: i64) -> (r: DbResult<Opaque>) { unimplemented!() }
    #[verifier::external_body]
    pub async fn get_room_daily_nodes(&self, room_id: Uid, entity: String, date: i64) -> (r: mpsc::Receiver<DbResult<Opaque>>) { unimplemented!() }
    #[verifier::external_body]
    pub async fn get_nodes(&self, room_id: Uid, node_ids: Vec<Uid>) -> (r: mpsc::Receiver<DbResult<Opaque>>) { unimplemented!() }
    #[verifier::external_body]
    pub async fn get_edges(&self, room_id: Uid, nodes: Vec<(Uid, i64)>) -> (r: mpsc::Receiver<DbResult<Opaque>>) { unimplemented!() }
    #[verifier::external_body]
    pub async fn get_room_edge_deletion_log(&self, room_id: Uid, entity: String, date: i64) -> (r: mpsc::Receiver<DbResult<Opaque>>) { unimplemented!() }
    #[verifier::external_body]
    pub async fn get_room_node_deletion_log(&self, room_id: Uid, entity: String, date: i64) -> (r: mpsc::Receiver<DbResult<Opaque>>) { unimplemented!() }
    #[verifier::external_body]
    pub async fn peers_for_room(&self, room_id: Uid) -> (r: mpsc::Receiver<DbResult<Opaque>>) { unimplemented!() }
}
/// the streamed answer of get_rooms_for_peer(key): every list it yields contains only rooms of which `key` is a member
pub struct RoomsReply { x: u8 }
impl RoomsReply {
    pub uninterp spec fn key(&self) -> Seq<u8>;
    pub uninterp spec fn db_rooms(&self) -> Set<Uid>;      // = db.member_rooms(key)
    #[verifier::external_body]
    pub async fn recv(&mut self) -> (r: Option<DbResult<Vec<Uid>>>)
        ensures final(self).key() == old(self).key(), final(self).db_rooms() == old(self).db_rooms(),
                r is Some && r->Some_0 is Ok ==> forall|i: int| 0 <= i < r->Some_0->Ok_0@.len() ==> old(self).db_rooms().contains(#[trigger] r->Some_0->Ok_0@[i]),
    { unimplemented!() }
}

//@ extract src/synchronisation/mod.rs :: enum Error
//@ end
//@ extract src/synchronisation/mod.rs :: enum Query
//@ end
//@ extract src/synchronisation/mod.rs :: struct QueryProtocol
//@ end

pub struct RemotePeerHandle {
    pub allowed_room: HashSet<Uid>,
    pub db: GraphDatabaseService,
    pub verifying_key: Vec<u8>,
}
impl RemotePeerHandle {
    #[verifier::external_body]
    pub async fn send<T>(&self, id: u64, success: bool, complete: bool, msg: T) -> (r: std::result::Result<(), crate_error::Error>) { unimplemented!() }
}
pub struct InboundQueryService { x: u8 }

/// rooms this connection may read: only rooms of which the authenticated key (if any) is a member
pub open spec fn allowed_ok(allowed: Set<Uid>, granted: Set<Uid>) -> bool { allowed.subset_of(granted) }

//@ extract src/synchronisation/peer_outbound_service.rs :: impl RemotePeerHandle / fn add_allowed_room
//@ spec
        ensures final(self).allowed_room@ == old(self).allowed_room@.insert(room), final(self).verifying_key == old(self).verifying_key,
//@ end

//@ extract src/synchronisation/peer_outbound_service.rs :: impl InboundQueryService / fn process_inbound
//@ attr #[verifier::exec_allows_no_decreases_clause]
//@ attr #[verifier::loop_isolation(false)]
//@ rewrite E3 "crate::Error" => "crate_error::Error" x*
//@ rewrite E3 "&Arc<Mutex<Vec<u8>>>" => "&Mutex<Vec<u8>>" x1
//@ rewrite E3 "&Arc<AtomicBool>" => "&AtomicBool" x1
//@ rewrite E15 "format!\(\s*\"[^\"]*\",\s*base64_encode\(&key\)\s*\)" => "fmt_stub()" x*
//@ rewrite E16 "\"([A-Za-z:]+)\"\.to_string\(\)" => "fmt_stub()" x*
//@ insert before-stmt "peer.db.get_room_definition("
                    // [serve_room_definition_only_to_allowed]
                    assert(peer.allowed_room@.contains(room_id));
//@ insert before-stmt "peer.db.get_room_node("
                    // [serve_room_node_only_to_allowed]
                    assert(peer.allowed_room@.contains(room_id));
//@ insert before-stmt "peer.db.get_room_log("
                    // [serve_room_log_only_to_allowed]
                    assert(peer.allowed_room@.contains(room_id));
//@ insert before-stmt "peer.db.get_room_log_at("
                    // [serve_room_log_at_only_to_allowed]
                    assert(peer.allowed_room@.contains(room_id));
//@ insert before-stmt "peer.db.get_room_daily_nodes("
                    // [serve_daily_nodes_only_to_allowed]
                    assert(peer.allowed_room@.contains(room_id));
//@ insert before-stmt "peer.db.get_nodes("
                    // [serve_nodes_only_to_allowed]
                    assert(peer.allowed_room@.contains(room_id));
//@ insert before-stmt "peer.db.get_edges("
                    // [serve_edges_only_to_allowed]
                    assert(peer.allowed_room@.contains(room_id));
//@ insert before-stmt ".get_room_edge_deletion_log("
                    // [serve_edge_deletion_log_only_to_allowed]
                    assert(peer.allowed_room@.contains(room_id));
//@ insert before-stmt ".get_room_node_deletion_log("
                    // [serve_node_deletion_log_only_to_allowed]
                    assert(peer.allowed_room@.contains(room_id));
//@ insert before-stmt "peer.db.peers_for_room("
                    // [serve_peers_only_to_allowed]
                    assert(peer.allowed_room@.contains(room_id));
//@ insert before-stmt "peer.send(msg.id, true, true, fingerprint.clone())"
                        // [fingerprint_only_to_own_key] the hardware fingerprint is sent only when the authenticated key is the local user's own key
                        assert(key.key().len() > 0 && key.key() =~= peer.verifying_key@);
//@ loop "while let Some(rooms) = res_reply.recv().await"
                        invariant
                            peer.verifying_key == old(peer).verifying_key,
                            res_reply.key() == key.key() && key.key().len() > 0 && conn_ready.val(),
                            res_reply.db_rooms() == old(peer).db.member_rooms(key.key()),
                            peer.db == old(peer).db,
                            // [allowed_rooms_only_from_memberships] rooms enter the allowed set only from the membership answer computed for the authenticated key
                            forall|id: Uid| peer.allowed_room@.contains(id) ==> old(peer).allowed_room@.contains(id) || res_reply.db_rooms().contains(id),
//@ loop "for room in &room_list" iter it
                                        invariant
                                            peer.verifying_key == old(peer).verifying_key,
                                            forall|id: Uid| peer.allowed_room@.contains(id) ==> old(peer).allowed_room@.contains(id) || res_reply.db_rooms().contains(id),
//@ spec
        ensures
            // [allowed_set_grows_only_by_memberships]{C08} whatever the request, after it the set of readable rooms contains nothing new unless the request was a room list made with a non-empty authenticated key, and then only rooms from that key's membership answer
            match old_query_kind(msg) {
                QKind::RoomList => (!conn_ready.val() ==> final(peer).allowed_room@ == old(peer).allowed_room@)
                    && (final(peer).allowed_room@ == old(peer).allowed_room@
                        || exists|k: Seq<u8>| k.len() > 0 && forall|id: Uid| #[trigger] final(peer).allowed_room@.contains(id) ==>
                               old(peer).allowed_room@.contains(id) || old(peer).db.member_rooms(k).contains(id)),
                QKind::Other => final(peer).allowed_room@ == old(peer).allowed_room@,
            },
            // [identity_unchanged] the local identity attached to the connection is never altered by a request
            final(peer).verifying_key == old(peer).verifying_key,
//@ end

pub enum QKind { RoomList, Other }
pub open spec fn old_query_kind(msg: QueryProtocol) -> QKind { match msg.query { Query::RoomList => QKind::RoomList, _ => QKind::Other } }
} // verus!
fn main() {}
