//@ unit u13_events props C18 also C13 C07
// Unit U13: "every committed change is announced", the part that is sequencing inside one function.
//  (a) authorisation actor (src/database/authorisation_service.rs, process_message): once the writer has acknowledged a room
//      mutation or a received room definition, every room of that change is installed in the in-memory authorisations and a
//      RoomModified event carrying that very definition is sent, before the caller gets its answer.
//  (b) database service (src/database/graph_database.rs): delete, mutate_raw and the mutation stream ask for the recomputation of
//      the daily logs (which is what produces the data-changed event) after the write was answered / the stream was closed.
// Delivery of events across actors, batching and concurrency are NOT decided (DESIGN.md section 5 C18).
#![feature(allocator_api)]
#![allow(unused_imports, unused_variables, dead_code, unused_mut, non_snake_case)]
use vstd::prelude::*;
use vstd::std_specs::iter::IteratorSpec;
use vstd::std_specs::hash::*;
use vstd::std_specs::cmp::PartialEqSpec;
use std::alloc::Allocator;
use std::collections::{HashMap, HashSet};
verus! {
broadcast use {vstd::laws_eq::group_laws_eq, vstd::std_specs::hash::group_hash_axioms, trusted_keys::group_trusted_keys};
pub type Uid = [u8; 16];
pub enum Error { AuthorisationExists(), InvalidUserDate(), InvalidRightDate(), Other() }
pub type Result<T> = std::result::Result<T, Error>;

//@ extract src/database/room.rs :: const WILDCARD_ENTITY
//@ end
//@ extract src/database/room.rs :: struct Room
//@ end
//@ extract src/database/room.rs :: struct Authorisation
//@ end
//@ extract src/database/room.rs :: struct User
//@ end
//@ extract src/database/room.rs :: struct EntityRight
//@ end
//@ extract src/database/room.rs :: enum RightType
//@ end
//@ include common/room_spec.rs
//@ include common/keys.rs
//@ extract src/database/authorisation_service.rs :: struct RoomAuthorisations
//@ end
//@ use-contract u2_verdicts.rs :: RoomAuthorisations::add_room only add_room_view
impl Clone for Room {
    #[verifier::external_body]
    fn clone(&self) -> (r: Room) ensures r == *self { unimplemented!() }   // #[derive(Clone)]
}
pub enum EventServiceMessage { DataChanged(DataModification), RoomModified(Room), RoomSynchronized(Uid), Other() }
pub struct EventService { x: u8 }
impl EventService {
    #[verifier::external_body]
    pub async fn notify(&self, msg: EventServiceMessage) { unimplemented!() }
}
pub struct MutationQuery { x: u8 }
pub struct SendErr { x: u8 }
/// oneshot reply channel
pub struct Sender<T> { x: Option<T> }
impl<T> Sender<T> {
    #[verifier::external_body]
    pub fn send(self, t: T) -> (r: std::result::Result<(), SendErr>) { unimplemented!() }
}
pub mod mpsc {
    use vstd::prelude::*;
    pub struct Sender<T> { x: Option<T> }
    impl<T> Sender<T> {
        #[verifier::external_body]
        pub async fn send(&self, t: T) -> (r: std::result::Result<(), super::SendErr>) { unimplemented!() }
        #[verifier::external_body]
        pub fn clone(&self) -> (r: Sender<T>) { unimplemented!() }
    }
    pub struct Receiver<T> { x: Option<T> }
    impl<T> Receiver<T> {
        #[verifier::external_body]
        pub async fn recv(&mut self) -> (r: Option<T>) { unimplemented!() }
    }
}
pub struct RoomMutationWriteQuery { pub room_list: HashSet<Uid>, pub mutation_query: MutationQuery, pub reply: Sender<Result<MutationQuery>> }
pub struct RoomMutationStreamWriteQuery { pub room_list: HashSet<Uid>, pub mutation_query: MutationQuery, pub reply: mpsc::Sender<Result<MutationQuery>> }
pub struct RoomNode { x: u8 }
impl RoomNode {
    /// RoomNode::parse (under contract in unit u3_loaders): here any room, or an error
    #[verifier::external_body]
    pub fn parse(&self) -> (r: Result<Room>) { unimplemented!() }
}
pub struct RoomNodeWriteQuery { pub room: RoomNode, pub reply: Sender<Result<()>> }
pub struct AuthorisationService { x: u8 }

/// the rooms of `rooms` are installed in the table: each under its own id, with the definition that was written (the last one
/// wins when the same room occurs twice)
pub open spec fn installed(t: Map<Uid, Room>, rooms: Seq<Room>) -> bool {
    forall|i: int| 0 <= i < rooms.len() ==> t.contains_key((#[trigger] rooms[i]).id)
        && (t[rooms[i].id] == rooms[i] || exists|j: int| i < j < rooms.len() && rooms[j].id == rooms[i].id)
}

//@ extract src/database/authorisation_service.rs :: impl AuthorisationService / fn process_message as AuthorisationService::lifted_room_mutation_written
//@ lift "Ok(rooms) => {" #1 :: async fn lifted_room_mutation_written(rooms: Vec<Room>, auth: &mut RoomAuthorisations, event_service: &EventService, query: RoomMutationWriteQuery)
//@ attr #[verifier::loop_isolation(false)]
//@ insert body-start
                            let ghost rooms0 = rooms@;
                            let ghost mut announced: Seq<Room> = Seq::empty();
//@ loop "for room in rooms" iter it
                                invariant it.seq() == rooms0, announced =~= rooms0.subrange(0, it.index@ as int), installed(auth.rooms@, announced),
//@ insert before-stmt ".notify(EventServiceMessage::RoomModified(room))"
                                // [room_event_carries_the_definition_now_in_force] the event is sent after the definition was installed in memory and carries that very definition
                                assert(auth.rooms@.contains_key(room.id) && auth.rooms@[room.id] == room);
//@ insert after-stmt ".notify(EventServiceMessage::RoomModified(room))"
                                proof {
                                    let ghost before = announced;
                                    announced = announced.push(room);
                                    assert forall|i: int| 0 <= i < announced.len() implies auth.rooms@.contains_key((#[trigger] announced[i]).id)
                                        && (auth.rooms@[announced[i].id] == announced[i] || exists|j: int| i < j < announced.len() && announced[j].id == announced[i].id) by {
                                        if i < before.len() && before[i].id == room.id {
                                            assert(announced[announced.len() - 1].id == announced[i].id);
                                        } else if i < before.len() {
                                            assert(before[i] == announced[i]);
                                            if auth.rooms@[announced[i].id] != announced[i] {
                                                let j = choose|j: int| i < j < before.len() && before[j].id == before[i].id;
                                                assert(announced[j].id == announced[i].id);
                                            }
                                        }
                                    }
                                }
//@ insert before-stmt "let _ = query.reply.send(Ok(query.mutation_query));"
                            proof { assert(rooms0.subrange(0, rooms0.len() as int) =~= rooms0); }
                            // [every_written_room_announced_before_the_answer] when the caller is answered, every room of the acknowledged change is installed and was announced, in order
                            assert(announced =~= rooms0 && installed(auth.rooms@, rooms0));
//@ end

//@ extract src/database/authorisation_service.rs :: impl AuthorisationService / fn process_message as AuthorisationService::lifted_room_stream_mutation_written
//@ lift "Ok(rooms) => {" #2 :: async fn lifted_room_stream_mutation_written(rooms: Vec<Room>, auth: &mut RoomAuthorisations, event_service: &EventService, query: RoomMutationStreamWriteQuery)
//@ attr #[verifier::loop_isolation(false)]
//@ insert body-start
                            let ghost rooms0 = rooms@;
                            let ghost mut announced: Seq<Room> = Seq::empty();
//@ loop "for room in rooms" iter it
                                invariant it.seq() == rooms0, announced =~= rooms0.subrange(0, it.index@ as int), installed(auth.rooms@, announced),
//@ insert before-stmt ".notify(EventServiceMessage::RoomModified(room))"
                                // [stream_room_event_carries_the_definition_now_in_force]
                                assert(auth.rooms@.contains_key(room.id) && auth.rooms@[room.id] == room);
//@ insert after-stmt ".notify(EventServiceMessage::RoomModified(room))"
                                proof {
                                    let ghost before = announced;
                                    announced = announced.push(room);
                                    assert forall|i: int| 0 <= i < announced.len() implies auth.rooms@.contains_key((#[trigger] announced[i]).id)
                                        && (auth.rooms@[announced[i].id] == announced[i] || exists|j: int| i < j < announced.len() && announced[j].id == announced[i].id) by {
                                        if i < before.len() && before[i].id == room.id {
                                            assert(announced[announced.len() - 1].id == announced[i].id);
                                        } else if i < before.len() {
                                            assert(before[i] == announced[i]);
                                            if auth.rooms@[announced[i].id] != announced[i] {
                                                let j = choose|j: int| i < j < before.len() && before[j].id == before[i].id;
                                                assert(announced[j].id == announced[i].id);
                                            }
                                        }
                                    }
                                }
//@ insert before-stmt "let _ = query.reply.send(Ok(query.mutation_query)).await;"
                            proof { assert(rooms0.subrange(0, rooms0.len() as int) =~= rooms0); }
                            // [every_written_stream_room_announced_before_the_answer]
                            assert(announced =~= rooms0 && installed(auth.rooms@, rooms0));
//@ end

//@ extract src/database/authorisation_service.rs :: impl AuthorisationService / fn process_message as AuthorisationService::lifted_room_node_written
//@ lift "Ok(room) => {" :: async fn lifted_room_node_written(room: Room, auth: &mut RoomAuthorisations, event_service: &EventService, query: RoomNodeWriteQuery)
//@ insert body-start
                            let ghost room0 = room;
                            let ghost mut announced: Seq<Room> = Seq::empty();
//@ insert before-stmt ".notify(EventServiceMessage::RoomModified(room))"
                            // [received_room_event_carries_the_definition_now_in_force]
                            assert(auth.rooms@.contains_key(room.id) && auth.rooms@[room.id] == room);
//@ insert after-stmt ".notify(EventServiceMessage::RoomModified(room))"
                            proof { announced = announced.push(room0); }
//@ insert before-stmt "let _ = query.reply.send(Ok(()));"
                            // [received_room_announced_before_the_answer] a room definition received from a peer and written is installed and announced before the synchronisation goes on
                            assert(announced =~= seq![room0] && auth.rooms@.contains_key(room0.id) && auth.rooms@[room0.id] == room0);
//@ end

// the whole RoomNodeWrite arm (`=> match res { .. }`): what happens when the write of a received room definition FAILED
/// the reply channel of the room write was answered with this result
pub uninterp spec fn room_write_answered(ok: bool) -> bool;
pub uninterp spec fn room_event_notified() -> bool;
//@ extract src/database/authorisation_service.rs :: impl AuthorisationService / fn process_message as AuthorisationService::lifted_room_node_write_arm
//@ lift "AuthorisationMessage::RoomNodeWrite(res, query) =>" :: async fn lifted_room_node_write_arm(res: Result<()>, query: RoomNodeWriteQuery, auth: &mut RoomAuthorisations, event_service: &EventService)
//@ insert body-start
            let ghost mut notified: bool = false;
            let ghost mut answered_ok: bool = false;
//@ insert-each after-stmt ".notify(EventServiceMessage::RoomModified(room))" optional
                            proof { notified = true; }
//@ insert-each before-stmt "query.reply.send(Ok(()))" optional
                            proof { answered_ok = true; }
//@ insert body-end
            // [failed_room_write_installs_nothing]{C13,C07,C18} a room definition whose write FAILED (the batch was rolled back: nothing is stored) is not installed in memory, is not announced, and is not answered Ok: a write reported failed has no visible effect
            assert(res is Err ==> auth.rooms@ == old(auth).rooms@ && !notified && !answered_ok);
//@ end

// ------------------------------------------------------------------ (c) the content of the data-changed event
pub mod trusted_default {
    use vstd::prelude::*;
    use std::collections::HashMap;
    pub uninterp spec fn spec_is_default<V>(v: V) -> bool;
    #[verifier::external_body]
    pub broadcast proof fn axiom_default_map<K, V>(v: HashMap<K, V>) ensures #[trigger] spec_is_default(v) ==> v@ == Map::<K, V>::empty() {}
    #[verifier::external_body]
    pub broadcast proof fn axiom_default_vec<T>(v: Vec<T>) ensures #[trigger] spec_is_default(v) ==> v@ == Seq::<T>::empty() {}
    pub broadcast group group_default { axiom_default_map, axiom_default_vec }
}
pub use trusted_default::spec_is_default;
use vstd::std_specs::hash::EntrySpecFns;
pub assume_specification<'a, K, V: std::default::Default>[ std::collections::hash_map::Entry::<'a, K, V>::or_default ](entry: std::collections::hash_map::Entry<'a, K, V>) -> (value: &'a mut V)
    ensures
        match entry.value() { Some(v) => *value == v, None => spec_is_default(*value) },
        entry.final_value() == Some(*final(value));
// the rest of the Entry family a refactoring of `add` is likely to reach for: ASSUMED std semantics
pub assume_specification<'a, K, V, A: Allocator, F: FnOnce() -> V>[ std::collections::hash_map::Entry::<'a, K, V, A>::or_insert_with ](entry: std::collections::hash_map::Entry<'a, K, V, A>, default: F) -> (value: &'a mut V)
    requires call_requires(default, ()),
    ensures
        match entry.value() { Some(v) => *value == v, None => call_ensures(default, (), *value) },
        entry.final_value() == Some(*final(value));
pub uninterp spec fn spec_b64(room: Uid) -> String;
#[verifier::external_body]
pub fn base64_encode(data: &Uid) -> (r: String) ensures r == spec_b64(*data) { unimplemented!() }
//@ extract src/database/mod.rs :: struct DataModification
//@ end
/// the event names the day `date` of `entity` in the room whose encoded id is `room`
pub open spec fn names(dm: DataModification, room: String, entity: String, date: i64) -> bool {
    dm.rooms@.contains_key(room) && dm.rooms@[room]@.contains_key(entity) && dm.rooms@[room]@[entity]@.contains(date)
}
//@ extract src/database/mod.rs :: impl DataModification / fn add
//@ insert body-start
        broadcast use trusted_default::group_default;
        let ghost rk = spec_b64(room);
        let ghost ek = entity;
        let ghost m0 = self.rooms@;
//@ insert body-end
        proof {
            // proof of the postcondition from the std contracts of entry / or_default / push: no anchor inside the body is needed
            let r0 = if m0.contains_key(rk) { m0[rk]@ } else { Map::<String, Vec<i64>>::empty() };
            let e0 = if r0.contains_key(ek) { r0[ek]@ } else { Seq::<i64>::empty() };
            let e1 = self.rooms@[rk]@[ek]@;
            // [event_lists_room_and_entity] the room and the entity of the added day are present in the event
            assert(self.rooms@.contains_key(rk) && self.rooms@[rk]@.contains_key(ek));
            // [event_day_appended_to_the_entity_list] the day is appended to the days already listed for that room and entity
            assert(e1 == e0.push(date));
            assert forall|d: i64| e1.contains(d) <==> (e0.contains(d) || d == date) by {
                if e1.contains(d) { let i = choose|i: int| 0 <= i < e1.len() && e1[i] == d; if i < e0.len() { assert(e0[i] == d); } }
                if e0.contains(d) { let i = choose|i: int| 0 <= i < e0.len() && e0[i] == d; assert(e1[i] == d); }
                if d == date { assert(e1[e0.len() as int] == d); }
            }
            assert(self.rooms@ =~= m0.insert(rk, self.rooms@[rk]));
            assert(self.rooms@[rk]@ =~= r0.insert(ek, self.rooms@[rk]@[ek]));
            assert forall|r: String, e: String, d: i64| #[trigger] names(*self, r, e, d) <==> (names(*old(self), r, e, d) || (r == rk && e == ek && d == date)) by {
                if r == rk {
                    if e == ek {
                        assert(self.rooms@[r]@[e]@.contains(d) <==> (e0.contains(d) || d == date));
                    } else {
                        assert(self.rooms@[r]@.contains_key(e) <==> r0.contains_key(e));
                        if r0.contains_key(e) { assert(self.rooms@[r]@[e] == r0[e]); }
                    }
                } else {
                    assert(self.rooms@.contains_key(r) <==> m0.contains_key(r));
                    if m0.contains_key(r) { assert(self.rooms@[r] == m0[r]); }
                }
            }
        }
//@ spec
        ensures
            // [event_names_every_added_day] the whole view: the event names every day it named before, the added (room, entity, day), and nothing else - also when the room and the entity are already present
            forall|r: String, e: String, d: i64| #[trigger] names(*final(self), r, e, d) <==> (names(*old(self), r, e, d) || (r == spec_b64(room) && e == entity && d == date)),
//@ end

// ------------------------------------------------------------------ (b) recomputation requests of the database service
pub struct Parameters { x: u8 }
impl Parameters {
    #[verifier::external_body]
    pub fn default() -> (r: Parameters) { unimplemented!() }
}
#[verifier::external_body]
pub fn params_or_default(p: Option<Parameters>) -> (r: Parameters) { unimplemented!() }       // E23: Option::unwrap_or_default
#[verifier::external_body]
pub fn fmt_stub(s: &str) -> (r: String) { unimplemented!() }                                   // E16: str::to_string
// the real deletion query and what it is made of (plain data): a change that looks inside it is decided rather than refused by the front end
//@ extract src/database/node.rs :: struct Node
//@ end
//@ extract src/database/edge.rs :: struct Edge
//@ end
//@ extract src/database/node.rs :: struct NodeDeletionEntry
//@ end
//@ extract src/database/edge.rs :: struct EdgeDeletionEntry
//@ end
//@ extract src/database/deletion.rs :: struct NodeDelete
//@ end
//@ extract src/database/deletion.rs :: struct EdgeDelete
//@ end
//@ extract src/database/deletion.rs :: struct DeletionQuery
//@ end
pub struct RecvError { x: u8 }
impl From<RecvError> for Error { #[verifier::external_body] fn from(e: RecvError) -> Error { unimplemented!() } }
pub mod oneshot {
    use vstd::prelude::*;
    pub struct Receiver<T> { x: Option<T> }
    impl<T> Receiver<T> {
        /// E22: `receive.await` (the oneshot receiver is itself the future)
        #[verifier::external_body]
        pub async fn wait(self) -> (r: std::result::Result<T, super::RecvError>) { unimplemented!() }
    }
    #[verifier::external_body]
    pub fn channel<T>() -> (r: (super::Sender<T>, Receiver<T>)) { unimplemented!() }
}
pub enum DbMessage {
    Delete(String, Parameters, Sender<Result<DeletionQuery>>),
    Mutate(String, Parameters, Sender<Result<MutationQuery>>),
    MutateStream(String, Parameters, mpsc::Sender<Result<MutationQuery>>),
    ComputeDailyLog(),
}
pub struct GraphDatabaseService { pub sender: mpsc::Sender<DbMessage> }

//@ extract src/database/graph_database.rs :: impl GraphDatabaseService / fn delete
//@ rewrite E16 "delete\.to_string\(\)" => "fmt_stub(delete)" x1
//@ rewrite E23 "param_opt\.unwrap_or_default\(\)" => "params_or_default(param_opt)" x1
//@ rewrite E22 "receive\.await\?" => "receive.wait().await?" x1
//@ insert body-start
        let ghost mut requested: nat = 0;
//@ insert after-stmt "self.sender.send(DbMessage::ComputeDailyLog())"
        proof { requested = requested + 1; }
//@ insert before-stmt "result" #2
        // [recompute_requested_after_answered_deletion] once a deletion was committed (answered Ok by the writer), the recomputation of the daily logs (which produces the data-changed event) is requested before the caller gets the answer
        assert(result is Ok ==> requested >= 1);
//@ end

//@ extract src/database/graph_database.rs :: impl GraphDatabaseService / fn mutate_raw
//@ rewrite E16 "mutate\.to_string\(\)" => "fmt_stub(mutate)" x1
//@ rewrite E23 "param_opt\.unwrap_or_default\(\)" => "params_or_default(param_opt)" x1
//@ rewrite E22 "receive\.await\?" => "receive.wait().await?" x1
//@ insert body-start
        let ghost mut requested: nat = 0;
//@ insert after-stmt "self.sender.send(DbMessage::ComputeDailyLog())"
        proof { requested = requested + 1; }
//@ insert before-stmt "result" #2
        // [recompute_requested_after_answered_mutation] once a mutation was committed (answered Ok by the writer), the recomputation of the daily logs is requested before the caller gets the answer
        assert(result is Ok ==> requested >= 1);
//@ end

//@ extract src/database/graph_database.rs :: impl GraphDatabaseService / fn mutation_stream as GraphDatabaseService::lifted_mutation_stream_task
//@ lift "tokio::spawn(async move {" :: async fn lifted_mutation_stream_task(recv0: mpsc::Receiver<(String, Option<Parameters>)>, send_res: mpsc::Sender<Result<MutationQuery>>, dbsender: mpsc::Sender<DbMessage>)
//@ attr #[verifier::exec_allows_no_decreases_clause]
//@ rewrite E23 "param_opt\.unwrap_or_default\(\)" => "params_or_default(param_opt)" x1
//@ insert body-start
            let mut recv = recv0;     // E9: captured variable of the task
            let ghost mut requested: nat = 0;
//@ loop "while let Some((mutate, param_opt)) = recv.recv().await"
                invariant requested == 0,
//@ insert after-stmt "dbsender.send(DbMessage::ComputeDailyLog())"
            proof { requested = requested + 1; }
//@ insert body-end
            // [recompute_requested_when_stream_closed] when the mutation stream is closed, the recomputation of the daily logs is requested
            assert(requested >= 1);
//@ end

} // verus!
fn main() {}
