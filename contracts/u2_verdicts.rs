//@ unit u2_verdicts props C01 C02 C08 C12 also C06 C10 C11 C09 C13
// Unit U2: the verdict functions of src/database/authorisation_service.rs.
// The room decision kernel (unit u1_room) is visible here only through the contracts proved there.
#![feature(allocator_api)]
#![allow(unused_imports, unused_variables, dead_code, unused_mut, non_snake_case)]
use vstd::prelude::*;
use vstd::std_specs::iter::IteratorSpec;
use vstd::std_specs::hash::*;
use vstd::std_specs::cmp::PartialEqSpec;
use std::alloc::Allocator;
use std::collections::{HashMap, HashSet, VecDeque};
use std::collections::hash_map::Iter;
verus! {
broadcast use {vstd::laws_eq::group_laws_eq, vstd::std_specs::hash::group_hash_axioms, trusted_keys::group_trusted_keys, trusted_byvalue_iter::group_byvalue_iter};

pub type Uid = [u8; 16];
pub enum Error {
    AuthorisationExists(),
    InvalidUserDate(),
    InvalidRightDate(),
    Bincode(Box<bincode::ErrorKind>),
    Other(),
    NodeTooBig(u64, u64),
    AuthorisationRejected(String, String),
    UnknownRoom(String),
    DeleteNotAllowed(),
    InvalidAuthorisationMutation(String),
    CannotRemove(String, String),
    UpdateNotAllowed(),
    ForbiddenRoomId(String),
    NotBelongsTo(),
    Query(String),
}
pub type Result<T> = std::result::Result<T, Error>;
impl From<Box<bincode::ErrorKind>> for Error {
    #[verifier::external_body]
    fn from(e: Box<bincode::ErrorKind>) -> Error { unimplemented!() }
}

pub open spec fn iter_covers<K, V>(m: Map<K, V>, rem: Seq<(&K, &V)>) -> bool {
    &&& rem.len() == m.len()
    &&& forall|i: int| 0 <= i < rem.len() ==> m.contains_key(*(#[trigger] rem[i]).0) && m[*rem[i].0] == *rem[i].1
    &&& forall|k: K| m.contains_key(k) ==> exists|i: int| 0 <= i < rem.len() && *(#[trigger] rem[i]).0 == k
}
pub assume_specification<'a, K, V, S, A: Allocator>[ <&'a HashMap<K, V, S, A> as IntoIterator>::into_iter ](m: &'a HashMap<K, V, S, A>) -> (r: Iter<'a, K, V>)
    ensures iter_covers(m@, r.remaining()), r.obeys_prophetic_iter_laws();

// ---- external crates and helpers (nothing assumed beyond what is written)
pub mod bincode {
    use vstd::prelude::*;
    pub struct ErrorKind { x: u8 }
    /// the serialised size of a row (uninterpreted: the same function on the local and on the remote path)
    pub uninterp spec fn spec_size(n: super::Node) -> Option<u64>;
    #[verifier::external_body]
    pub fn serialized_size(n: &super::Node) -> (r: Result<u64, Box<ErrorKind>>)
        ensures match r { Ok(s) => spec_size(*n) == Some(s), Err(_) => spec_size(*n) is None }
    { unimplemented!() }
}
#[verifier::external_body]
pub fn fmt_stub() -> (r: String) { unimplemented!() }
#[verifier::external_body]
pub fn now() -> (r: i64) { unimplemented!() }   // the clock: any value
#[verifier::external_body]
pub fn base64_encode(data: &[u8]) -> (r: String) { unimplemented!() }

//@ include common/keys.rs

//@ extract src/database/room.rs :: const WILDCARD_ENTITY
//@ end
//@ extract src/database/room.rs :: struct Room
//@ end
//@ extract src/database/room.rs :: struct Authorisation
//@ end
//@ extract src/database/room.rs :: struct User
//@ end
//@ extract src/database/room.rs :: struct EntityRight
//@ end
//@ extract src/database/room.rs :: enum RightType
//@ end
//@ extract src/database/node.rs :: struct Node
//@ end
//@ extract src/database/node.rs :: struct NodeToInsert
//@ end
//@ extract src/database/node.rs :: struct NodeDeletionEntry
//@ end
//@ extract src/database/edge.rs :: struct Edge
//@ end
//@ extract src/database/edge.rs :: struct EdgeDeletionEntry
//@ end
//@ extract src/database/authorisation_service.rs :: struct RoomAuthorisations
//@ end
//@ extract src/database/mutation_query.rs :: struct NodeToMutate
//@ end
//@ extract src/database/deletion.rs :: struct NodeDelete
//@ end
//@ extract src/database/deletion.rs :: struct EdgeDelete
//@ end
//@ extract src/database/deletion.rs :: struct DeletionQuery
//@ end
//@ extract src/database/mutation_query.rs :: struct InsertEntity
//@ end
pub mod system_entities {
//@ extract src/database/system_entities.rs :: const ROOM_ENT
//@ end
//@ extract src/database/system_entities.rs :: const AUTHORISATION_ENT
//@ end
//@ extract src/database/system_entities.rs :: const ENTITY_RIGHT_ENT
//@ end
//@ extract src/database/system_entities.rs :: const USER_AUTH_ENT
//@ end
//@ extract src/database/system_entities.rs :: const ROOM_ADMIN_FIELD
//@ end
//@ extract src/database/system_entities.rs :: const ROOM_AUTHORISATION_FIELD
//@ end
//@ extract src/database/system_entities.rs :: const AUTH_RIGHTS_FIELD
//@ end
//@ extract src/database/system_entities.rs :: const AUTH_USER_FIELD
//@ end
//@ extract src/database/system_entities.rs :: const AUTH_USER_ADMIN_FIELD
//@ end
}
use system_entities::*;

//@ include common/room_spec.rs

// ---- unit u1_room, by contract only
//@ use-contract u1_room.rs :: Room::can
//@ use-contract u1_room.rs :: Room::is_admin
//@ use-contract u1_room.rs :: Room::is_user_valid_at
//@ use-contract u1_room.rs :: Room::has_user
//@ use-contract u1_room.rs :: Authorisation::can_admin_users
//@ use-contract u1_room.rs :: Authorisation::is_user_valid_at
//@ use-contract u1_room.rs :: Authorisation::can
//@ use-contract u1_room.rs :: Authorisation::has_user

// ================================================================= spec of the verdicts (from the property statements)
/// the right a change needs: own-rows right for rows the author creates or authored, all-rows right otherwise
pub closed spec fn needed(old_author: Option<Vec<u8>>, author: Vec<u8>) -> RightType {
    match old_author { Some(k) => if k@ =~= author@ { RightType::MutateSelf } else { RightType::MutateAll }, None => RightType::MutateSelf }
}
pub closed spec fn opt_str(o: Option<String>) -> Seq<char> { match o { Some(s) => s@, None => Seq::<char>::empty() } }
pub closed spec fn is_auth_entity(e: Seq<char>) -> bool {
    e == system_entities::AUTHORISATION_ENT@ || e == system_entities::ENTITY_RIGHT_ENT@ || e == system_entities::USER_AUTH_ENT@
}
pub closed spec fn is_system_entity(e: Seq<char>) -> bool {
    e == system_entities::ROOM_ENT@ || is_auth_entity(e)
}
/// `Option<String>::as_deref()` (rule E24: the std call is replaced by this stub): std semantics - the same text, borrowed
#[verifier::external_body]
pub fn option_string_as_deref(o: &Option<String>) -> (r: Option<&str>)
    ensures (o is Some) == (r is Some), o is Some ==> r->Some_0@ == o->Some_0@
{ unimplemented!() }

/// C02 for a node received from a peer
pub closed spec fn spec_validate_node(ra: RoomAuthorisations, n: NodeToInsert) -> bool {
    n.node is Some && {
        let node = n.node->Some_0;
        (bincode::spec_size(node) is Some && bincode::spec_size(node)->Some_0 <= ra.max_node_size)
        && node.room_id is Some && n.entity_name is Some
        // the rows that define a room (room, group, right and user entries) never travel as ordinary rows: C07's entries change only through a room definition
        && !is_system_entity(opt_str(n.entity_name))
        && ra.rooms@.contains_key(node.room_id->Some_0)
        && spec_can(ra.rooms@[node.room_id->Some_0], node.verifying_key, opt_str(n.entity_name), node.mdate, needed(n.old_verifying_key, node.verifying_key))
        && (n.old_room_id is Some && !(n.old_room_id->Some_0@ =~= node.room_id->Some_0@) ==>
              ra.rooms@.contains_key(n.old_room_id->Some_0)
              && spec_can(ra.rooms@[n.old_room_id->Some_0], node.verifying_key, opt_str(n.entity_name), node.mdate, needed(n.old_verifying_key, node.verifying_key)))
    }
}

//@ extract src/database/authorisation_service.rs :: impl RoomAuthorisations / fn validate_node
//@ result r
//@ rewrite E24 "node_to_insert\.entity_name\.as_deref\(\)" => "option_string_as_deref(&node_to_insert.entity_name)" x1
//@ insert body-start
        proof {
            assert(<Vec<u8> as PartialEqSpec<Vec<u8>>>::obeys_eq_spec());
            assert(<[u8; 16] as PartialEqSpec<[u8; 16]>>::obeys_eq_spec());
        }
//@ spec
        ensures
            // [validate_node_eq_spec]{C02,C12} a row from a peer is accepted exactly when: it fits the size limit, names a known room and entity, and that room grants its author the needed right at the row's own date - and so does the room it leaves when it changes room
            r == spec_validate_node(*self, *node_to_insert),
//@ end

/// C02 for a deletion record received from a peer: known entity that is not one of the entities defining a room (their rows and
/// references are removed by nobody: C07), known room, and the room grants the record's
/// author the needed right at the deletion date (all-rows right when the deleted row was authored by someone else)
pub closed spec fn edge_del_ok(ra: RoomAuthorisations, d: EdgeDeletionEntry, row_author: Option<Vec<u8>>) -> bool {
    d.entity_name is Some && !is_system_entity(opt_str(d.entity_name)) && ra.rooms@.contains_key(d.room_id)
    && spec_can(ra.rooms@[d.room_id], d.verifying_key, opt_str(d.entity_name), d.deletion_date, needed(row_author, d.verifying_key))
}
pub closed spec fn node_del_ok(ra: RoomAuthorisations, d: NodeDeletionEntry, row_author: Option<Vec<u8>>) -> bool {
    d.entity_name is Some && !is_system_entity(opt_str(d.entity_name)) && ra.rooms@.contains_key(d.room_id)
    && spec_can(ra.rooms@[d.room_id], d.verifying_key, opt_str(d.entity_name), d.deletion_date, needed(row_author, d.verifying_key))
}

//@ extract src/database/authorisation_service.rs :: impl RoomAuthorisations / fn validate_edge_deletions as RoomAuthorisations::validate_edge_deletions_body
//@ lift-loop "for entry in edges" fn validate_edge_deletions_body(&self, entry: (EdgeDeletionEntry, Option<Vec<u8>>), result: &mut Vec<EdgeDeletionEntry>)
//@ insert body-start
        proof { assert(<Vec<u8> as PartialEqSpec<Vec<u8>>>::obeys_eq_spec()); }
//@ spec
        ensures
            // [edge_deletion_kept_iff_entitled]{C02,C12} a reference-deletion record received from a peer is kept exactly when its entity and room are known, the entity is not one that defines a room, and the room grants the record's author the needed right at the deletion date; nothing else is added to the result
            final(result)@ == (if edge_del_ok(*self, entry.0, entry.1) { old(result)@.push(entry.0) } else { old(result)@ }),
//@ end

//@ extract src/database/authorisation_service.rs :: impl RoomAuthorisations / fn validate_node_deletions as RoomAuthorisations::validate_node_deletions_body
//@ lift-loop "for entry in nodes" fn validate_node_deletions_body(&self, entry: (Uid, (NodeDeletionEntry, Option<Vec<u8>>)), result: &mut Vec<NodeDeletionEntry>)
//@ insert body-start
        proof { assert(<Vec<u8> as PartialEqSpec<Vec<u8>>>::obeys_eq_spec()); }
//@ spec
        ensures
            // [node_deletion_kept_iff_entitled]{C02,C12}
            final(result)@ == (if node_del_ok(*self, entry.1.0, entry.1.1) { old(result)@.push(entry.1.0) } else { old(result)@ }),
//@ end

// ---- E14 shells: the loops around the two lifted bodies above, verified against the bodies' CONTRACTS (directive `shell`): what the
// functions return is exactly the entitled records, in the order received (references) / every entitled one and nothing else (rows: the
// batch is a HashMap consumed by value, rule E28)
//@ include common/byvalue_iter.rs
/// the records of `s` that are kept, in order
pub open spec fn kept_edge_dels(ra: RoomAuthorisations, s: Seq<(EdgeDeletionEntry, Option<Vec<u8>>)>) -> Seq<EdgeDeletionEntry>
    decreases s.len()
{
    if s.len() == 0 { Seq::empty() }
    else if edge_del_ok(ra, s.last().0, s.last().1) { kept_edge_dels(ra, s.drop_last()).push(s.last().0) }
    else { kept_edge_dels(ra, s.drop_last()) }
}
proof fn lemma_kept_edge_dels_step(ra: RoomAuthorisations, s: Seq<(EdgeDeletionEntry, Option<Vec<u8>>)>, i: int)
    requires 0 <= i < s.len(),
    ensures kept_edge_dels(ra, s.subrange(0, i + 1)) == (if edge_del_ok(ra, s[i].0, s[i].1) { kept_edge_dels(ra, s.subrange(0, i)).push(s[i].0) } else { kept_edge_dels(ra, s.subrange(0, i)) }),
{
    assert(s.subrange(0, i + 1).drop_last() =~= s.subrange(0, i));
    assert(s.subrange(0, i + 1).last() == s[i]);
}
//@ extract src/database/authorisation_service.rs :: impl RoomAuthorisations / fn validate_edge_deletions
//@ result r
//@ shell "for entry in edges" => "proof { lemma_kept_edge_dels_step(*self, it.seq(), it.index@ as int); } self.validate_edge_deletions_body(entry, &mut result);"
//@ loop "for entry in edges" iter it
            invariant
                it.seq() == edges@,
                result@ == kept_edge_dels(*self, it.seq().subrange(0, it.index@ as int)),
//@ insert before-stmt "result" #-1
        proof { assert(edges@.subrange(0, edges@.len() as int) =~= edges@); }
//@ spec
        ensures
            // [reference_deletions_returned_are_exactly_the_entitled_ones]{C02,C12} of a batch of reference-deletion records received from a peer, exactly those that pass the per-record rule are handed on, in the order received: none dropped, none added, none duplicated
            r@ == kept_edge_dels(*self, edges@),
//@ end

/// a row-deletion record of the batch (keyed by row id) that passes the per-record rule
pub open spec fn entitled_node_del(ra: RoomAuthorisations, nodes: Map<Uid, (NodeDeletionEntry, Option<Vec<u8>>)>, e: NodeDeletionEntry) -> bool {
    exists|id: Uid| #![trigger nodes[id]] nodes.contains_key(id) && nodes[id].0 == e && node_del_ok(ra, e, nodes[id].1)
}
proof fn lemma_node_del_step(ra: RoomAuthorisations, nodes: Map<Uid, (NodeDeletionEntry, Option<Vec<u8>>)>, e: (Uid, (NodeDeletionEntry, Option<Vec<u8>>)), old_r: Seq<NodeDeletionEntry>, new_r: Seq<NodeDeletionEntry>)
    requires
        nodes.contains_key(e.0) && nodes[e.0] == e.1,
        new_r == (if node_del_ok(ra, e.1.0, e.1.1) { old_r.push(e.1.0) } else { old_r }),
        forall|x: NodeDeletionEntry| #[trigger] old_r.contains(x) ==> entitled_node_del(ra, nodes, x),
    ensures
        forall|x: NodeDeletionEntry| #[trigger] new_r.contains(x) ==> entitled_node_del(ra, nodes, x),
        forall|x: NodeDeletionEntry| #[trigger] old_r.contains(x) ==> new_r.contains(x),
        node_del_ok(ra, e.1.0, e.1.1) ==> new_r.contains(e.1.0),
{
    if node_del_ok(ra, e.1.0, e.1.1) {
        assert(new_r[old_r.len() as int] == e.1.0);
        assert(entitled_node_del(ra, nodes, e.1.0)) by { assert(nodes[e.0].0 == e.1.0); }
        assert forall|x: NodeDeletionEntry| #[trigger] old_r.contains(x) implies new_r.contains(x) by {
            let j = choose|j: int| 0 <= j < old_r.len() && old_r[j] == x; assert(new_r[j] == x);
        }
        assert forall|x: NodeDeletionEntry| #[trigger] new_r.contains(x) implies entitled_node_del(ra, nodes, x) by {
            let j = choose|j: int| 0 <= j < new_r.len() && new_r[j] == x;
            if j < old_r.len() { assert(old_r[j] == x); assert(old_r.contains(x)); }
        }
    }
}
//@ extract src/database/authorisation_service.rs :: impl RoomAuthorisations / fn validate_node_deletions
//@ result r
//@ attr #[verifier::loop_isolation(false)]
//@ shell "for entry in nodes" => "let ghost e = entry; let ghost old_r = result@; self.validate_node_deletions_body(entry, &mut result); proof { lemma_node_del_step(*self, nodes0, e, old_r, result@); }"
//@ rewrite E28 "for entry in nodes \{" => "for entry in it: map_into_iter(nodes) invariant map_entries_once(nodes0, it.seq()), forall|e: NodeDeletionEntry| #[trigger] result@.contains(e) ==> entitled_node_del(*self, nodes0, e), forall|i: int| 0 <= i < it.index@ && node_del_ok(*self, (#[trigger] it.seq()[i]).1.0, it.seq()[i].1.1) ==> result@.contains(it.seq()[i].1.0), {" x1
//@ insert body-start
        let ghost nodes0 = nodes@;
//@ spec
        ensures
            // [row_deletions_returned_are_only_entitled_ones]{C02,C12} every row-deletion record handed on is a record of the batch that passes the per-record rule
            forall|e: NodeDeletionEntry| #[trigger] r@.contains(e) ==> entitled_node_del(*self, nodes@, e),
            // [every_entitled_row_deletion_is_returned]{C02,C12,C11} and every record of the batch that passes it is handed on: a valid deletion is never lost on the way
            forall|id: Uid| #![trigger nodes@[id]] nodes@.contains_key(id) && node_del_ok(*self, nodes@[id].0, nodes@[id].1) ==> r@.contains(nodes@[id].0),
//@ end

//@ extract src/database/authorisation_service.rs :: impl RoomAuthorisations / fn rooms_for_peer
//@ result r
//@ attr #[verifier::exec_allows_no_decreases_clause]
//@ attr #[verifier::loop_isolation(false)]
//@ loop "for room in &self.rooms" iter it
            invariant
                iter_covers(self.rooms@, it.seq()),
                forall|id: Uid| #[trigger] result@.contains(id) <==>
                    (exists|i: int| 0 <= i < it.index@ && *(#[trigger] it.seq()[i]).0 == id) && self.rooms@.contains_key(id) && spec_room_member(self.rooms@[id], *verifying_key, date),
//@ spec
        ensures
            // [rooms_for_peer_eq_members]{C08} the rooms served to a key are exactly the rooms of which the key is a member at that date
            forall|id: Uid| #[trigger] r@.contains(id) <==> self.rooms@.contains_key(id) && spec_room_member(self.rooms@[id], *verifying_key, date),
//@ end

//@ extract src/database/authorisation_service.rs :: impl RoomAuthorisations / fn add_room
//@ spec
        ensures
            // [add_room_view]
            final(self).rooms@ == old(self).rooms@.insert(room.id, room),
            // [add_room_keeps_table_wf] a room is always stored under its own id
            rooms_wf(*old(self)) ==> rooms_wf(*final(self)),
            final(self).max_node_size == old(self).max_node_size,
//@ end

/// representation invariant of the room table: a room is stored under its own id (established by add_room)
pub closed spec fn rooms_wf(ra: RoomAuthorisations) -> bool {
    forall|k: Uid| #[trigger] ra.rooms@.contains_key(k) ==> ra.rooms@[k].id == k
}
// ================================================================= local path (C01)
pub closed spec fn old_author(t: NodeToMutate) -> Option<Vec<u8>> { match t.old_node { Some(o) => Some(o.verifying_key), None => None } }
/// C01 for one data row submitted through the API (the row is `t.node`, its previous version `t.old_node`):
/// size limit; in the room it enters the caller holds the needed right at the operation's date; and in the room it leaves too
pub closed spec fn spec_local_row_ok(ra: RoomAuthorisations, t: NodeToMutate, caller: Vec<u8>) -> bool {
    t.node is Some ==> (
        (bincode::spec_size(t.node->Some_0) is Some && bincode::spec_size(t.node->Some_0)->Some_0 <= ra.max_node_size)
        && (t.room_id is Some ==>
              ra.rooms@.contains_key(t.room_id->Some_0)
              && spec_can(ra.rooms@[t.room_id->Some_0], caller, t.entity@, t.date, needed(old_author(t), caller))
              && (t.old_node is Some && t.old_node->Some_0.room_id is Some && !(t.old_node->Some_0.room_id->Some_0@ =~= t.room_id->Some_0@) ==>
                    ra.rooms@.contains_key(t.old_node->Some_0.room_id->Some_0)
                    && spec_can(ra.rooms@[t.old_node->Some_0.room_id->Some_0], caller, t.entity@, t.date, needed(old_author(t), caller)))))
}
/// every reference-removal record produced for this entity is for its room
pub closed spec fn logs_in_room(e: InsertEntity, old_len: int) -> bool {
    e.node_to_mutate.room_id is Some ==> forall|i: int| old_len <= i < e.edge_deletions_log@.len() ==> (#[trigger] e.edge_deletions_log@[i]).room_id == e.node_to_mutate.room_id->Some_0
}

//@ use-contract u4_digests.rs :: Node::sign only sign_sets_author,sign_frame
//@ use-contract u4_digests.rs :: EdgeDeletionEntry::build only del_build_fields
//@ use-contract u4_digests.rs :: NodeDeletionEntry::build only del_build_fields

// E8 cut: `for node in &mut deletion_query.updated_nodes { node.sign(&self.signing_key)?; }` (slice IterMut): re-signs the
// re-dated source rows of deleted references.  ASSUMED: touches only `updated_nodes`.
#[verifier::external_body]
pub fn cut_sign_updated_nodes(updated_nodes: &mut Vec<Node>, signing_key: &Ed25519SigningKey) -> (r: Result<()>) { unimplemented!() }

/// "every sub-entity in `subs` went through validate_entity_mutation for caller `key` and none was refused":
/// an uninterpreted fact that only the sub-entity validation loop establishes
pub uninterp spec fn subs_validated(ra: RoomAuthorisations, subs: HashMap<String, Vec<InsertEntity>>, key: Vec<u8>) -> bool;

/// whether the sub-entities of a room mutation demand the room-admin right (an admin entry is present, or some group mutation
/// returned true: see validate_authorisation_mutation): the value computed by the cut loop of validate_room_mutation
pub uninterp spec fn room_change_needs_admin(subs: HashMap<String, Vec<InsertEntity>>, room: Room, key: Vec<u8>) -> bool;

impl RoomAuthorisations {
    // E8 cut: the loop of validate_sub_nodes over `&mut entity_to_mutate.sub_nodes` (HashMap IterMut has no Verus model).  The BODY of
    // the loop is verified (validate_sub_body, rule E14: every sub-entity of the field goes through validate_entity_mutation, none is
    // skipped, the first refusal is propagated).  ASSUMED: std's IterMut visits every entry once and the loop runs that body on each.
    #[verifier::external_body]
    pub fn cut_validate_sub_nodes(&self, sub_nodes: &mut HashMap<String, Vec<InsertEntity>>, verifying_key: &Vec<u8>, rooms: &mut Vec<Room>) -> (r: Result<()>)
        ensures r is Ok ==> subs_validated(*self, *old(sub_nodes), *verifying_key),
    { unimplemented!() }
    // E8 cut: the loop of validate_room_mutation over `&mut insert_entity.sub_nodes` (admin entries, groups; HashMap IterMut).
    // The BODY of the loop is verified (room_sub_body, rule E14).  ASSUMED: std's IterMut visits every entry once and the loop runs that
    // body on each, stopping at the first error; the third clause is the composition of the body's postcondition
    // [no_admin_part_change_without_the_room_admin_right] over the entries (admin_part_same is reflexive and transitive:
    // L_admin_part_same_composes).
    #[verifier::external_body]
    pub fn cut_room_sub_nodes(&self, sub_nodes: &mut HashMap<String, Vec<InsertEntity>>, room: &mut Room, verifying_key: &Vec<u8>) -> (r: Result<bool>)
        ensures final(room).id == old(room).id,
            r is Ok ==> r->Ok_0 == room_change_needs_admin(*old(sub_nodes), *old(room), *verifying_key),
            r is Ok && !r->Ok_0 ==> admin_part_same(*old(room), *final(room)),
    { unimplemented!() }
}

/// what the validation of ONE nested entity establishes (it is the contract of validate_entity_mutation, seen from the loop over a field)
pub open spec fn sub_entity_validated(ra: RoomAuthorisations, e: InsertEntity, key: Vec<u8>) -> bool {
    !is_auth_entity(e.node_to_mutate.entity@)
    && (e.node_to_mutate.entity@ != system_entities::ROOM_ENT@ ==> spec_local_row_ok(ra, e.node_to_mutate, key) && subs_validated(ra, e.sub_nodes, key))
}
//@ extract src/database/authorisation_service.rs :: impl RoomAuthorisations / fn validate_sub_nodes
//@ result r
//@ cut "for entry in &mut entity_to_mutate.sub_nodes" => "self.cut_validate_sub_nodes(&mut entity_to_mutate.sub_nodes, verifying_key, rooms)?;" body-verified
//@ spec
        requires rooms_wf(*self),
        ensures
            // [nested_entities_all_validated] on success every nested entity went through validate_entity_mutation (composition of the verified loop body over the fields: assumed of IterMut)
            r is Ok ==> subs_validated(*self, old(entity_to_mutate).sub_nodes, *verifying_key),
            final(entity_to_mutate).node_to_mutate == old(entity_to_mutate).node_to_mutate,
            final(entity_to_mutate).edge_deletions == old(entity_to_mutate).edge_deletions,
            final(entity_to_mutate).edge_deletions_log == old(entity_to_mutate).edge_deletions_log,
//@ end

//@ extract src/database/authorisation_service.rs :: impl RoomAuthorisations / fn validate_sub_nodes as RoomAuthorisations::validate_sub_body
//@ lift-loop "for entry in &mut entity_to_mutate.sub_nodes" :: fn validate_sub_body(&self, entry: (&String, &mut Vec<InsertEntity>), verifying_key: &Vec<u8>, rooms: &mut Vec<Room>) -> (r: Result<()>) tail "Ok(())"
//@ attr #[verifier::loop_isolation(false)]
//@ attr #[verifier::exec_allows_no_decreases_clause]
//@ rewrite E17 "(?<=for insert_entity in )entry\.1(?= \{)" => "entry.1.iter_mut()" x1
//@ insert body-start
        let ghost l0 = entry.1@;
//@ loop "for insert_entity in" iter it
                invariant
                    it.seq().len() == l0.len(),
                    forall|i: int| 0 <= i < it.seq().len() ==> *(#[trigger] it.seq()[i]) == l0[i],
                    // [nested_entities_validated_so_far]{C01,C12} every nested entity seen so far - whether or not it carries a row of its own - went through the validation
                    forall|i: int| 0 <= i < it.index@ ==> sub_entity_validated(*self, #[trigger] l0[i], *verifying_key),
//@ spec
        requires rooms_wf(*self),
        ensures
            // [no_nested_entity_skips_the_validation]{C01,C12} a field of nested entities is accepted only if EVERY entity under it passed validate_entity_mutation: one that is a pure reference (no row of its own) included, because the entities nested under IT are reached through it
            r is Ok ==> forall|i: int| 0 <= i < old(entry.1)@.len() ==> sub_entity_validated(*self, #[trigger] old(entry.1)@[i], *verifying_key),
//@ end

//@ extract src/database/authorisation_service.rs :: impl RoomAuthorisations / fn validate_entity_mutation
//@ result r
//@ attr #[verifier::loop_isolation(false)]
//@ insert body-start
        proof {
            assert(<Vec<u8> as PartialEqSpec<Vec<u8>>>::obeys_eq_spec());
            assert(<[u8; 16] as PartialEqSpec<[u8; 16]>>::obeys_eq_spec());
        }
//@ loop "for edge_deletion in &entity_to_mutate.edge_deletions" #1 iter it
            invariant
                entity_to_mutate.node_to_mutate == old(entity_to_mutate).node_to_mutate,
                entity_to_mutate.edge_deletions == old(entity_to_mutate).edge_deletions,
                entity_to_mutate.sub_nodes == old(entity_to_mutate).sub_nodes,
                logs_in_room(*entity_to_mutate, old(entity_to_mutate).edge_deletions_log@.len() as int),
                entity_to_mutate.edge_deletions_log@.len() == old(entity_to_mutate).edge_deletions_log@.len() + it.index@,
//@ loop "for edge_deletion in &entity_to_mutate.edge_deletions" #2 iter it
            invariant
                entity_to_mutate.node_to_mutate == old(entity_to_mutate).node_to_mutate,
                entity_to_mutate.edge_deletions == old(entity_to_mutate).edge_deletions,
                entity_to_mutate.sub_nodes == old(entity_to_mutate).sub_nodes,
                logs_in_room(*entity_to_mutate, old(entity_to_mutate).edge_deletions_log@.len() as int),
                entity_to_mutate.edge_deletions_log@.len() == old(entity_to_mutate).edge_deletions_log@.len() + it.index@,
//@ spec
        requires rooms_wf(*self),
        ensures
            // [no_direct_authorisation_write]{C01} authorisation rows are never changed outside a room mutation
            r is Ok ==> !is_auth_entity(old(entity_to_mutate).node_to_mutate.entity@),
            // [local_row_needs_right_in_both_rooms]{C01,C12} a data row is accepted only with the needed right at the operation's date in the room it enters and in the room it leaves
            r is Ok && old(entity_to_mutate).node_to_mutate.entity@ != system_entities::ROOM_ENT@
                ==> spec_local_row_ok(*self, old(entity_to_mutate).node_to_mutate, *verifying_key),
            // [sub_entities_validated]{C01} nested mutations are never skipped: on success every sub-entity went through the same validation
            r is Ok && old(entity_to_mutate).node_to_mutate.entity@ != system_entities::ROOM_ENT@
                ==> subs_validated(*self, old(entity_to_mutate).sub_nodes, *verifying_key),
            // [row_unchanged_by_validation]{C01,C06} validation does not alter the row being validated (a room row included): what was signed is what is written
            final(entity_to_mutate).node_to_mutate == old(entity_to_mutate).node_to_mutate,
            old(entity_to_mutate).node_to_mutate.entity@ != system_entities::ROOM_ENT@ ==> final(entity_to_mutate).edge_deletions == old(entity_to_mutate).edge_deletions,
            // [removal_records_in_row_room]{C01,C09} one reference-removal record per removed reference, each for the row's room
            r is Ok && old(entity_to_mutate).node_to_mutate.entity@ != system_entities::ROOM_ENT@
                ==> logs_in_room(*final(entity_to_mutate), old(entity_to_mutate).edge_deletions_log@.len() as int),
            // [entity_kind_unchanged_by_validation] validation never turns an entity into another kind
            final(entity_to_mutate).node_to_mutate.entity == old(entity_to_mutate).node_to_mutate.entity,
//@ end

pub closed spec fn vk_of(ra: RoomAuthorisations) -> Vec<u8> { vec_of(ra.signing_key.spec_vk()) }
pub closed spec fn own(author: Vec<u8>, caller: Seq<u8>) -> RightType { if author@ =~= caller { RightType::MutateSelf } else { RightType::MutateAll } }
/// C01 / C12 for one row named in a deletion: not a system entity; if it belongs to a room, the room is known and grants the
/// caller the needed right (own-rows right for rows the caller authored, all-rows right otherwise) at the date `t` that is
/// recorded in the signed deletion record - the very date at which peers check the record
pub closed spec fn node_delete_ok(ra: RoomAuthorisations, nd: NodeDelete, t: i64) -> bool {
    !is_system_entity(nd.name@)
    && (nd.node.room_id is Some ==> ra.rooms@.contains_key(nd.node.room_id->Some_0)
          && spec_can(ra.rooms@[nd.node.room_id->Some_0], vk_of(ra), nd.name@,
                      t,
                      own(nd.node.verifying_key, ra.signing_key.spec_vk())))
}
pub closed spec fn edge_delete_ok(ra: RoomAuthorisations, ed: EdgeDelete, t: i64) -> bool {
    // the entity NAME of the source row (`src_name`; `edge.src_entity` is the short storage identifier)
    !is_system_entity(ed.src_name@)
    && (ed.room_id is Some ==> ra.rooms@.contains_key(ed.room_id->Some_0)
          && spec_can(ra.rooms@[ed.room_id->Some_0], vk_of(ra), ed.src_name@,
                      t,
                      own(ed.edge.verifying_key, ra.signing_key.spec_vk()))
          // removing a reference re-dates and re-signs its SOURCE ROW (DeletionQuery.updated_nodes): the caller must hold the right
          // to change that row (own-rows right when it authored the row, all-rows right otherwise) at the date signed for the row
          && spec_can(ra.rooms@[ed.room_id->Some_0], vk_of(ra), ed.src_name@,
                      ed.date,
                      own(ed.src_author, ra.signing_key.spec_vk())))
}
/// every deletion record appended by this call is signed by the caller, dated `t`, and names a room of some row of the request
pub closed spec fn node_log_ok(ra: RoomAuthorisations, e: NodeDeletionEntry, t: i64) -> bool {
    e.deletion_date == t && e.verifying_key@ == ra.signing_key.spec_vk()
}
pub closed spec fn edge_log_ok(ra: RoomAuthorisations, e: EdgeDeletionEntry, t: i64) -> bool {
    e.deletion_date == t && e.verifying_key@ == ra.signing_key.spec_vk()
}
pub closed spec fn deletion_ok(ra: RoomAuthorisations, old_q: DeletionQuery, new_q: DeletionQuery, t: i64) -> bool {
    (forall|i: int| 0 <= i < old_q.nodes@.len() ==> node_delete_ok(ra, #[trigger] old_q.nodes@[i], t))
    && (forall|i: int| 0 <= i < old_q.edges@.len() ==> edge_delete_ok(ra, #[trigger] old_q.edges@[i], t))
    && (forall|k: int| old_q.node_log@.len() <= k < new_q.node_log@.len() ==> node_log_ok(ra, #[trigger] new_q.node_log@[k], t))
    && (forall|k: int| old_q.edge_log@.len() <= k < new_q.edge_log@.len() ==> edge_log_ok(ra, #[trigger] new_q.edge_log@[k], t))
}

/// the deletion record `e` is the record of the deleted row `nd` / of the removed reference `ed`
pub open spec fn node_rec_of(e: NodeDeletionEntry, nd: NodeDelete) -> bool { nd.node.room_id is Some && e.room_id == nd.node.room_id->Some_0 && e.id == nd.node.id && e.mdate == nd.node.mdate }
pub open spec fn edge_rec_of(e: EdgeDeletionEntry, ed: EdgeDelete) -> bool { ed.room_id is Some && e.room_id == ed.room_id->Some_0 && e.src == ed.edge.src && e.dest == ed.edge.dest && e.label@ == ed.edge.label@ && e.cdate == ed.edge.cdate }
/// (the `exists` is hidden in a spec function: DESIGN section 10)
pub open spec fn node_recorded(nd: NodeDelete, log: Seq<NodeDeletionEntry>, from: int) -> bool { exists|k: int| from <= k < log.len() && node_rec_of(#[trigger] log[k], nd) }
pub open spec fn edge_recorded(ed: EdgeDelete, log: Seq<EdgeDeletionEntry>, from: int) -> bool { exists|k: int| from <= k < log.len() && edge_rec_of(#[trigger] log[k], ed) }
/// the first `n` rows (references) named for deletion that belong to a room have their record in the log, past position `from`
pub open spec fn nodes_recorded(nodes: Seq<NodeDelete>, n: int, log: Seq<NodeDeletionEntry>, from: int) -> bool {
    forall|i: int| 0 <= i < n && (#[trigger] nodes[i]).node.room_id is Some ==> node_recorded(nodes[i], log, from)
}
pub open spec fn edges_recorded(edges: Seq<EdgeDelete>, n: int, log: Seq<EdgeDeletionEntry>, from: int) -> bool {
    forall|i: int| 0 <= i < n && (#[trigger] edges[i]).room_id is Some ==> edge_recorded(edges[i], log, from)
}
broadcast proof fn lemma_nodes_recorded_push(nodes: Seq<NodeDelete>, n: int, log: Seq<NodeDeletionEntry>, from: int, e: NodeDeletionEntry)
    requires #[trigger] nodes_recorded(nodes, n, log, from), 0 <= from <= log.len(), 0 <= n < nodes.len(),
    ensures nodes_recorded(nodes, n, #[trigger] log.push(e), from), node_rec_of(e, nodes[n]) ==> nodes_recorded(nodes, n + 1, log.push(e), from),
{
    let l2 = log.push(e);
    assert forall|i: int| 0 <= i < n && (#[trigger] nodes[i]).node.room_id is Some implies node_recorded(nodes[i], l2, from) by {
        assert(node_recorded(nodes[i], log, from));
        let k = choose|k: int| from <= k < log.len() && node_rec_of(#[trigger] log[k], nodes[i]);
        assert(l2[k] == log[k]);
    }
    if node_rec_of(e, nodes[n]) { assert(l2[log.len() as int] == e); assert(node_recorded(nodes[n], l2, from)); }
}
broadcast proof fn lemma_edges_recorded_push(edges: Seq<EdgeDelete>, n: int, log: Seq<EdgeDeletionEntry>, from: int, e: EdgeDeletionEntry)
    requires #[trigger] edges_recorded(edges, n, log, from), 0 <= from <= log.len(), 0 <= n < edges.len(),
    ensures edges_recorded(edges, n, #[trigger] log.push(e), from), edge_rec_of(e, edges[n]) ==> edges_recorded(edges, n + 1, log.push(e), from),
{
    let l2 = log.push(e);
    assert forall|i: int| 0 <= i < n && (#[trigger] edges[i]).room_id is Some implies edge_recorded(edges[i], l2, from) by {
        assert(edge_recorded(edges[i], log, from));
        let k = choose|k: int| from <= k < log.len() && edge_rec_of(#[trigger] log[k], edges[i]);
        assert(l2[k] == log[k]);
    }
    if edge_rec_of(e, edges[n]) { assert(l2[log.len() as int] == e); assert(edge_recorded(edges[n], l2, from)); }
}
//@ extract src/database/authorisation_service.rs :: impl RoomAuthorisations / fn validate_deletion
//@ result r
//@ attr #[verifier::loop_isolation(false)]
//@ insert body-start
        proof {
            assert(<Vec<u8> as PartialEqSpec<Vec<u8>>>::obeys_eq_spec());
            assert(<[u8; 16] as PartialEqSpec<[u8; 16]>>::obeys_eq_spec());
        }
        broadcast use {lemma_nodes_recorded_push, lemma_edges_recorded_push};
//@ rewrite E17 "(?<=for node in )&mut deletion_query\.updated_nodes(?= \{)" => "deletion_query.updated_nodes.iter_mut()" x1
//@ loop "for node in &mut deletion_query.updated_nodes" iter itu
            invariant
                deletion_query.nodes == old(deletion_query).nodes, deletion_query.edges == old(deletion_query).edges,
                deletion_query.edge_log == old(deletion_query).edge_log,
                verifying_key@ == self.signing_key.spec_vk(),
                forall|i: int| 0 <= i < old(deletion_query).nodes@.len() ==> node_delete_ok(*self, #[trigger] old(deletion_query).nodes@[i], now),
                forall|k: int| old(deletion_query).node_log@.len() <= k < deletion_query.node_log@.len() ==> node_log_ok(*self, #[trigger] deletion_query.node_log@[k], now),
                deletion_query.node_log@.len() >= old(deletion_query).node_log@.len(),
                nodes_recorded(deletion_query.nodes@, deletion_query.nodes@.len() as int, deletion_query.node_log@, old(deletion_query).node_log@.len() as int),
                // [rewritten_rows_resigned_by_caller]{C06,C01} every source row re-dated by a reference removal is re-signed: its stated author becomes the caller
                forall|i: int| 0 <= i < itu.index@ ==> final(#[trigger] itu.seq()[i]).verifying_key@ == self.signing_key.spec_vk(),
//@ insert before-stmt "deletion_query.node_log.push(log_entry)"
                                // [node_record_for_checked_row]{C01,C12} the signed record names the row that was just checked, in the room whose rights were consulted
                                assert(log_entry.room_id == node.node.room_id->Some_0 && log_entry.id == node.node.id && log_entry.mdate == node.node.mdate && log_entry.entity@ == node.node._entity@);
//@ insert before-stmt "deletion_query.edge_log.push(log_entry)"
                                // [edge_record_for_checked_ref]{C01,C12}
                                assert(log_entry.room_id == edge.room_id->Some_0 && log_entry.src == edge.edge.src && log_entry.dest == edge.edge.dest && log_entry.label@ == edge.edge.label@ && log_entry.cdate == edge.edge.cdate);
//@ insert before-text "Ok(())"
        proof { assert(deletion_ok(*self, *old(deletion_query), *deletion_query, now)); }
//@ loop "for node in &deletion_query.nodes" iter it
            invariant
                deletion_query.nodes == old(deletion_query).nodes, deletion_query.edges == old(deletion_query).edges,
                deletion_query.edge_log == old(deletion_query).edge_log,
                verifying_key@ == self.signing_key.spec_vk(),
                forall|i: int| 0 <= i < it.index@ ==> node_delete_ok(*self, #[trigger] deletion_query.nodes@[i], now),
                forall|k: int| old(deletion_query).node_log@.len() <= k < deletion_query.node_log@.len() ==> node_log_ok(*self, #[trigger] deletion_query.node_log@[k], now),
                deletion_query.node_log@.len() >= old(deletion_query).node_log@.len(),
                // [deleted_rows_recorded_so_far]{C11,C09,C01}
                nodes_recorded(deletion_query.nodes@, it.index@ as int, deletion_query.node_log@, old(deletion_query).node_log@.len() as int),
//@ loop "for edge in &deletion_query.edges" iter it
            invariant
                deletion_query.nodes == old(deletion_query).nodes, deletion_query.edges == old(deletion_query).edges,
                verifying_key@ == self.signing_key.spec_vk(),
                forall|i: int| 0 <= i < it.index@ ==> edge_delete_ok(*self, #[trigger] deletion_query.edges@[i], now),
                forall|k: int| old(deletion_query).edge_log@.len() <= k < deletion_query.edge_log@.len() ==> edge_log_ok(*self, #[trigger] deletion_query.edge_log@[k], now),
                deletion_query.edge_log@.len() >= old(deletion_query).edge_log@.len(),
                deletion_query.node_log == node_log_after,
                // [removed_references_recorded_so_far]{C11,C09,C01}
                edges_recorded(deletion_query.edges@, it.index@ as int, deletion_query.edge_log@, old(deletion_query).edge_log@.len() as int),
//@ insert before-stmt "for edge in &deletion_query.edges"
        let ghost node_log_after = deletion_query.node_log;
//@ spec
        requires rooms_wf(*self),
        ensures
            // [deletion_needs_right]{C01,C12} Ok only if no system entity is named and, for some validation date t, every row and reference of a room may be deleted by the caller (own-rows right for what the caller authored, all-rows right otherwise, at t), the source row of every removed reference may be changed by the caller at the date signed for it, and every record produced is signed by the caller and dated t
            r is Ok ==> exists|t: i64| deletion_ok(*self, *old(deletion_query), *final(deletion_query), t),
            // [every_deleted_row_and_removed_reference_gets_its_record]{C11,C09,C01} an accepted deletion produces, for every row of a room it deletes and every reference of a room it removes, the signed deletion record of exactly that row (room, id, version) / that reference: the record is what makes the deletion reach the peers, stay deleted, and mark the day
            r is Ok ==> nodes_recorded(old(deletion_query).nodes@, old(deletion_query).nodes@.len() as int, final(deletion_query).node_log@, old(deletion_query).node_log@.len() as int)
                && edges_recorded(old(deletion_query).edges@, old(deletion_query).edges@.len() as int, final(deletion_query).edge_log@, old(deletion_query).edge_log@.len() as int),
            // [rewritten_rows_resigned]{C06,C01} every row rewritten by the deletion carries the caller as its stated author (it is re-signed by the caller)
            r is Ok ==> forall|i: int| 0 <= i < final(deletion_query).updated_nodes@.len() ==> (#[trigger] final(deletion_query).updated_nodes@[i]).verifying_key@ == self.signing_key.spec_vk(),
            // [deletion_frame] the rows named for deletion are not altered by validation
            final(deletion_query).nodes == old(deletion_query).nodes && final(deletion_query).edges == old(deletion_query).edges,
//@ end

//@ include common/deletion_spec.rs
//@ obligation L_resigned_source_row_was_authorised props C01 : a source row that a deletion re-dates and re-signs (unit u2c_deletion_build: it is re-dated only together with a removed reference that records the row's author, room and new date) is one the caller may change: by validate_deletion's postcondition the room grants the caller the own-rows right (rows it authored) or the all-rows right (rows of someone else) on the row's entity at the date signed for the row
pub proof fn L_resigned_source_row_was_authorised(ra: RoomAuthorisations, q0: DeletionQuery, q1: DeletionQuery, t: i64, k: int, row: Node, name: Seq<char>, date: i64)
    requires
        deletion_ok(ra, q0, q1, t),                                  // validate_deletion answered Ok
        0 <= k < q0.edges@.len(), edge_of_row(q0.edges@[k], row, name, date),   // DeletionQuery::build prepared a removal of a reference of `row`
        row.room_id is Some,
    ensures
        !is_system_entity(name),
        ra.rooms@.contains_key(row.room_id->Some_0),
        spec_can(ra.rooms@[row.room_id->Some_0], vk_of(ra), name, date, own(row.verifying_key, ra.signing_key.spec_vk())),
{
    assert(edge_delete_ok(ra, q0.edges@[k], t));
}

//@ obligation L_reference_removal_accepted_locally_is_accepted_by_peers props C12 : the source row that a locally accepted reference removal re-dates and re-signs is accepted by validate_node on every peer holding the same room definitions and the previous version of the row (same room, date = the date signed for the row, author = caller, same entity; the content, hence the size, is that of the stored row): before fix dbeabeb the local path accepted removals whose re-signed row every peer refused
pub proof fn L_reference_removal_accepted_locally_is_accepted_by_peers(ra: RoomAuthorisations, peer: RoomAuthorisations, q0: DeletionQuery, q1: DeletionQuery, t: i64, k: int, row: Node, name: Seq<char>, date: i64, n: NodeToInsert)
    requires
        deletion_ok(ra, q0, q1, t),
        0 <= k < q0.edges@.len(), edge_of_row(q0.edges@[k], row, name, date), row.room_id is Some,
        peer.rooms@ == ra.rooms@, peer.max_node_size == ra.max_node_size,        // honest peer, same room definitions and limit
        n.node is Some,                                                          // the peer receives the row as re-signed: same room, re-dated, authored by the caller
        n.node->Some_0.room_id == row.room_id, n.node->Some_0.mdate == date, n.node->Some_0.verifying_key@ == ra.signing_key.spec_vk(),
        bincode::spec_size(n.node->Some_0) is Some && bincode::spec_size(n.node->Some_0)->Some_0 <= peer.max_node_size,   // content unchanged: the size the stored version had
        n.entity_name is Some, n.entity_name->Some_0@ == name,
        n.old_verifying_key == Some(row.verifying_key), n.old_room_id == row.room_id,   // the peer holds the previous version
    ensures
        spec_validate_node(peer, n),
{
    assert(edge_delete_ok(ra, q0.edges@[k], t));
    assert(n.node->Some_0.verifying_key@ =~= vk_of(ra)@);
}

// ================================================================= the shell around the local verdicts and the hand-over to the writer (C01)
pub struct MutationParser { x: u8 }
//@ extract src/database/mutation_query.rs :: struct MutationQuery
//@ rewrite E3 "Arc<MutationParser>" => "Box<MutationParser>" x1
//@ end
impl MutationQuery {
    /// signs every row and reference of the mutation with the caller's key (Node::sign / Edge::sign are under contract in u4_digests)
    /// contract: the top-level part of what unit u4b_sign_all proves of the real function (`tree_signed` of every entity); `row_signed`
    /// is a fact only this contract establishes
    #[verifier::external_body]
    pub fn sign_all(&mut self, signing_key: &Ed25519SigningKey) -> (r: Result<()>)
        ensures
            final(self).mutate_entities@.len() == old(self).mutate_entities@.len(),
            r is Ok ==> forall|i: int| 0 <= i < final(self).mutate_entities@.len() ==> row_signed(#[trigger] final(self).mutate_entities@[i].node_to_mutate, *signing_key),
    { unimplemented!() }
}
/// the prepared row went through a successful sign_all with this key (the row and everything under it: unit u4b_sign_all)
pub uninterp spec fn row_signed(n: NodeToMutate, k: Ed25519SigningKey) -> bool;
pub open spec fn mutation_rows_signed(ra: RoomAuthorisations, mq: MutationQuery) -> bool {
    forall|i: int| 0 <= i < mq.mutate_entities@.len() ==> row_signed(#[trigger] mq.mutate_entities@[i].node_to_mutate, ra.signing_key)
}
/// what validate_entity_mutation establishes for one top-level entity of a mutation, as it goes on to the writer
pub open spec fn entity_validated(ra: RoomAuthorisations, e: InsertEntity) -> bool {
    !is_auth_entity(e.node_to_mutate.entity@)
    && (e.node_to_mutate.entity@ != system_entities::ROOM_ENT@ ==> spec_local_row_ok(ra, e.node_to_mutate, vk_of(ra)))
}
pub open spec fn mutation_validated(ra: RoomAuthorisations, mq: MutationQuery) -> bool {
    forall|i: int| 0 <= i < mq.mutate_entities@.len() ==> entity_validated(ra, #[trigger] mq.mutate_entities@[i])
}

/// `v.iter().any(f)` (rule E20: the std call is replaced by this stub): std semantics - whether the closure accepts some element
#[verifier::external_body]
pub fn vec_any<T, F: Fn(&T) -> bool>(v: &Vec<T>, f: F) -> (r: bool)
    requires forall|x: &T| #[trigger] f.requires((x,)),
    ensures
        r ==> exists|k: int| 0 <= k < v@.len() && f.ensures((&#[trigger] v@[k],), true),
        !r ==> forall|k: int| 0 <= k < v@.len() ==> f.ensures((&#[trigger] v@[k],), false),
{ unimplemented!() }
pub open spec fn distinct_rooms(rooms: Seq<Room>) -> bool { forall|i: int, j: int| 0 <= i < j < rooms.len() ==> !((#[trigger] rooms[i]).id =~= (#[trigger] rooms[j]).id) }
//@ extract src/database/authorisation_service.rs :: impl RoomAuthorisations / fn validate_mutation
//@ result r
//@ attr #[verifier::loop_isolation(false)]
//@ rewrite E17 "(?<=for insert_entity in )&mut mutation_query\.mutate_entities(?= \{)" => "mutation_query.mutate_entities.iter_mut()" x1
//@ loop "for insert_entity in" iter it
            invariant
                *self == *old(self), verifying_key == vk_of(*self),
                forall|i: int| 0 <= i < it.index@ ==> entity_validated(*self, *final(#[trigger] it.seq()[i])),
                forall|i: int| 0 <= i < it.index@ ==> final(#[trigger] it.seq()[i]).node_to_mutate == it.seq()[i].node_to_mutate,
                distinct_rooms(rooms@),
//@ insert after-stmt "let verifying_key = self.signing_key.export_verifying_key();"
        proof { assert(verifying_key@ =~= vk_of(*self)@); assert(<[u8; 16] as PartialEqSpec<[u8; 16]>>::obeys_eq_spec()); }
//@ rewrite E20 "rooms\.iter\(\)\.any\(" => "vec_any(&rooms, " x1
//@ closure "|r: &Room|"
                    ensures b == (r.id =~= room.id)
//@ loop "for room in rooms_ent" iter itr
            invariant
                *self == *old(self), verifying_key == vk_of(*self),
                forall|i: int| 0 <= i < it.index@ + 1 ==> entity_validated(*self, *final(#[trigger] it.seq()[i])),
                forall|i: int| 0 <= i < it.index@ + 1 ==> final(#[trigger] it.seq()[i]).node_to_mutate == it.seq()[i].node_to_mutate,
                distinct_rooms(rooms@),
//@ spec
        requires rooms_wf(*old(self)),
        ensures
            *final(self) == *old(self),
            // [one_definition_per_room_of_an_accepted_mutation]{C01,C10} the definitions an accepted mutation hands on for the in-memory room table are of pairwise different rooms: each is the stored room changed by ONE entry, so two of the same room could not both be kept
            r is Ok ==> distinct_rooms(r->Ok_0@),
            // [every_entity_of_an_accepted_mutation_was_validated]{C01,C12} a mutation is accepted only if every one of its top-level entities passed validate_entity_mutation (no entity is skipped, the first refusal refuses the whole mutation); nested entities: see sub_entities_validated
            r is Ok ==> mutation_validated(*old(self), *final(mutation_query)),
            // [rows_of_an_accepted_mutation_were_signed_with_the_users_key]{C06} every row of a mutation that goes on to the writer went through a successful sign_all with the instance's own key, and is the row that was signed: a failure to sign refuses the mutation, the validation that follows alters no row
            r is Ok ==> mutation_rows_signed(*old(self), *final(mutation_query)),
//@ end

pub struct SendErr { x: u8 }
pub struct ReplySender<T> { x: Option<T> }
impl<T> ReplySender<T> {
    #[verifier::external_body]
    pub fn send(self, t: T) -> (r: std::result::Result<(), SendErr>) { unimplemented!() }
}
pub struct AuthSender { x: u8 }
impl AuthSender {
    #[verifier::external_body]
    pub fn clone(&self) -> (r: AuthSender) { unimplemented!() }
}
pub struct RoomMutationWriteQuery { pub room_list: HashSet<Uid>, pub mutation_query: MutationQuery, pub reply: ReplySender<Result<MutationQuery>> }
pub struct StreamSender<T> { x: Option<T> }
impl<T> StreamSender<T> {
    #[verifier::external_body]
    pub async fn send(&self, t: T) -> (r: std::result::Result<(), SendErr>) { unimplemented!() }
}
pub struct RoomMutationStreamWriteQuery { pub room_list: HashSet<Uid>, pub mutation_query: MutationQuery, pub reply: StreamSender<Result<MutationQuery>> }
pub enum WriteMessage {
    Deletion(DeletionQuery, ReplySender<Result<DeletionQuery>>),
    Mutation(MutationQuery, ReplySender<Result<MutationQuery>>),
    RoomMutation(RoomMutationWriteQuery, AuthSender),
    MutationStream(MutationQuery, StreamSender<Result<MutationQuery>>),
    RoomMutationStream(RoomMutationStreamWriteQuery, AuthSender),
    Nodes(Vec<NodeToInsert>, Vec<Uid>, ReplySender<Result<Vec<Uid>>>),
    Edges(Vec<Edge>, Vec<Uid>, ReplySender<Result<Vec<Uid>>>),
    DeleteEdges(Vec<EdgeDeletionEntry>, ReplySender<Result<()>>),
    DeleteNodes(Vec<NodeDeletionEntry>, ReplySender<Result<()>>),
}
/// the message was handed to the batch writer: a fact only the writer's contract establishes
pub uninterp spec fn sent_to_writer(m: WriteMessage) -> bool;
/// the batch writer: what it REQUIRES of a local write is the property's "refused operations change nothing" seen from the caller
pub struct BufferedDatabaseWriter { x: u8 }
pub open spec fn wm_deletion(m: WriteMessage) -> DeletionQuery { match m { WriteMessage::Deletion(q, _) => q, _ => arbitrary() } }
pub open spec fn wm_query(m: WriteMessage) -> MutationQuery { match m { WriteMessage::Mutation(q, _) => q, WriteMessage::RoomMutation(q, _) => q.mutation_query, WriteMessage::MutationStream(q, _) => q, WriteMessage::RoomMutationStream(q, _) => q.mutation_query, _ => arbitrary() } }
impl BufferedDatabaseWriter {
    #[verifier::external_body]
    pub async fn send(&self, msg: WriteMessage) -> (r: std::result::Result<(), SendErr>) ensures sent_to_writer(msg) { unimplemented!() }
}

//@ extract src/database/authorisation_service.rs :: impl AuthorisationService / fn process_message as AuthorisationService::lifted_local_mutation
//@ lift "AuthorisationMessage::Mutation(mut mutation_query, reply) =>" :: async fn lifted_local_mutation(mutation_query0: MutationQuery, reply: ReplySender<Result<MutationQuery>>, auth: &mut RoomAuthorisations, database_writer: &BufferedDatabaseWriter, self_sender: &AuthSender)
//@ attr #[verifier::exec_allows_no_decreases_clause]
//@ insert body-start
                let mut mutation_query = mutation_query0;   // E9: `mut mutation_query` of the match arm
//@ attr #[verifier::loop_isolation(false)]
//@ insert-each before-stmt "let _ = database_writer.send(query).await;"
                            // [only_validated_mutations_reach_the_writer]{C01,C12} a local mutation is handed to the writer only after validate_mutation accepted it, and it is the validated query that is handed over
                            assert(mutation_validated(*auth, wm_query(query)));
                            // [only_signed_mutations_reach_the_writer]{C06} and every row of it was signed with the instance's own key
                            assert(mutation_rows_signed(*auth, wm_query(query)));
                            // [room_table_untouched_until_the_write_is_acknowledged]{C13,C01} a mutation that changes a room is handed to the writer with the in-memory room table as it was: the new definitions are installed only when the write is acknowledged (the RoomMutationWrite arm, unit u13_events), so a write reported failed leaves no visible effect
                            assert(*auth == *old(auth));
//@ spec
        requires rooms_wf(*old(auth)),
//@ end

//@ extract src/database/authorisation_service.rs :: impl AuthorisationService / fn process_message as AuthorisationService::lifted_local_mutation_stream
//@ lift "AuthorisationMessage::MutationStream(mut mutation_query, reply) =>" :: async fn lifted_local_mutation_stream(mutation_query0: MutationQuery, reply: StreamSender<Result<MutationQuery>>, auth: &mut RoomAuthorisations, database_writer: &BufferedDatabaseWriter, self_sender: &AuthSender)
//@ attr #[verifier::exec_allows_no_decreases_clause]
//@ insert body-start
                let mut mutation_query = mutation_query0;   // E9: `mut mutation_query` of the match arm
//@ attr #[verifier::loop_isolation(false)]
//@ insert-each before-stmt "let _ = database_writer.send(query).await;"
                            // [only_validated_streamed_mutations_reach_the_writer]{C01,C12} a mutation of a mutation stream is handed to the writer only after validate_mutation accepted it
                            assert(mutation_validated(*auth, wm_query(query)));
                            // [only_signed_streamed_mutations_reach_the_writer]{C06} and every row of it was signed with the instance's own key
                            assert(mutation_rows_signed(*auth, wm_query(query)));
                            // [room_table_untouched_until_the_streamed_write_is_acknowledged]{C13,C01} the same for a mutation of a mutation stream
                            assert(*auth == *old(auth));
//@ spec
        requires rooms_wf(*old(auth)),
//@ end

//@ extract src/database/authorisation_service.rs :: impl AuthorisationService / fn process_message as AuthorisationService::lifted_local_deletion
//@ lift "AuthorisationMessage::Deletion(mut deletion_query, reply) =>" :: async fn lifted_local_deletion(deletion_query0: DeletionQuery, reply: ReplySender<Result<DeletionQuery>>, auth: &mut RoomAuthorisations, database_writer: &BufferedDatabaseWriter)
//@ insert body-start
                let mut deletion_query = deletion_query0;   // E9: `mut deletion_query` of the match arm
                let ghost dq0 = deletion_query;
//@ insert-each before-stmt "let _ = database_writer.send(query).await;"
                        // [only_validated_deletions_reach_the_writer]{C01,C12} a local deletion is handed to the writer only after validate_deletion accepted it, and it is the validated deletion that is handed over
                        assert(exists|t: i64| deletion_ok(*auth, dq0, wm_deletion(query), t)) by { assert(wm_deletion(query) == deletion_query); }
//@ spec
        requires rooms_wf(*old(auth)),
//@ end

// ================================================================= C12: the two paths agree (a lemma over the two contracts)
//@ obligation L_local_accept_implies_peer_accept props C12 : a data row accepted locally (validate_entity_mutation's postcondition) is accepted by validate_node on every peer holding the same room definitions, when the peer receives the row as written (same room, date = operation date, author = caller, same entity) and holds the same previous version
pub proof fn L_local_accept_implies_peer_accept(ra: RoomAuthorisations, peer: RoomAuthorisations, t: NodeToMutate, n: NodeToInsert, caller: Vec<u8>)
    requires
        spec_local_row_ok(ra, t, caller),
        t.node is Some, t.room_id is Some,
        peer.rooms@ == ra.rooms@, peer.max_node_size == ra.max_node_size,        // honest peer, same room definitions and limit
        n.node == t.node,                                                        // the row is received as written
        t.node->Some_0.verifying_key == caller, t.node->Some_0.room_id == t.room_id, t.node->Some_0.mdate == t.date,
        n.entity_name is Some, n.entity_name->Some_0@ == t.entity@,
        n.old_verifying_key == old_author(t),                                    // same previous version on both sides
        n.old_room_id == (match t.old_node { Some(o) => o.room_id, None => None }),
        !is_system_entity(t.entity@),                                            // a data row: validate_entity_mutation's no_direct_authorisation_write, and rooms go through validate_room_mutation
    ensures
        spec_validate_node(peer, n),
{
}
//@ obligation L_peer_refuse_implies_local_refuse props C12 : contrapositive form, for the size limit: a row over the limit is refused on both paths
pub proof fn L_size_limit_agrees(ra: RoomAuthorisations, t: NodeToMutate, n: NodeToInsert, caller: Vec<u8>)
    requires
        t.node is Some, n.node == t.node,
        !(bincode::spec_size(t.node->Some_0) is Some && bincode::spec_size(t.node->Some_0)->Some_0 <= ra.max_node_size),
    ensures
        !spec_local_row_ok(ra, t, caller), !spec_validate_node(ra, n),
{
}

// ================================================================= room mutations (C01: a room's definition is changed only by its admins)
impl Room {
    #[verifier::external_body]
    pub fn clone(&self) -> (r: Room) ensures r == *self { unimplemented!() }
    #[verifier::external_body]
    pub fn default() -> (r: Room) ensures r.admins@ == Map::<Vec<u8>, Vec<User>>::empty(), r.authorisations@ == Map::<Uid, Authorisation>::empty() { unimplemented!() }
}

//@ extract src/database/authorisation_service.rs :: impl RoomAuthorisations / fn validate_room_mutation
//@ result r
//@ rewrite E16 "\"sys\.[A-Za-z]+\"\.to_string\(\)" => "fmt_stub()" x*
//@ rewrite E16 "ROOM_ENT\.to_string\(\)" => "fmt_stub()" x*
//@ rewrite E3 "\.\.Default::default\(\)" => "..Room::default()" x1
//@ cut "for entry in &mut insert_entity.sub_nodes" => "need_room_admin = self.cut_room_sub_nodes(&mut insert_entity.sub_nodes, &mut room, verifying_key)?;" body-verified
//@ insert body-start
        proof { assert(<[u8; 16] as PartialEqSpec<[u8; 16]>>::obeys_eq_spec()); }
//@ spec
        requires rooms_wf(*self),
        ensures
            // [room_row_unchanged_by_validation]{C01,C06} the validation of a room mutation does not alter the room row: what was signed is what is written
            final(insert_entity).node_to_mutate == old(insert_entity).node_to_mutate,
            // [existing_room_changed_only_by_admin]{C01} a mutation of a room that already exists is accepted only if the caller is an admin of that room, as it is defined now, at the operation's date
            r is Ok && r->Ok_0 is Some && old(insert_entity).node_to_mutate.old_node is Some ==>
                self.rooms@.contains_key(old(insert_entity).node_to_mutate.old_node->Some_0.id)
                && spec_is_admin(self.rooms@[old(insert_entity).node_to_mutate.old_node->Some_0.id], *verifying_key, old(insert_entity).node_to_mutate.date),
            // [room_change_needing_admin_checked_on_result]{C01} when the sub-entities demand the room-admin right, the caller must be an admin of the RESULTING definition at the operation's date
            r is Ok && r->Ok_0 is Some ==> exists|room_before: Room| room_before.id == r->Ok_0->Some_0.id
                && (room_change_needs_admin(old(insert_entity).sub_nodes, room_before, *verifying_key) ==> spec_is_admin(r->Ok_0->Some_0, *verifying_key, old(insert_entity).node_to_mutate.date)),
            // [room_change_by_a_non_admin_leaves_the_admin_part]{C01} a mutation of an existing room by a caller who is not an admin of the resulting definition at the operation's date changed neither the admin list nor the rights or the user admins of any group of the stored definition
            r is Ok && r->Ok_0 is Some && old(insert_entity).node_to_mutate.old_node is Some && !spec_is_admin(r->Ok_0->Some_0, *verifying_key, old(insert_entity).node_to_mutate.date)
                ==> admin_part_same(self.rooms@[old(insert_entity).node_to_mutate.old_node->Some_0.id], r->Ok_0->Some_0),
            // [room_rows_carry_no_room_id]{C01} a new room row never claims to live in another room
            r is Ok && r->Ok_0 is Some && old(insert_entity).node_to_mutate.old_node is None ==> old(insert_entity).node_to_mutate.room_id is None,
            // [no_reference_removal_on_rooms]{C01} references of a room (admins, groups) are never removed
            r is Ok ==> old(insert_entity).edge_deletions@.len() == 0,
            // [resulting_room_keeps_identity]{C01} the definition produced is the definition of that very room
            r is Ok && r->Ok_0 is Some && old(insert_entity).node_to_mutate.old_node is Some ==> r->Ok_0->Some_0.id == old(insert_entity).node_to_mutate.old_node->Some_0.id,
//@ end

// ================================================================= references received from a peer (C02)
pub struct AuthorisationService { x: u8 }
/// "the source row of this reference is stored in this room": a fact about storage that no code on this path establishes
pub uninterp spec fn edge_source_row_in_room(e: Edge, room: Room) -> bool;
pub uninterp spec fn nondet(k: int) -> bool;

/// C02 for a reference received from a peer (the references of room, group, right and user entries change only through a room definition: C07)
pub closed spec fn edge_ok(room: Room, edge: Edge, entity_name: Seq<char>) -> bool {
    !is_system_entity(entity_name) && spec_can(room, edge.verifying_key, entity_name, edge.cdate, RightType::MutateSelf)
}
//@ extract src/database/authorisation_service.rs :: impl AuthorisationService / fn process_message as AuthorisationService::add_edges_body
//@ lift-loop "for (edge, entity_name) in edges" :: fn add_edges_body(room: &Room, edge: Edge, entity_name: String, valid_edges: &mut Vec<Edge>, invalid: &mut Vec<Uid>)
//@ insert before-stmt "valid_edges.push(edge)"
                        proof {
                        // [edge_source_row_belongs_to_room]{C02} a reference is stored for a room only if its source row is stored in that room
                        if nondet(1) { assert(edge_source_row_in_room(edge, *room)); }
                        }
//@ spec
        ensures
            // [edge_kept_iff_author_entitled]{C02,C12} a reference received from a peer is forwarded to the writer exactly when its source entity is not one of the entities that define a room and the synchronised room grants its author the own-rows right on the source entity at the reference's creation date; otherwise its source id is reported as rejected
            final(valid_edges)@ == (if edge_ok(*room, edge, entity_name@) { old(valid_edges)@.push(edge) } else { old(valid_edges)@ }),
            final(invalid)@ == (if edge_ok(*room, edge, entity_name@) { old(invalid)@ } else { old(invalid)@.push(edge.src) }),
//@ end

//@ extract src/database/authorisation_service.rs :: impl AuthorisationService / fn process_message as AuthorisationService::add_nodes_body
//@ lift-loop "for node in valid_nodes" :: fn add_nodes_body(auth: &RoomAuthorisations, node: NodeToInsert, write_nodes: &mut Vec<NodeToInsert>, invalid_node: &mut Vec<Uid>)
//@ spec
        ensures
            // [node_forwarded_iff_validated]{C02,C12} a row received from a peer is forwarded to the writer exactly when validate_node accepts it; otherwise its id is reported as rejected and the row goes nowhere
            final(write_nodes)@ == (if spec_validate_node(*auth, node) { old(write_nodes)@.push(node) } else { old(write_nodes)@ }),
            final(invalid_node)@ == (if spec_validate_node(*auth, node) { old(invalid_node)@ } else { old(invalid_node)@.push(node.id) }),
//@ end

// ---- the four ingestion arms of the authorisation actor as wholes (E9 lift of the arm, E14 shell around the lifted loop bodies): what is
// handed to the batch writer is exactly what the validation kept - nothing refused is written, nothing kept is lost, the ids reported as
// rejected are the others
pub open spec fn kept_nodes(ra: RoomAuthorisations, s: Seq<NodeToInsert>) -> Seq<NodeToInsert>
    decreases s.len()
{
    if s.len() == 0 { Seq::empty() }
    else if spec_validate_node(ra, s.last()) { kept_nodes(ra, s.drop_last()).push(s.last()) }
    else { kept_nodes(ra, s.drop_last()) }
}
pub open spec fn rejected_nodes(ra: RoomAuthorisations, s: Seq<NodeToInsert>) -> Seq<Uid>
    decreases s.len()
{
    if s.len() == 0 { Seq::empty() }
    else if spec_validate_node(ra, s.last()) { rejected_nodes(ra, s.drop_last()) }
    else { rejected_nodes(ra, s.drop_last()).push(s.last().id) }
}
proof fn lemma_nodes_step(ra: RoomAuthorisations, s: Seq<NodeToInsert>, i: int)
    requires 0 <= i < s.len(),
    ensures
        kept_nodes(ra, s.subrange(0, i + 1)) == (if spec_validate_node(ra, s[i]) { kept_nodes(ra, s.subrange(0, i)).push(s[i]) } else { kept_nodes(ra, s.subrange(0, i)) }),
        rejected_nodes(ra, s.subrange(0, i + 1)) == (if spec_validate_node(ra, s[i]) { rejected_nodes(ra, s.subrange(0, i)) } else { rejected_nodes(ra, s.subrange(0, i)).push(s[i].id) }),
{
    assert(s.subrange(0, i + 1).drop_last() =~= s.subrange(0, i));
    assert(s.subrange(0, i + 1).last() == s[i]);
}
//@ extract src/database/authorisation_service.rs :: impl AuthorisationService / fn process_message as AuthorisationService::lifted_add_nodes_arm
//@ lift "AuthorisationMessage::AddNodes(valid_nodes, mut invalid_node, reply) =>" :: async fn lifted_add_nodes_arm(valid_nodes: Vec<NodeToInsert>, invalid_node0: Vec<Uid>, reply: ReplySender<Result<Vec<Uid>>>, auth: &mut RoomAuthorisations, database_writer: &BufferedDatabaseWriter)
//@ attr #[verifier::loop_isolation(false)]
//@ insert body-start
                let mut invalid_node = invalid_node0;   // E9: `mut invalid_node` of the match arm
                let ghost a0 = *auth;
//@ shell "for node in valid_nodes" => "proof { lemma_nodes_step(a0, it.seq(), it.index@ as int); } Self::add_nodes_body(&*auth, node, &mut write_nodes, &mut invalid_node);"
//@ loop "for node in valid_nodes" iter it
                    invariant
                        it.seq() == valid_nodes@, *auth == a0,
                        write_nodes@ == kept_nodes(a0, it.seq().subrange(0, it.index@ as int)),
                        invalid_node@ == invalid_node0@ + rejected_nodes(a0, it.seq().subrange(0, it.index@ as int)),
//@ insert before-stmt "let query = WriteMessage::Nodes("
                proof { assert(valid_nodes@.subrange(0, valid_nodes@.len() as int) =~= valid_nodes@); }
//@ spec
        ensures
            // [rows_handed_to_the_writer_are_exactly_the_validated_ones]{C02,C12} of the rows received from a peer, exactly those validate_node accepts are handed to the writer, in the order received; the ids reported as rejected are those already rejected upstream followed by the ids of the others
            exists|w: Vec<NodeToInsert>, iv: Vec<Uid>| #[trigger] sent_to_writer(WriteMessage::Nodes(w, iv, reply)) && w@ == kept_nodes(*old(auth), valid_nodes@)
                && iv@ == invalid_node0@ + rejected_nodes(*old(auth), valid_nodes@),
            *final(auth) == *old(auth),
//@ end

pub open spec fn kept_edges(room: Room, s: Seq<(Edge, String)>) -> Seq<Edge>
    decreases s.len()
{
    if s.len() == 0 { Seq::empty() }
    else if edge_ok(room, s.last().0, s.last().1@) { kept_edges(room, s.drop_last()).push(s.last().0) }
    else { kept_edges(room, s.drop_last()) }
}
pub open spec fn rejected_edges(room: Room, s: Seq<(Edge, String)>) -> Seq<Uid>
    decreases s.len()
{
    if s.len() == 0 { Seq::empty() }
    else if edge_ok(room, s.last().0, s.last().1@) { rejected_edges(room, s.drop_last()) }
    else { rejected_edges(room, s.drop_last()).push(s.last().0.src) }
}
proof fn lemma_edges_step(room: Room, s: Seq<(Edge, String)>, i: int)
    requires 0 <= i < s.len(),
    ensures
        kept_edges(room, s.subrange(0, i + 1)) == (if edge_ok(room, s[i].0, s[i].1@) { kept_edges(room, s.subrange(0, i)).push(s[i].0) } else { kept_edges(room, s.subrange(0, i)) }),
        rejected_edges(room, s.subrange(0, i + 1)) == (if edge_ok(room, s[i].0, s[i].1@) { rejected_edges(room, s.subrange(0, i)) } else { rejected_edges(room, s.subrange(0, i)).push(s[i].0.src) }),
{
    assert(s.subrange(0, i + 1).drop_last() =~= s.subrange(0, i));
    assert(s.subrange(0, i + 1).last() == s[i]);
}
//@ extract src/database/authorisation_service.rs :: impl AuthorisationService / fn process_message as AuthorisationService::lifted_add_edges_arm
//@ lift "AuthorisationMessage::AddEdges(room_id, edges, mut invalid, reply) =>" :: async fn lifted_add_edges_arm(room_id: Uid, edges: Vec<(Edge, String)>, invalid0: Vec<Uid>, reply: ReplySender<Result<Vec<Uid>>>, auth: &mut RoomAuthorisations, database_writer: &BufferedDatabaseWriter)
//@ attr #[verifier::loop_isolation(false)]
//@ rewrite E15 "Error::UnknownRoom\(base64_encode\(&room_id\)\)" => "Error::UnknownRoom(fmt_stub())" x1
//@ insert body-start
                let mut invalid = invalid0;   // E9: `mut invalid` of the match arm
//@ shell "for (edge, entity_name) in edges" => "proof { lemma_edges_step(*room, it.seq(), it.index@ as int); } Self::add_edges_body(room, edge, entity_name, &mut valid_edges, &mut invalid);"
//@ loop "for (edge, entity_name) in edges" iter it
                    invariant
                        it.seq() == edges@,
                        valid_edges@ == kept_edges(*room, it.seq().subrange(0, it.index@ as int)),
                        invalid@ == invalid0@ + rejected_edges(*room, it.seq().subrange(0, it.index@ as int)),
//@ insert before-stmt "let query = WriteMessage::Edges("
                proof { assert(edges@.subrange(0, edges@.len() as int) =~= edges@); }
//@ spec
        ensures
            // [references_handed_to_the_writer_are_exactly_the_entitled_ones]{C02,C12} of the references received from a peer for a room this instance holds, exactly those whose author is entitled (edge_ok) are handed to the writer, in the order received; the others are reported as rejected by their source id; for a room this instance does not hold nothing is handed to the writer
            old(auth).rooms@.contains_key(room_id) ==> exists|w: Vec<Edge>, iv: Vec<Uid>| #[trigger] sent_to_writer(WriteMessage::Edges(w, iv, reply))
                && w@ == kept_edges(old(auth).rooms@[room_id], edges@) && iv@ == invalid0@ + rejected_edges(old(auth).rooms@[room_id], edges@),
            *final(auth) == *old(auth),
//@ end

//@ extract src/database/authorisation_service.rs :: impl AuthorisationService / fn process_message as AuthorisationService::lifted_delete_edges_arm
//@ lift "AuthorisationMessage::DeleteEdges(edges, reply) =>" :: async fn lifted_delete_edges_arm(edges: Vec<(EdgeDeletionEntry, Option<Vec<u8>>)>, reply: ReplySender<Result<()>>, auth: &mut RoomAuthorisations, database_writer: &BufferedDatabaseWriter)
//@ insert body-start
                let ghost mut handed: Option<Seq<EdgeDeletionEntry>> = None;
//@ insert before-stmt "let _ = database_writer" 
                    proof { handed = Some(filtered_edges@); }
//@ insert body-end
                // [reference_deletions_handed_to_the_writer_are_the_entitled_ones]{C02,C12,C11} the reference-deletion records handed to the writer are exactly the entitled records of the batch (validate_edge_deletions); when none is entitled nothing is written
                assert(match handed { Some(h) => h == kept_edge_dels(*auth, edges@) && h.len() > 0, None => kept_edge_dels(*auth, edges@).len() == 0 });
//@ end
//@ extract src/database/authorisation_service.rs :: impl AuthorisationService / fn process_message as AuthorisationService::lifted_delete_nodes_arm
//@ lift "AuthorisationMessage::DeleteNodes(nodes, reply) =>" :: async fn lifted_delete_nodes_arm(nodes: HashMap<Uid, (NodeDeletionEntry, Option<Vec<u8>>)>, reply: ReplySender<Result<()>>, auth: &mut RoomAuthorisations, database_writer: &BufferedDatabaseWriter)
//@ insert body-start
                let ghost mut handed: Option<Seq<NodeDeletionEntry>> = None;
                let ghost nodes0 = nodes@;
//@ insert before-stmt "let _ = database_writer"
                    proof { handed = Some(filtered_nodes@); }
//@ insert body-end
                // [row_deletions_handed_to_the_writer_are_the_entitled_ones]{C02,C12,C11} the row-deletion records handed to the writer are entitled records of the batch, and every entitled record of the batch is among them (validate_node_deletions)
                assert(match handed {
                    Some(h) => (forall|e: NodeDeletionEntry| #[trigger] h.contains(e) ==> entitled_node_del(*auth, nodes0, e))
                        && (forall|id: Uid| #![trigger nodes0[id]] nodes0.contains_key(id) && node_del_ok(*auth, nodes0[id].0, nodes0[id].1) ==> h.contains(nodes0[id].0)),
                    None => forall|id: Uid| #![trigger nodes0[id]] nodes0.contains_key(id) ==> !node_del_ok(*auth, nodes0[id].0, nodes0[id].1),
                });
//@ end


// ================================================================= group mutations inside a room mutation (C01)
#[verifier::external_body]
pub fn user_from_json(json: &String, date: i64) -> (r: Result<User>) ensures r is Ok ==> r->Ok_0.date == date && user_of_row(*json, date, r->Ok_0) { unimplemented!() }          // under contract in u3_loaders
/// the entry a stored row (its JSON text, its date) decodes to: a fact only the decoders' contracts establish
pub uninterp spec fn user_of_row(json: String, date: i64, u: User) -> bool;
pub uninterp spec fn right_of_row(json: String, valid_from: i64, e: EntityRight) -> bool;
#[verifier::external_body]
pub fn entity_right_from_json(valid_from: i64, json: &String) -> (r: Result<EntityRight>) ensures r is Ok ==> right_normalised(r->Ok_0) && er_valid_from(r->Ok_0) == valid_from && right_of_row(*json, valid_from, r->Ok_0) { unimplemented!() }
impl Authorisation {
    #[verifier::external_body]
    pub fn default() -> (r: Authorisation)
        ensures r.users@ == Map::<Vec<u8>, Vec<User>>::empty(), r.user_admins@ == Map::<Vec<u8>, Vec<User>>::empty(), r.rights@ == Map::<String, Vec<EntityRight>>::empty()
    { unimplemented!() }
}
impl Room {
    // Room::get_auth_mut is `self.authorisations.get_mut(id)`: ASSUMED std semantics of HashMap::get_mut (the returned reference
    // is the only way the map changes; every other group and field is untouched)
    #[verifier::external_body]
    pub fn get_auth_mut<'a>(&'a mut self, id: &Uid) -> (r: Option<&'a mut Authorisation>)
        ensures
            match r {
                Some(u) => old(self).authorisations@.contains_key(*id) && *u == old(self).authorisations@[*id]
                            && final(self).authorisations@ == old(self).authorisations@.insert(*id, *final(u)),
                None => !old(self).authorisations@.contains_key(*id) && final(self).authorisations@ == old(self).authorisations@,
            },
            final(self).id == old(self).id && final(self).mdate == old(self).mdate && final(self).admins == old(self).admins,
    { unimplemented!() }
}
//@ use-contract u1_room.rs :: Room::add_auth
//@ use-contract u1_room.rs :: Authorisation::add_user
//@ use-contract u1_room.rs :: Authorisation::add_user_admin
//@ use-contract u1_room.rs :: Authorisation::add_right

/// every history list of `b` extends the list of the same key in `a` (append-only)
pub open spec fn users_extend(a: Map<Vec<u8>, Vec<User>>, b: Map<Vec<u8>, Vec<User>>) -> bool {
    forall|k: Vec<u8>| #[trigger] a.contains_key(k) ==> b.contains_key(k) && a[k]@.is_prefix_of(b[k]@)
}
pub open spec fn rights_extend(a: Map<String, Vec<EntityRight>>, b: Map<String, Vec<EntityRight>>) -> bool {
    forall|k: String| #[trigger] a.contains_key(k) ==> b.contains_key(k) && a[k]@.is_prefix_of(b[k]@)
}
pub open spec fn group_extends(a: Authorisation, b: Authorisation) -> bool {
    b.id == a.id && users_extend(a.users@, b.users@) && users_extend(a.user_admins@, b.user_admins@) && rights_extend(a.rights@, b.rights@)
}
pub proof fn lemma_users_appended_extend(a: Map<Vec<u8>, Vec<User>>, b: Map<Vec<u8>, Vec<User>>, c: Map<Vec<u8>, Vec<User>>, u: User)
    requires users_extend(a, b), users_appended(b, c, u),
    ensures users_extend(a, c),
{
    assert forall|k: Vec<u8>| #[trigger] a.contains_key(k) implies c.contains_key(k) && a[k]@.is_prefix_of(c[k]@) by {
        assert(b.contains_key(k));
        if k == u.verifying_key {
            assert(c[k]@ == user_list(b, k).push(u));
            assert(b[k]@.is_prefix_of(c[k]@));
        } else {
            assert(b.contains_key(k) == c.contains_key(k));
            assert(b[k] == c[k]);
        }
    }
}
pub proof fn lemma_rights_appended_extend(a: Map<String, Vec<EntityRight>>, b: Map<String, Vec<EntityRight>>, c: Map<String, Vec<EntityRight>>, r: EntityRight)
    requires rights_extend(a, b), rights_appended(b, c, r),
    ensures rights_extend(a, c),
{
    assert forall|k: String| #[trigger] a.contains_key(k) implies c.contains_key(k) && a[k]@.is_prefix_of(c[k]@) by {
        assert(b.contains_key(k));
        if k == er_entity(r) {
            assert(c[k]@ == right_list(b, k).push(r));
            assert(b[k]@.is_prefix_of(c[k]@));
        } else {
            assert(b.contains_key(k) == c.contains_key(k));
            assert(b[k] == c[k]);
        }
    }
}
// ---- lower bound: every entry row a group mutation carries is an entry of the resulting group (what a restart reloads from the rows
// is what the running instance decides on: C10).  Anchor-free: the step lemmas fire on the postconditions of the decoders and of the
// add_* mutators and on the loop invariants, whatever the code around the calls looks like.
pub closed spec fn in_users(m: Map<Vec<u8>, Vec<User>>, u: User) -> bool { m.contains_key(u.verifying_key) && m[u.verifying_key]@.contains(u) }
pub closed spec fn in_rights(m: Map<String, Vec<EntityRight>>, e: EntityRight) -> bool { m.contains_key(er_entity(e)) && m[er_entity(e)]@.contains(e) }
pub open spec fn row_json(e: InsertEntity) -> Option<String> { if e.node_to_mutate.node is Some { e.node_to_mutate.node->Some_0._json } else { None } }
pub open spec fn row_date(e: InsertEntity) -> i64 { e.node_to_mutate.node->Some_0.mdate }
/// (the `exists` is hidden in a spec function: nested under a `forall` in a loop invariant it is not re-established at loop exit)
pub open spec fn user_row_present(e: InsertEntity, m: Map<Vec<u8>, Vec<User>>) -> bool {
    row_json(e) is Some ==> exists|u: User| user_of_row(row_json(e)->Some_0, row_date(e), u) && in_users(m, u)
}
pub open spec fn right_row_present(e: InsertEntity, m: Map<String, Vec<EntityRight>>) -> bool {
    row_json(e) is Some ==> exists|r: EntityRight| right_of_row(row_json(e)->Some_0, row_date(e), r) && in_rights(m, r)
}
pub open spec fn user_rows_present(l: Seq<InsertEntity>, n: int, m: Map<Vec<u8>, Vec<User>>) -> bool { forall|i: int| 0 <= i < n ==> #[trigger] user_row_present(l[i], m) }
pub open spec fn right_rows_present(l: Seq<InsertEntity>, n: int, m: Map<String, Vec<EntityRight>>) -> bool { forall|i: int| 0 <= i < n ==> #[trigger] right_row_present(l[i], m) }
/// one field of the group mutation (its name, the entities under it) is reflected in the group's three history maps
pub open spec fn field_present(k: String, l: Seq<InsertEntity>, us: Map<Vec<u8>, Vec<User>>, ads: Map<Vec<u8>, Vec<User>>, rs: Map<String, Vec<EntityRight>>) -> bool {
    (k@ == system_entities::AUTH_USER_FIELD@ ==> user_rows_present(l, l.len() as int, us))
    && (k@ == system_entities::AUTH_USER_ADMIN_FIELD@ ==> user_rows_present(l, l.len() as int, ads))
    && (k@ == system_entities::AUTH_RIGHTS_FIELD@ ==> right_rows_present(l, l.len() as int, rs))
}
pub open spec fn fields_present(seq: Seq<(&String, &Vec<InsertEntity>)>, n: int, us: Map<Vec<u8>, Vec<User>>, ads: Map<Vec<u8>, Vec<User>>, rs: Map<String, Vec<EntityRight>>) -> bool {
    forall|j: int| 0 <= j < n ==> #[trigger] field_present(*seq[j].0, seq[j].1@, us, ads, rs)
}
broadcast proof fn lemma_users_append_in(old_m: Map<Vec<u8>, Vec<User>>, new_m: Map<Vec<u8>, Vec<User>>, user: User)
    requires #[trigger] users_appended(old_m, new_m, user),
    ensures in_users(new_m, user), forall|v: User| #[trigger] in_users(old_m, v) ==> in_users(new_m, v),
{
    let n = new_m[user.verifying_key]@;
    let o = user_list(old_m, user.verifying_key);
    assert(n == o.push(user));
    assert(n[o.len() as int] == user);
    assert forall|v: User| #[trigger] in_users(old_m, v) implies in_users(new_m, v) by {
        if v.verifying_key == user.verifying_key {
            let j = choose|j: int| 0 <= j < o.len() && o[j] == v; assert(n[j] == v);
        } else { assert(old_m.contains_key(v.verifying_key)); }
    }
}
broadcast proof fn lemma_rights_append_in(old_m: Map<String, Vec<EntityRight>>, new_m: Map<String, Vec<EntityRight>>, right: EntityRight)
    requires #[trigger] rights_appended(old_m, new_m, right),
    ensures in_rights(new_m, right), forall|v: EntityRight| #[trigger] in_rights(old_m, v) ==> in_rights(new_m, v),
{
    let n = new_m[er_entity(right)]@;
    let o = right_list(old_m, er_entity(right));
    assert(n == o.push(right));
    assert(n[o.len() as int] == right);
    assert forall|v: EntityRight| #[trigger] in_rights(old_m, v) implies in_rights(new_m, v) by {
        if er_entity(v) == er_entity(right) {
            let j = choose|j: int| 0 <= j < o.len() && o[j] == v; assert(n[j] == v);
        } else { assert(old_m.contains_key(er_entity(v))); }
    }
}
/// growth keeps what is present
proof fn lemma_user_rows_mono(l: Seq<InsertEntity>, n: int, old_m: Map<Vec<u8>, Vec<User>>, new_m: Map<Vec<u8>, Vec<User>>, user: User)
    requires users_appended(old_m, new_m, user), user_rows_present(l, n, old_m),
    ensures user_rows_present(l, n, new_m),
{
    lemma_users_append_in(old_m, new_m, user);
    assert forall|i: int| 0 <= i < n implies #[trigger] user_row_present(l[i], new_m) by {
        assert(user_row_present(l[i], old_m));
        if row_json(l[i]) is Some {
            let u = choose|u: User| user_of_row(row_json(l[i])->Some_0, row_date(l[i]), u) && in_users(old_m, u);
            assert(in_users(new_m, u));
        }
    }
}
proof fn lemma_right_rows_mono(l: Seq<InsertEntity>, n: int, old_m: Map<String, Vec<EntityRight>>, new_m: Map<String, Vec<EntityRight>>, right: EntityRight)
    requires rights_appended(old_m, new_m, right), right_rows_present(l, n, old_m),
    ensures right_rows_present(l, n, new_m),
{
    lemma_rights_append_in(old_m, new_m, right);
    assert forall|i: int| 0 <= i < n implies #[trigger] right_row_present(l[i], new_m) by {
        assert(right_row_present(l[i], old_m));
        if row_json(l[i]) is Some {
            let r = choose|r: EntityRight| right_of_row(row_json(l[i])->Some_0, row_date(l[i]), r) && in_rights(old_m, r);
            assert(in_rights(new_m, r));
        }
    }
}
/// the step of an inner loop: the entity just handled carried a row, decoded to `user`, and `user` was appended
broadcast proof fn lemma_user_rows_step(l: Seq<InsertEntity>, n: int, old_m: Map<Vec<u8>, Vec<User>>, new_m: Map<Vec<u8>, Vec<User>>, user: User)
    requires #[trigger] users_appended(old_m, new_m, user), #[trigger] user_rows_present(l, n, old_m),
        0 <= n < l.len(), row_json(l[n]) is Some, user_of_row(row_json(l[n])->Some_0, row_date(l[n]), user),
    ensures user_rows_present(l, n + 1, new_m),
{
    lemma_user_rows_mono(l, n, old_m, new_m, user);
    lemma_users_append_in(old_m, new_m, user);
    assert(user_row_present(l[n], new_m));
}
broadcast proof fn lemma_right_rows_step(l: Seq<InsertEntity>, n: int, old_m: Map<String, Vec<EntityRight>>, new_m: Map<String, Vec<EntityRight>>, right: EntityRight)
    requires #[trigger] rights_appended(old_m, new_m, right), #[trigger] right_rows_present(l, n, old_m),
        0 <= n < l.len(), row_json(l[n]) is Some, right_of_row(row_json(l[n])->Some_0, row_date(l[n]), right),
    ensures right_rows_present(l, n + 1, new_m),
{
    lemma_right_rows_mono(l, n, old_m, new_m, right);
    lemma_rights_append_in(old_m, new_m, right);
    assert(right_row_present(l[n], new_m));
}
/// the fields already handled stay reflected when one of the three maps grows
broadcast proof fn lemma_fields_mono_users(seq: Seq<(&String, &Vec<InsertEntity>)>, n: int, old_m: Map<Vec<u8>, Vec<User>>, new_m: Map<Vec<u8>, Vec<User>>, user: User, ads: Map<Vec<u8>, Vec<User>>, rs: Map<String, Vec<EntityRight>>)
    requires #[trigger] users_appended(old_m, new_m, user), #[trigger] fields_present(seq, n, old_m, ads, rs),
    ensures fields_present(seq, n, new_m, ads, rs),
{
    assert forall|j: int| 0 <= j < n implies #[trigger] field_present(*seq[j].0, seq[j].1@, new_m, ads, rs) by {
        assert(field_present(*seq[j].0, seq[j].1@, old_m, ads, rs));
        if seq[j].0@ == system_entities::AUTH_USER_FIELD@ { lemma_user_rows_mono(seq[j].1@, seq[j].1@.len() as int, old_m, new_m, user); }
    }
}
broadcast proof fn lemma_fields_mono_admins(seq: Seq<(&String, &Vec<InsertEntity>)>, n: int, us: Map<Vec<u8>, Vec<User>>, old_m: Map<Vec<u8>, Vec<User>>, new_m: Map<Vec<u8>, Vec<User>>, user: User, rs: Map<String, Vec<EntityRight>>)
    requires #[trigger] users_appended(old_m, new_m, user), #[trigger] fields_present(seq, n, us, old_m, rs),
    ensures fields_present(seq, n, us, new_m, rs),
{
    assert forall|j: int| 0 <= j < n implies #[trigger] field_present(*seq[j].0, seq[j].1@, us, new_m, rs) by {
        assert(field_present(*seq[j].0, seq[j].1@, us, old_m, rs));
        if seq[j].0@ == system_entities::AUTH_USER_ADMIN_FIELD@ { lemma_user_rows_mono(seq[j].1@, seq[j].1@.len() as int, old_m, new_m, user); }
    }
}
broadcast proof fn lemma_fields_mono_rights(seq: Seq<(&String, &Vec<InsertEntity>)>, n: int, us: Map<Vec<u8>, Vec<User>>, ads: Map<Vec<u8>, Vec<User>>, old_m: Map<String, Vec<EntityRight>>, new_m: Map<String, Vec<EntityRight>>, right: EntityRight)
    requires #[trigger] rights_appended(old_m, new_m, right), #[trigger] fields_present(seq, n, us, ads, old_m),
    ensures fields_present(seq, n, us, ads, new_m),
{
    assert forall|j: int| 0 <= j < n implies #[trigger] field_present(*seq[j].0, seq[j].1@, us, ads, new_m) by {
        assert(field_present(*seq[j].0, seq[j].1@, us, ads, old_m));
        if seq[j].0@ == system_entities::AUTH_RIGHTS_FIELD@ { lemma_right_rows_mono(seq[j].1@, seq[j].1@.len() as int, old_m, new_m, right); }
    }
}
/// append-only growth, anchor-free
broadcast proof fn lemma_users_appended_extend_b(a: Map<Vec<u8>, Vec<User>>, b: Map<Vec<u8>, Vec<User>>, c: Map<Vec<u8>, Vec<User>>, u: User)
    requires #[trigger] users_extend(a, b), #[trigger] users_appended(b, c, u),
    ensures users_extend(a, c),
{ lemma_users_appended_extend(a, b, c, u); }
broadcast proof fn lemma_rights_appended_extend_b(a: Map<String, Vec<EntityRight>>, b: Map<String, Vec<EntityRight>>, c: Map<String, Vec<EntityRight>>, r: EntityRight)
    requires #[trigger] rights_extend(a, b), #[trigger] rights_appended(b, c, r),
    ensures rights_extend(a, c),
{ lemma_rights_appended_extend(a, b, c, r); }

pub open spec fn sub_keys_ok(m: Map<String, Vec<InsertEntity>>) -> bool {
    forall|k: String| #[trigger] m.contains_key(k) ==> k@ == system_entities::AUTH_RIGHTS_FIELD@ || k@ == system_entities::AUTH_USER_FIELD@ || k@ == system_entities::AUTH_USER_ADMIN_FIELD@
}

/// the group a mutation starts from: the group of that id in the room, or a fresh empty group
pub open spec fn group_before(room: Room, gid: Uid, g: Authorisation) -> bool {
    if room.authorisations@.contains_key(gid) { g == room.authorisations@[gid] }
    else { g.id == gid && g.users@ == Map::<Vec<u8>, Vec<User>>::empty() && g.user_admins@ == Map::<Vec<u8>, Vec<User>>::empty() && g.rights@ == Map::<String, Vec<EntityRight>>::empty() }
}
/// what a group mutation may do without the room-admin right: nothing to rights and user admins; users only if the caller is a
/// user admin of the resulting group at the operation's date
pub open spec fn group_change_without_admin_ok(g0: Authorisation, g: Authorisation, caller: Vec<u8>, date: i64) -> bool {
    g.rights == g0.rights && g.user_admins == g0.user_admins && (g.users != g0.users ==> spec_can_admin_users(g, caller, date))
}
pub open spec fn auth_loop_inv(g0: Authorisation, g: Authorisation, need_room_admin: bool, need_user_admin: bool) -> bool {
    group_extends(g0, g)
    && (!need_room_admin ==> g.rights == g0.rights && g.user_admins == g0.user_admins)
    && (!need_user_admin ==> g.users == g0.users)
}

//@ extract src/database/authorisation_service.rs :: impl RoomAuthorisations / fn validate_authorisation_mutation
//@ result r
//@ attr #[verifier::exec_allows_no_decreases_clause]
//@ attr #[verifier::loop_isolation(false)]
//@ rewrite E16 "\"sys\.[A-Za-z]+\"\.to_string\(\)" => "fmt_stub()" x*
//@ rewrite E16 "ROOM_ENT\.to_string\(\)" => "fmt_stub()" x*
//@ rewrite E3 "\.\.Default::default\(\)" => "..Authorisation::default()" x1
//@ insert body-start
        // no anchor at the add_* calls: growth and presence follow every call from the callee's postcondition, whatever the code around it looks like
        broadcast use {lemma_users_appended_extend_b, lemma_rights_appended_extend_b, lemma_user_rows_step, lemma_right_rows_step, lemma_fields_mono_users, lemma_fields_mono_admins, lemma_fields_mono_rights};
//@ insert before-stmt "let mut need_user_admin = false;"
        let ghost g0 = *authorisation;
        assert(group_before(*old(room), old(insert_entity).node_to_mutate.id, g0));
//@ loop "for entry in &insert_entity.sub_nodes" iter ite
            invariant iter_covers(insert_entity.sub_nodes@, ite.seq()), insert_entity.sub_nodes == old(insert_entity).sub_nodes,
                insert_entity.node_to_mutate == old(insert_entity).node_to_mutate,
                // [group_only_grows] whatever the mutation contains, every history list of the group only grows (append-only), and rights / user admins (users) are untouched unless the room-admin (user-admin) right will be demanded
                auth_loop_inv(g0, *authorisation, need_room_admin, need_user_admin),
                // [fields_handled_so_far_are_in_the_group]{C10,C01} every entry row under the fields handled so far is an entry of the group being built
                fields_present(ite.seq(), ite.index@ as int, authorisation.users@, authorisation.user_admins@, authorisation.rights@),
//@ loop "for insert_entity in entry.1" #1 iter iti
                        invariant auth_loop_inv(g0, *authorisation, need_room_admin, need_user_admin), need_room_admin,
                            fields_present(ite.seq(), ite.index@ as int, authorisation.users@, authorisation.user_admins@, authorisation.rights@),
                            // [right_rows_handled_so_far_are_in_the_group]{C10,C01}
                            right_rows_present(entry.1@, iti.index@ as int, authorisation.rights@),
//@ loop "for insert_entity in entry.1" #2 iter iti
                        invariant auth_loop_inv(g0, *authorisation, need_room_admin, need_user_admin), need_user_admin,
                            fields_present(ite.seq(), ite.index@ as int, authorisation.users@, authorisation.user_admins@, authorisation.rights@),
                            // [user_rows_handled_so_far_are_in_the_group]{C10,C01}
                            user_rows_present(entry.1@, iti.index@ as int, authorisation.users@),
//@ loop "for insert_entity in entry.1" #3 iter iti
                        invariant auth_loop_inv(g0, *authorisation, need_room_admin, need_user_admin), need_room_admin,
                            fields_present(ite.seq(), ite.index@ as int, authorisation.users@, authorisation.user_admins@, authorisation.rights@),
                            // [user_admin_rows_handled_so_far_are_in_the_group]{C10,C01}
                            user_rows_present(entry.1@, iti.index@ as int, authorisation.user_admins@),
//@ spec
        requires sub_keys_ok(old(insert_entity).sub_nodes@),      // the mutation parser only produces the three list fields of sys.Authorisation
        ensures
            // [group_mutation_append_only]{C01} an accepted group mutation only appends: for some group g0 the room held (or a fresh group), the resulting group extends g0 list by list, every other group and the admin list are untouched
            r is Ok ==> final(room).admins == old(room).admins && final(room).id == old(room).id
                && final(room).authorisations@.contains_key(old(insert_entity).node_to_mutate.id)
                && (exists|g0: Authorisation| group_before(*old(room), old(insert_entity).node_to_mutate.id, g0)
                        && group_extends(g0, final(room).authorisations@[old(insert_entity).node_to_mutate.id])
                        // [group_mutation_needs_right]{C01} and unless the room-admin right is demanded (result true) rights and user admins are unchanged and users change only if the caller is a user admin of the group at the operation's date
                        && (r->Ok_0 == false ==> group_change_without_admin_ok(g0, final(room).authorisations@[old(insert_entity).node_to_mutate.id], *verifying_key, old(insert_entity).node_to_mutate.date)))
                && (forall|id: Uid| id != old(insert_entity).node_to_mutate.id ==> (#[trigger] final(room).authorisations@.contains_key(id) == old(room).authorisations@.contains_key(id))
                        && (old(room).authorisations@.contains_key(id) ==> final(room).authorisations@[id] == old(room).authorisations@[id])),
            // [every_entry_row_of_a_group_mutation_is_in_the_resulting_group]{C10,C01} lower bound: every user, user-admin and right row the accepted mutation carries was decoded and its entry is in the history of the resulting group - what the running instance decides on is what a restart reloads from the rows
            r is Ok ==> forall|k: String| #![trigger old(insert_entity).sub_nodes@[k]] old(insert_entity).sub_nodes@.contains_key(k) ==>
                field_present(k, old(insert_entity).sub_nodes@[k]@, final(room).authorisations@[old(insert_entity).node_to_mutate.id].users@,
                    final(room).authorisations@[old(insert_entity).node_to_mutate.id].user_admins@, final(room).authorisations@[old(insert_entity).node_to_mutate.id].rights@),
            // [group_rows_carry_no_room_id]{C01}
            r is Ok ==> old(insert_entity).node_to_mutate.room_id is None && old(insert_entity).edge_deletions@.len() == 0,
            // [group_of_another_room_never_adopted]{C01} a group this room does not hold is accepted only as a NEW group (a row that did not exist before): an existing group row - a group of another room - is never changed through this room
            r is Ok && !old(room).authorisations@.contains_key(old(insert_entity).node_to_mutate.id) ==> old(insert_entity).node_to_mutate.old_node is None,
//@ end
// ================================================================= the body of the sub-entity loop of a room mutation (C01, C10)
// The loop `for entry in &mut insert_entity.sub_nodes` of validate_room_mutation is a cut there (HashMap IterMut has no Verus model);
// its body - what is done with ONE field of the room mutation - is verified here (rule E14).
//@ use-contract u1_room.rs :: Room::add_admin_user
pub open spec fn rights_or_empty(r: Room, id: Uid) -> Map<String, Vec<EntityRight>> { if r.authorisations@.contains_key(id) { r.authorisations@[id].rights@ } else { Map::empty() } }
pub open spec fn user_admins_or_empty(r: Room, id: Uid) -> Map<Vec<u8>, Vec<User>> { if r.authorisations@.contains_key(id) { r.authorisations@[id].user_admins@ } else { Map::empty() } }
/// what may NOT change without the room-admin right: the admin list, and the rights and user admins of every group (a group that did
/// not exist counts as empty)
pub open spec fn admin_part_same(r0: Room, r1: Room) -> bool {
    r1.admins == r0.admins && r1.id == r0.id
    && (forall|id: Uid| #[trigger] r0.authorisations@.contains_key(id) ==> r1.authorisations@.contains_key(id))
    && forall|id: Uid| #[trigger] r1.authorisations@.contains_key(id) ==> r1.authorisations@[id].rights@ == rights_or_empty(r0, id) && r1.authorisations@[id].user_admins@ == user_admins_or_empty(r0, id)
}
/// what the assumed composition of the loop body over the entries of a room mutation rests on
proof fn L_admin_part_same_composes(r0: Room, r1: Room, r2: Room)
    ensures admin_part_same(r0, r0), admin_part_same(r0, r1) && admin_part_same(r1, r2) ==> admin_part_same(r0, r2),
{
    if admin_part_same(r0, r1) && admin_part_same(r1, r2) {
        assert forall|id: Uid| #[trigger] r2.authorisations@.contains_key(id) implies r2.authorisations@[id].rights@ == rights_or_empty(r0, id) && r2.authorisations@[id].user_admins@ == user_admins_or_empty(r0, id) by {
            if r1.authorisations@.contains_key(id) { } else { assert(!r0.authorisations@.contains_key(id)); }
        }
        assert forall|id: Uid| #[trigger] r0.authorisations@.contains_key(id) implies r2.authorisations@.contains_key(id) by { assert(r1.authorisations@.contains_key(id)); }
    }
}
proof fn lemma_admin_part_step(r0: Room, r1: Room, r2: Room, gid: Uid, key: Vec<u8>, date: i64)
    requires
        admin_part_same(r0, r1),
        r2.admins == r1.admins && r2.id == r1.id && r2.authorisations@.contains_key(gid),
        exists|g0: Authorisation| group_before(r1, gid, g0) && group_extends(g0, r2.authorisations@[gid]) && group_change_without_admin_ok(g0, r2.authorisations@[gid], key, date),
        forall|id: Uid| id != gid ==> (#[trigger] r2.authorisations@.contains_key(id) == r1.authorisations@.contains_key(id)) && (r1.authorisations@.contains_key(id) ==> r2.authorisations@[id] == r1.authorisations@[id]),
    ensures admin_part_same(r0, r2),
{
    let g0 = choose|g0: Authorisation| group_before(r1, gid, g0) && group_extends(g0, r2.authorisations@[gid]) && group_change_without_admin_ok(g0, r2.authorisations@[gid], key, date);
    assert forall|id: Uid| #[trigger] r2.authorisations@.contains_key(id) implies r2.authorisations@[id].rights@ == rights_or_empty(r0, id) && r2.authorisations@[id].user_admins@ == user_admins_or_empty(r0, id) by {
        if id == gid {
            if r1.authorisations@.contains_key(gid) { assert(g0 == r1.authorisations@[gid]); }
        } else {
            assert(r1.authorisations@.contains_key(id));
        }
    }
    assert forall|id: Uid| #[trigger] r0.authorisations@.contains_key(id) implies r2.authorisations@.contains_key(id) by {
        assert(r1.authorisations@.contains_key(id));
    }
}
pub open spec fn subs_keys_ok(l: Seq<InsertEntity>) -> bool { forall|i: int| 0 <= i < l.len() ==> sub_keys_ok((#[trigger] l[i]).sub_nodes@) }

//@ extract src/database/authorisation_service.rs :: impl RoomAuthorisations / fn validate_room_mutation as RoomAuthorisations::room_sub_body
//@ lift-loop "for entry in &mut insert_entity.sub_nodes" :: fn room_sub_body(&self, entry: (&String, &mut Vec<InsertEntity>), room: &mut Room, verifying_key: &Vec<u8>, need_room_admin: &mut bool) -> (r: Result<()>) tail "Ok(())"
//@ attr #[verifier::loop_isolation(false)]
//@ attr #[verifier::exec_allows_no_decreases_clause]
//@ rewrite E16 "\"sys\.[A-Za-z]+\"\.to_string\(\)" => "fmt_stub()" x*
//@ rewrite E16 "ROOM_ENT\.to_string\(\)" => "fmt_stub()" x*
//@ rewrite E9 "need_room_admin = true;" => "*need_room_admin = true;" x*
//@ rewrite E9 "&mut room, auth" => "room, auth" x1
//@ rewrite E17 "(?<=for insert_entity in )entry\.1(?= \{)" => "entry.1.iter_mut()" x1
//@ rewrite E17 "(?<=for auth in )entry\.1(?= \{)" => "entry.1.iter_mut()" x1
//@ insert body-start
        broadcast use {lemma_user_rows_step};
        let ghost l0 = entry.1@;
        let ghost room0 = *room;
//@ loop "for insert_entity in" iter iti
                        invariant
                            // [admin_entries_demand_the_room_admin_right_whatever_they_are]{C01}
                            *need_room_admin,
                            room.id == room0.id, room.authorisations == room0.authorisations,
                            forall|i: int| 0 <= i < iti.seq().len() ==> *(#[trigger] iti.seq()[i]) == l0[i],
                            iti.seq().len() == l0.len(),
                            // [admin_rows_handled_so_far_are_in_the_room]{C10,C01}
                            user_rows_present(l0, iti.index@ as int, room.admins@),
//@ loop "for auth in" iter ita
                        invariant room.id == room0.id, *old(need_room_admin) ==> *need_room_admin,
                            forall|i: int| 0 <= i < ita.seq().len() ==> *(#[trigger] ita.seq()[i]) == l0[i],
                            ita.seq().len() == l0.len(),
                            // [no_admin_part_change_without_the_flag_so_far]{C01}
                            !*need_room_admin ==> admin_part_same(room0, *room),
//@ insert before-stmt "let need_mut ="
                        let ghost r1 = *room; let ghost a0 = *auth;
//@ insert after-stmt "let need_mut ="
                        proof { if !need_mut && !*need_room_admin { lemma_admin_part_step(room0, r1, *room, a0.node_to_mutate.id, *verifying_key, a0.node_to_mutate.date); } }
//@ spec
        requires
            entry.0@ == system_entities::ROOM_ADMIN_FIELD@ || entry.0@ == system_entities::ROOM_AUTHORISATION_FIELD@,    // the mutation parser only produces the two list fields of sys.Room
            entry.0@ == system_entities::ROOM_AUTHORISATION_FIELD@ ==> subs_keys_ok(old(entry.1)@),
        ensures
            r is Ok ==> final(room).id == old(room).id,
            // [room_admin_flag_only_raised] the demand for the room-admin right is never withdrawn
            *old(need_room_admin) ==> *final(need_room_admin),
            // [admin_entries_demand_the_room_admin_right]{C01} a room mutation that carries admin entries demands the room-admin right, whatever the entries are
            r is Ok && entry.0@ == system_entities::ROOM_ADMIN_FIELD@ ==> *final(need_room_admin),
            // [no_admin_part_change_without_the_room_admin_right]{C01} unless the room-admin right is demanded, this field of the mutation changed neither the admin list nor the rights or the user admins of any group (a new group has none)
            r is Ok && !*final(need_room_admin) ==> admin_part_same(*old(room), *final(room)),
            // [every_admin_row_of_a_room_mutation_is_in_the_resulting_room]{C10,C01} lower bound: every admin row the mutation carries was decoded at the row's own date and its entry is in the admin history of the resulting room
            r is Ok && entry.0@ == system_entities::ROOM_ADMIN_FIELD@ ==> user_rows_present(old(entry.1)@, old(entry.1)@.len() as int, final(room).admins@),
//@ end
} // verus!
fn main() {}
