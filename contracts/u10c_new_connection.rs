//@ unit u10c_new_connection props C19 also C08
// Unit U10c: how a new connection is set up before anything is proved (src/peer_connection_service.rs: the NewConnection arm of
// PeerConnectionService::process_peer_message, rule E9).  The serving side (unit u7_serving) treats a non-empty key cell as "the
// remote side proved this key"; the handshake (unit u10_handshake) writes the cell only after the proof.  Both rest on what this arm
// hands to the two services it starts: an EMPTY key cell, an empty set of allowed rooms, and the token type that the token table
// gave for the token and key this very connection presented.  Stated as preconditions of the stubs of the two `start` functions:
// every call site is an obligation.
#![allow(unused_imports, unused_variables, dead_code, unused_mut, non_snake_case)]
use vstd::prelude::*;
use std::collections::{HashMap, HashSet, VecDeque};
verus! {
pub type Uid = [u8; 16];
pub type MeetingToken = [u8; 7];
pub struct Error { x: u8 }
pub type Result<T> = std::result::Result<T, Error>;
/// std / tokio cells: `Arc<Mutex<T>>`, `Arc<AtomicBool>` - only what is put in them at creation matters here
pub struct Arc<T> { pub inner: T }
impl<T> Arc<T> {
    #[verifier::external_body]
    pub fn new(v: T) -> (r: Arc<T>) ensures r.inner == v { unimplemented!() }
    /// a clone of an Arc is the same cell
    #[verifier::external_body]
    pub fn clone(&self) -> (r: Arc<T>) ensures r == *self { unimplemented!() }
}
pub struct Mutex<T> { pub inner: T }
impl<T> Mutex<T> {
    #[verifier::external_body]
    pub fn new(v: T) -> (r: Mutex<T>) ensures r.inner == v { unimplemented!() }
}
pub struct AtomicBool { pub v: bool }
impl AtomicBool {
    #[verifier::external_body]
    pub fn new(v: bool) -> (r: AtomicBool) ensures r.v == v { unimplemented!() }
}
pub mod mpsc {
    pub struct Sender<T> { x: Option<T> }
    pub struct Receiver<T> { x: Option<T> }
    impl<T> Sender<T> {
        #[verifier::external_body]
        pub fn clone(&self) -> (r: Sender<T>) { unimplemented!() }
    }
}
pub mod broadcast { pub struct Receiver<T> { x: Option<T> } }
pub struct Answer { x: u8 }
pub struct QueryProtocol { x: u8 }
pub struct RemoteEvent { x: u8 }
pub struct LocalEvent { x: u8 }
pub struct Connection { x: u8 }
pub struct HardwareFingerprint { x: u8 }
impl HardwareFingerprint {
    #[verifier::external_body]
    pub fn clone(&self) -> (r: HardwareFingerprint) { unimplemented!() }
}
pub struct GraphDatabaseService { x: u8 }
impl GraphDatabaseService {
    #[verifier::external_body]
    pub fn clone(&self) -> (r: GraphDatabaseService) { unimplemented!() }
}
pub struct DiscretParams { pub verifying_key: Vec<u8>, pub hardware_fingerprint: HardwareFingerprint }
pub struct DiscretServices { pub database: GraphDatabaseService }
pub struct PeerConnectionService { x: u8 }
impl PeerConnectionService {
    #[verifier::external_body]
    pub fn clone(&self) -> (r: PeerConnectionService) { unimplemented!() }
}
pub struct RoomLockService { x: u8 }
impl RoomLockService {
    #[verifier::external_body]
    pub fn clone(&self) -> (r: RoomLockService) { unimplemented!() }
}
pub struct QueryService { x: u8 }
impl QueryService {
    #[verifier::external_body]
    pub fn start(query_sender: mpsc::Sender<QueryProtocol>, answer_receiver: mpsc::Receiver<Answer>) -> (r: QueryService) { unimplemented!() }
}
//@ extract src/network/mod.rs :: struct ConnectionInfo
//@ end
impl Clone for ConnectionInfo {
    #[verifier::external_body]
    fn clone(&self) -> (r: ConnectionInfo) ensures r == *self { unimplemented!() }   // #[derive(Clone)]
}
//@ extract src/synchronisation/peer_outbound_service.rs :: struct RemotePeerHandle
//@ end
/// an entry of the token table (under contract in unit u12_invites): opaque here
pub struct TokenType { x: u8 }
/// what the token table answers for a meeting token and a claimed key (PeerManager::get_token_type, unit u12_invites); the table is not
/// changed by anything this arm calls (add_connection only records the connection), so the answer is a function of its two arguments here
pub uninterp spec fn spec_token_type(token: MeetingToken, key: Seq<u8>) -> TokenType;
pub struct PeerManager { x: u8 }
impl PeerManager {
    #[verifier::external_body]
    pub fn circuit_id(endpoint_id: Uid, remote_id: Uid) -> (r: [u8; 32]) { unimplemented!() }
    #[verifier::external_body]
    pub fn get_token_type(&self, token: &MeetingToken, key: &Vec<u8>) -> (r: Result<TokenType>) ensures r is Ok ==> r->Ok_0 == spec_token_type(*token, key@) { unimplemented!() }
    /// connection bookkeeping (election between duplicate connections): does not touch the token table
    #[verifier::external_body]
    pub fn add_connection(&mut self, circuit_id: [u8; 32], conn: Connection, conn_id: Uid, token: MeetingToken) { unimplemented!() }
}
pub struct InboundQueryService { x: u8 }
impl InboundQueryService {
    #[verifier::external_body]
    pub fn start(fingerprint: HardwareFingerprint, circuit_id: [u8; 32], conn_id: Uid, peer: RemotePeerHandle, receiver: mpsc::Receiver<QueryProtocol>,
                 peer_service: PeerConnectionService, verifying_key: Arc<Mutex<Vec<u8>>>, conn_ready: Arc<AtomicBool>) -> (r: InboundQueryService)
        requires
            // [no_key_bound_before_the_proof]{C19,C08} the serving side of a new connection starts with an EMPTY key cell: it answers nothing until the handshake has written the proven key into it - never a key the remote side merely announced
            verifying_key.inner.inner@.len() == 0,
            // [no_room_allowed_before_authentication]{C08,C19} and with no room allowed
            peer.allowed_room@ == Set::<Uid>::empty(),
    { unimplemented!() }
}
pub struct LocalPeerService { x: u8 }
impl LocalPeerService {
    #[verifier::external_body]
    pub fn start(remote_event: mpsc::Receiver<RemoteEvent>, local_event: broadcast::Receiver<LocalEvent>, circuit_id: [u8; 32], connection_info: ConnectionInfo,
                 verifying_key: Vec<u8>, token_type: TokenType, remote_verifying_key: Arc<Mutex<Vec<u8>>>, conn_ready: Arc<AtomicBool>, lock_service: RoomLockService,
                 query_service: QueryService, event_sender: mpsc::Sender<RemoteEvent>, peer_service: PeerConnectionService, inbound_query_service: InboundQueryService,
                 discret_services: &DiscretServices)
        requires
            // [handshake_starts_with_no_key_bound]{C19} the handshake starts on an empty key cell too (the same cell: a clone of the Arc)
            remote_verifying_key.inner.inner@.len() == 0,
            // [handshake_checks_the_token_this_connection_presented]{C19} the token type the handshake will check the proven key against is the entry the token table holds for the meeting token and the key THIS connection presented
            token_type == spec_token_type(connection_info.meeting_token, connection_info.peer_verifying_key@),
    { unimplemented!() }
}
//@ extract src/peer_connection_service.rs :: impl PeerConnectionService / fn process_peer_message as PeerConnectionService::lifted_new_connection
//@ lift "event_receiver, ) =>" :: fn lifted_new_connection(connection: Option<Connection>, connection_info: ConnectionInfo, answer_sender: mpsc::Sender<Answer>, answer_receiver: mpsc::Receiver<Answer>, query_sender: mpsc::Sender<QueryProtocol>, query_receiver: mpsc::Receiver<QueryProtocol>, event_sender: mpsc::Sender<RemoteEvent>, event_receiver: mpsc::Receiver<RemoteEvent>, peer_manager: &mut PeerManager, discret_params: &DiscretParams, discret_services: &DiscretServices, peer_service: &PeerConnectionService, lock_service: &RoomLockService, local_event_broadcast: broadcast::Receiver<LocalEvent>) -> (r: Result<()>) tail "Ok(())"
//@ end
} // verus!
fn main() {}
