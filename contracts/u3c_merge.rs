//@ unit u3c_merge props C07 C10
// Unit U3c: merging a room definition received from a peer with the definition already held
// (src/database/room_node.rs prepare_auth_with_history / prepare_room_with_history).
#![feature(allocator_api)]
#![allow(unused_imports, unused_variables, dead_code, unused_mut, non_snake_case)]
use vstd::prelude::*;
use vstd::std_specs::iter::IteratorSpec;
use vstd::std_specs::hash::*;
use vstd::std_specs::cmp::PartialEqSpec;
use std::alloc::Allocator;
use std::collections::{HashMap, HashSet};
verus! {
broadcast use {vstd::laws_eq::group_laws_eq, vstd::std_specs::hash::group_hash_axioms, trusted_keys::group_trusted_keys};
pub type Uid = [u8; 16];
pub enum Error { AuthorisationExists(), InvalidUserDate(), InvalidRightDate(), InvalidNode(String) }
pub type Result<T> = std::result::Result<T, Error>;
#[verifier::external_body]
pub fn fmt_stub() -> (r: String) { unimplemented!() }

//@ extract src/database/room.rs :: const WILDCARD_ENTITY
//@ end
//@ extract src/database/room.rs :: struct Room
//@ end
//@ extract src/database/room.rs :: struct Authorisation
//@ end
//@ extract src/database/room.rs :: struct User
//@ end
//@ extract src/database/room.rs :: struct EntityRight
//@ end
//@ extract src/database/room.rs :: enum RightType
//@ end
//@ extract src/database/node.rs :: struct Node
//@ end
//@ extract src/database/edge.rs :: struct Edge
//@ end
//@ extract src/database/room_node.rs :: struct UserNode
//@ end
//@ extract src/database/room_node.rs :: struct EntityRightNode
//@ end
//@ extract src/database/room_node.rs :: struct AuthorisationNode
//@ end
//@ extract src/database/room_node.rs :: struct RoomNode
//@ end
//@ include common/room_spec.rs opaque spec_is_admin,spec_can_admin_users,spec_member,spec_can,spec_room_member,spec_auth_can,spec_right_at,spec_ever_listed,users_appended,users_unchanged,rights_appended,rights_unchanged
//@ use-contract u1_room.rs :: Room::is_admin
//@ use-contract u1_room.rs :: Authorisation::can_admin_users
//@ use-contract u1_room.rs :: Authorisation::add_user_admin
//@ use-contract u1_room.rs :: Room::add_admin_user

// derived Clone (E1): the clone equals the original
impl Edge { #[verifier::external_body] pub fn clone(&self) -> (r: Edge) ensures r == *self { unimplemented!() } }
impl UserNode { #[verifier::external_body] pub fn clone(&self) -> (r: UserNode) ensures r == *self { unimplemented!() } }
impl EntityRightNode { #[verifier::external_body] pub fn clone(&self) -> (r: EntityRightNode) ensures r == *self { unimplemented!() } }
impl AuthorisationNode { #[verifier::external_body] pub fn clone(&self) -> (r: AuthorisationNode) ensures r == *self { unimplemented!() } }
impl Authorisation { #[verifier::external_body] pub fn clone(&self) -> (r: Authorisation) ensures r == *self { unimplemented!() } }
impl Room { #[verifier::external_body] pub fn clone(&self) -> (r: Room) ensures r == *self { unimplemented!() } }
impl Node { #[verifier::external_body] pub fn clone(&self) -> (r: Node) ensures r == *self { unimplemented!() } }

/// decoding of an entry row (JSON): uninterpreted here (the JSON decoders are under contract in u3_loaders)
pub uninterp spec fn spec_user_of(n: UserNode) -> User;
impl UserNode {
    #[verifier::external_body]
    pub fn parse(&self) -> (r: Result<User>) ensures r is Ok ==> r->Ok_0 == spec_user_of(*self) { unimplemented!() }
}

//@ extract src/database/edge.rs :: impl Edge / fn eq
//@ result r
//@ insert body-start
        proof { reveal(edge_same); assert(<Vec<u8> as PartialEqSpec<Vec<u8>>>::obeys_eq_spec()); assert(<[u8; 16] as PartialEqSpec<[u8; 16]>>::obeys_eq_spec()); }
//@ spec
        ensures r == edge_same(*self, *edg),
//@ end
#[verifier::opaque]
pub open spec fn edge_same(a: Edge, b: Edge) -> bool {
    a.src@ =~= b.src@ && a.src_entity@ =~= b.src_entity@ && a.label@ =~= b.label@ && a.dest@ =~= b.dest@ && a.cdate == b.cdate && a.verifying_key@ =~= b.verifying_key@
}
//@ extract src/database/node.rs :: impl Node / fn eq
//@ result r
//@ insert body-start
        proof { reveal(node_same); assert(<Vec<u8> as PartialEqSpec<Vec<u8>>>::obeys_eq_spec()); assert(<[u8; 16] as PartialEqSpec<[u8; 16]>>::obeys_eq_spec()); }
//@ spec
        ensures r == node_same(*self, *node),
//@ end
pub open spec fn opt_uid_same(a: Option<Uid>, b: Option<Uid>) -> bool { match (a, b) { (Some(x), Some(y)) => x@ =~= y@, (None, None) => true, _ => false } }
pub open spec fn opt_str_same(a: Option<String>, b: Option<String>) -> bool { match (a, b) { (Some(x), Some(y)) => x@ =~= y@, (None, None) => true, _ => false } }
pub open spec fn opt_bin_same(a: Option<Vec<u8>>, b: Option<Vec<u8>>) -> bool { match (a, b) { (Some(x), Some(y)) => x@ =~= y@, (None, None) => true, _ => false } }
/// every signed field of the two rows is equal (the local storage slot `_local_id` and the signature bytes are not compared)
#[verifier::opaque]
pub open spec fn node_same(a: Node, b: Node) -> bool {
    opt_uid_same(a.room_id, b.room_id) && opt_str_same(a._json, b._json) && opt_bin_same(a._binary, b._binary)
    && a.id@ =~= b.id@ && a.cdate == b.cdate && a.mdate == b.mdate && a._entity@ =~= b._entity@ && a.verifying_key@ =~= b.verifying_key@
}

// E18: `v.iter_mut().find(|x| x.node.id.eq(&k))` is replaced by these stubs, which carry the std semantics of that chain
// (ASSUMED): the first element whose id equals k is returned as the only live mutable reference, every other element of the
// vector is untouched.
#[verifier::opaque]
pub open spec fn has_id_user(s: Seq<UserNode>, id: Seq<u8>) -> bool { exists|j: int| 0 <= j < s.len() && (#[trigger] s[j]).node.id@ =~= id }
#[verifier::opaque]
pub open spec fn first_idx_user(s: Seq<UserNode>, id: Seq<u8>) -> int {
    choose|idx: int| 0 <= idx < s.len() && (#[trigger] s[idx]).node.id@ =~= id && (forall|j: int| 0 <= j < idx ==> !((#[trigger] s[j]).node.id@ =~= id))
}
#[verifier::opaque]
pub open spec fn has_id_right(s: Seq<EntityRightNode>, id: Seq<u8>) -> bool { exists|j: int| 0 <= j < s.len() && (#[trigger] s[j]).node.id@ =~= id }
#[verifier::opaque]
pub open spec fn first_idx_right(s: Seq<EntityRightNode>, id: Seq<u8>) -> int {
    choose|idx: int| 0 <= idx < s.len() && (#[trigger] s[idx]).node.id@ =~= id && (forall|j: int| 0 <= j < idx ==> !((#[trigger] s[j]).node.id@ =~= id))
}
#[verifier::external_body]
pub fn find_mut_user<'a>(v: &'a mut Vec<UserNode>, id: &Uid) -> (r: Option<&'a mut UserNode>)
    ensures
        match r {
            Some(u) => has_id_user(old(v)@, id@) && ({
                let idx = first_idx_user(old(v)@, id@);
                0 <= idx < old(v)@.len() && old(v)@[idx].node.id@ =~= id@ && *u == old(v)@[idx] && final(v)@ == old(v)@.update(idx, *final(u))
            }),
            None => !has_id_user(old(v)@, id@) && final(v)@ == old(v)@,
        }
{ unimplemented!() }
#[verifier::external_body]
pub fn find_mut_right<'a>(v: &'a mut Vec<EntityRightNode>, id: &Uid) -> (r: Option<&'a mut EntityRightNode>)
    ensures
        match r {
            Some(u) => has_id_right(old(v)@, id@) && ({
                let idx = first_idx_right(old(v)@, id@);
                0 <= idx < old(v)@.len() && old(v)@[idx].node.id@ =~= id@ && *u == old(v)@[idx] && final(v)@ == old(v)@.update(idx, *final(u))
            }),
            None => !has_id_right(old(v)@, id@) && final(v)@ == old(v)@,
        }
{ unimplemented!() }

// slice::sort_by: the result is a permutation of the input (ordering itself is not relied on)
pub assume_specification<T, F: FnMut(&T, &T) -> std::cmp::Ordering>[ <[T]>::sort_by ](s: &mut [T], compare: F)
    ensures final(s)@.to_multiset() == old(s)@.to_multiset();

/// "nothing new": every entry of the merged list is an entry already held (by id)
pub open spec fn all_users_held(s: Seq<UserNode>, n: int, old_s: Seq<UserNode>) -> bool { forall|i: int| 0 <= i < n ==> id_in_users((#[trigger] s[i]).node.id, old_s) }
pub open spec fn all_rights_held(s: Seq<EntityRightNode>, n: int, old_s: Seq<EntityRightNode>) -> bool { forall|i: int| 0 <= i < n ==> id_in_rights((#[trigger] s[i]).node.id, old_s) }
pub open spec fn id_in_users(id: Uid, s: Seq<UserNode>) -> bool { exists|j: int| 0 <= j < s.len() && (#[trigger] s[j]).node.id@ =~= id@ }
pub open spec fn id_in_rights(id: Uid, s: Seq<EntityRightNode>) -> bool { exists|j: int| 0 <= j < s.len() && (#[trigger] s[j]).node.id@ =~= id@ }
/// every user-admin entry of the merged group that the receiver did not already hold was authored by a room admin at the entry's date
pub open spec fn new_user_admins_entitled(room: Room, old_s: Seq<UserNode>, s: Seq<UserNode>) -> bool {
    forall|i: int| 0 <= i < s.len() ==> id_in_users((#[trigger] s[i]).node.id, old_s) || spec_is_admin(room, s[i].node.verifying_key, s[i].node.mdate)
}
/// every new user entry was authored by a user admin of the group (as extended by the accepted new user admins) or by a room admin
pub open spec fn new_users_entitled(room: Room, acc: Authorisation, old_s: Seq<UserNode>, s: Seq<UserNode>) -> bool {
    forall|i: int| 0 <= i < s.len() ==> id_in_users((#[trigger] s[i]).node.id, old_s)
        || spec_can_admin_users(acc, s[i].node.verifying_key, s[i].node.mdate) || spec_is_admin(room, s[i].node.verifying_key, s[i].node.mdate)
}
pub open spec fn new_rights_entitled(room: Room, old_s: Seq<EntityRightNode>, s: Seq<EntityRightNode>) -> bool {
    forall|i: int| 0 <= i < s.len() ==> id_in_rights((#[trigger] s[i]).node.id, old_s) || spec_is_admin(room, s[i].node.verifying_key, s[i].node.mdate)
}
/// the list `s` still holds an entry whose signed content equals that of the entry `o` held before
pub open spec fn has_same_user(s: Seq<UserNode>, o: UserNode) -> bool { exists|i: int| 0 <= i < s.len() && node_same((#[trigger] s[i]).node, o.node) }
pub open spec fn has_same_right(s: Seq<EntityRightNode>, o: EntityRightNode) -> bool { exists|i: int| 0 <= i < s.len() && node_same((#[trigger] s[i]).node, o.node) }
pub open spec fn has_same_edge(s: Seq<Edge>, o: Edge) -> bool { exists|i: int| 0 <= i < s.len() && edge_same(#[trigger] s[i], o) }
pub open spec fn keeps_users(old_s: Seq<UserNode>, s: Seq<UserNode>) -> bool { forall|j: int| 0 <= j < old_s.len() ==> has_same_user(s, #[trigger] old_s[j]) }
pub open spec fn keeps_rights(old_s: Seq<EntityRightNode>, s: Seq<EntityRightNode>) -> bool { forall|j: int| 0 <= j < old_s.len() ==> has_same_right(s, #[trigger] old_s[j]) }
pub open spec fn keeps_edges(old_s: Seq<Edge>, s: Seq<Edge>) -> bool { forall|j: int| 0 <= j < old_s.len() ==> has_same_edge(s, #[trigger] old_s[j]) }
pub open spec fn node_with_local(n: Node, l: Option<i64>) -> Node { Node { _local_id: l, ..n } }
/// `a` is `b` except possibly for the local storage slot of its row
pub open spec fn unode_eqv(a: UserNode, b: UserNode) -> bool { a == (UserNode { node: node_with_local(b.node, a.node._local_id) }) }
pub open spec fn rnode_eqv(a: EntityRightNode, b: EntityRightNode) -> bool { a == (EntityRightNode { node: node_with_local(b.node, a.node._local_id) }) }
pub proof fn lemma_node_same_local(a: Node, b: Node, x: Node)
    requires a == node_with_local(b, a._local_id),
    ensures node_same(a, x) == node_same(b, x), node_same(a, a),
{ reveal(node_same); }

pub proof fn lemma_perm_keeps_users(s1: Seq<UserNode>, s2: Seq<UserNode>, old_s: Seq<UserNode>)
    requires s1.to_multiset() == s2.to_multiset(), keeps_users(old_s, s1),
    ensures keeps_users(old_s, s2),
{
    s1.to_multiset_ensures(); s2.to_multiset_ensures();
    assert forall|j: int| 0 <= j < old_s.len() implies has_same_user(s2, #[trigger] old_s[j]) by {
        let i = choose|i: int| 0 <= i < s1.len() && node_same((#[trigger] s1[i]).node, old_s[j].node);
        assert(s1.contains(s1[i]));
        assert(s1.to_multiset().count(s1[i]) > 0);
        assert(s2.to_multiset().count(s1[i]) > 0);
        assert(s2.contains(s1[i]));
        let k = choose|k: int| 0 <= k < s2.len() && s2[k] == s1[i];
        assert(node_same(s2[k].node, old_s[j].node));
    }
}
pub proof fn lemma_perm_keeps_rights(s1: Seq<EntityRightNode>, s2: Seq<EntityRightNode>, old_s: Seq<EntityRightNode>)
    requires s1.to_multiset() == s2.to_multiset(), keeps_rights(old_s, s1),
    ensures keeps_rights(old_s, s2),
{
    s1.to_multiset_ensures(); s2.to_multiset_ensures();
    assert forall|j: int| 0 <= j < old_s.len() implies has_same_right(s2, #[trigger] old_s[j]) by {
        let i = choose|i: int| 0 <= i < s1.len() && node_same((#[trigger] s1[i]).node, old_s[j].node);
        assert(s1.contains(s1[i]));
        assert(s1.to_multiset().count(s1[i]) > 0);
        assert(s2.to_multiset().count(s1[i]) > 0);
        assert(s2.contains(s1[i]));
        let k = choose|k: int| 0 <= k < s2.len() && s2[k] == s1[i];
        assert(node_same(s2[k].node, old_s[j].node));
    }
}
pub proof fn lemma_edge_same_refl(e: Edge) ensures edge_same(e, e) { reveal(edge_same); }
pub proof fn lemma_step_keeps_edges(before: Seq<Edge>, after: Seq<Edge>, old_s: Seq<Edge>, upto: int, o: Edge)
    requires
        0 <= upto <= old_s.len(),
        forall|j: int| 0 <= j < upto ==> has_same_edge(before, #[trigger] old_s[j]),
        (after == before && has_same_edge(before, o)) || after == before.push(o),
    ensures
        forall|j: int| 0 <= j < upto ==> has_same_edge(after, #[trigger] old_s[j]),
        has_same_edge(after, o),
{
    assert forall|j: int| 0 <= j < upto implies has_same_edge(after, #[trigger] old_s[j]) by {
        let i = choose|i: int| 0 <= i < before.len() && edge_same(#[trigger] before[i], old_s[j]);
        assert(after[i] == before[i]);
    }
    if after == before.push(o) && !(after == before && has_same_edge(before, o)) {
        lemma_edge_same_refl(o);
        assert(after[after.len() - 1] == o);
    }
}
pub proof fn lemma_perm_keeps_edges(s1: Seq<Edge>, s2: Seq<Edge>, old_s: Seq<Edge>)
    requires s1.to_multiset() == s2.to_multiset(), keeps_edges(old_s, s1),
    ensures keeps_edges(old_s, s2),
{
    s1.to_multiset_ensures(); s2.to_multiset_ensures();
    assert forall|j: int| 0 <= j < old_s.len() implies has_same_edge(s2, #[trigger] old_s[j]) by {
        let i = choose|i: int| 0 <= i < s1.len() && edge_same(#[trigger] s1[i], old_s[j]);
        assert(s1.contains(s1[i]));
        assert(s1.to_multiset().count(s1[i]) > 0);
        assert(s2.to_multiset().count(s1[i]) > 0);
        assert(s2.contains(s1[i]));
        let k = choose|k: int| 0 <= k < s2.len() && s2[k] == s1[i];
        assert(edge_same(s2[k], old_s[j]));
    }
}
/// one step of the merge loop over the entries already held: the list `after` is `before` with one entry's storage slot
/// changed, or with one entry appended; every entry that was kept before is still kept, and the entry `o` just handled is kept
pub proof fn lemma_step_keeps_users(before: Seq<UserNode>, after: Seq<UserNode>, old_s: Seq<UserNode>, upto: int, o: UserNode)
    requires
        0 <= upto <= old_s.len(),
        forall|j: int| 0 <= j < upto ==> has_same_user(before, #[trigger] old_s[j]),
        (has_id_user(before, o.node.id@) && after.len() == before.len()
            && (forall|i: int| 0 <= i < before.len() ==> unode_eqv(#[trigger] after[i], before[i]))
            && node_same(before[first_idx_user(before, o.node.id@)].node, o.node)
            && 0 <= first_idx_user(before, o.node.id@) < before.len())
        || (!has_id_user(before, o.node.id@) && after == before.push(o)),
    ensures
        forall|j: int| 0 <= j < upto ==> has_same_user(after, #[trigger] old_s[j]),
        has_same_user(after, o),
{
    if has_id_user(before, o.node.id@) {
        assert forall|j: int| 0 <= j < upto implies has_same_user(after, #[trigger] old_s[j]) by {
            let i = choose|i: int| 0 <= i < before.len() && node_same((#[trigger] before[i]).node, old_s[j].node);
            assert(unode_eqv(after[i], before[i]));
            lemma_node_same_local(after[i].node, before[i].node, old_s[j].node);
        }
        let idx = first_idx_user(before, o.node.id@);
        assert(unode_eqv(after[idx], before[idx]));
        lemma_node_same_local(after[idx].node, before[idx].node, o.node);
    } else {
        assert forall|j: int| 0 <= j < upto implies has_same_user(after, #[trigger] old_s[j]) by {
            let i = choose|i: int| 0 <= i < before.len() && node_same((#[trigger] before[i]).node, old_s[j].node);
            assert(after[i] == before[i]);
        }
        lemma_node_same_local(o.node, o.node, o.node);
        assert(after[after.len() - 1] == o);
    }
}
pub proof fn lemma_step_keeps_rights(before: Seq<EntityRightNode>, after: Seq<EntityRightNode>, old_s: Seq<EntityRightNode>, upto: int, o: EntityRightNode)
    requires
        0 <= upto <= old_s.len(),
        forall|j: int| 0 <= j < upto ==> has_same_right(before, #[trigger] old_s[j]),
        (has_id_right(before, o.node.id@) && after.len() == before.len()
            && (forall|i: int| 0 <= i < before.len() ==> rnode_eqv(#[trigger] after[i], before[i]))
            && node_same(before[first_idx_right(before, o.node.id@)].node, o.node)
            && 0 <= first_idx_right(before, o.node.id@) < before.len())
        || (!has_id_right(before, o.node.id@) && after == before.push(o)),
    ensures
        forall|j: int| 0 <= j < upto ==> has_same_right(after, #[trigger] old_s[j]),
        has_same_right(after, o),
{
    if has_id_right(before, o.node.id@) {
        assert forall|j: int| 0 <= j < upto implies has_same_right(after, #[trigger] old_s[j]) by {
            let i = choose|i: int| 0 <= i < before.len() && node_same((#[trigger] before[i]).node, old_s[j].node);
            assert(rnode_eqv(after[i], before[i]));
            lemma_node_same_local(after[i].node, before[i].node, old_s[j].node);
        }
        let idx = first_idx_right(before, o.node.id@);
        assert(rnode_eqv(after[idx], before[idx]));
        lemma_node_same_local(after[idx].node, before[idx].node, o.node);
    } else {
        assert forall|j: int| 0 <= j < upto implies has_same_right(after, #[trigger] old_s[j]) by {
            let i = choose|i: int| 0 <= i < before.len() && node_same((#[trigger] before[i]).node, old_s[j].node);
            assert(after[i] == before[i]);
        }
        lemma_node_same_local(o.node, o.node, o.node);
        assert(after[after.len() - 1] == o);
    }
}
/// lets a contract name a group whether the code holds it by value or by reference
pub trait AsAuth { spec fn as_auth(&self) -> Authorisation; }
impl AsAuth for Authorisation { open spec fn as_auth(&self) -> Authorisation { *self } }
impl AsAuth for &Authorisation { open spec fn as_auth(&self) -> Authorisation { **self } }
/// the entry `u` is in the history of its key in `m`
pub open spec fn entry_in(m: Map<Vec<u8>, Vec<User>>, u: User) -> bool { m.contains_key(u.verifying_key) && m[u.verifying_key]@.contains(u) }
/// `acc` (the group against which new users are checked) contains every user-admin entry of the merged list that was not already
/// held: user admins revoked or added by the very definition being merged are taken into account when its new users are checked
pub open spec fn acc_has_new_user_admins(acc: Authorisation, old_s: Seq<UserNode>, s: Seq<UserNode>) -> bool {
    forall|i: int| 0 <= i < s.len() ==> id_in_users((#[trigger] s[i]).node.id, old_s) || entry_in(acc.user_admins@, spec_user_of(s[i]))
}
pub proof fn lemma_appended_keeps_entries(a: Map<Vec<u8>, Vec<User>>, b: Map<Vec<u8>, Vec<User>>, added: User, u: User)
    requires users_appended(a, b, added), entry_in(a, u) || u == added,
    ensures entry_in(b, u),
{
    reveal(users_appended);
    if u == added {
        assert(b[added.verifying_key]@ == user_list(a, added.verifying_key).push(added));
        assert(b[added.verifying_key]@[user_list(a, added.verifying_key).len() as int] == added);
    } else if u.verifying_key == added.verifying_key {
        let l = a[u.verifying_key]@;
        let k = choose|k: int| 0 <= k < l.len() && l[k] == u;
        assert(b[u.verifying_key]@ == l.push(added));
        assert(b[u.verifying_key]@[k] == u);
    } else {
        assert(a.contains_key(u.verifying_key) == b.contains_key(u.verifying_key));
        assert(a[u.verifying_key] == b[u.verifying_key]);
    }
}

//@ extract src/database/room_node.rs :: fn prepare_auth_with_history
//@ result r
//@ rewrite E16 "(?s)\"[A-Za-z, ]+\"\s*\.to_string\(\)" => "fmt_stub()" x*
//@ rewrite E18 "(?s)new_auth\s*\.(user_admin_nodes|user_nodes)\s*\.iter_mut\(\)\s*\.find\(\|user\| user\.node\.id\.eq\(&old_user\.node\.id\)\)" => "find_mut_user(&mut new_auth.\1, &old_user.node.id)" x2
//@ rewrite E18 "(?s)new_auth\s*\.right_nodes\s*\.iter_mut\(\)\s*\.find\(\|user\| user\.node\.id\.eq\(&old_right\.node\.id\)\)" => "find_mut_right(&mut new_auth.right_nodes, &old_right.node.id)" x1
//@ insert body-start
        proof { assert(<[u8; 16] as PartialEqSpec<[u8; 16]>>::obeys_eq_spec()); }
//@ closure "|user|" #2 ret bool
        ensures b == (user.node.id@ =~= new_user_admin.node.id@)
//@ closure "|user|" #4 ret bool
        ensures b == (user.node.id@ =~= new_user.node.id@)
//@ closure "|user|" #6 ret bool
        ensures b == (user.node.id@ =~= new_right.node.id@)
//@ closure "|edge|" #1 ret bool
        ensures b == edge_same(**edge, *old_edge)
//@ loop "for old_edge in &old_auth.user_admin_edges" iter ite
        invariant
            // [merge_keeps_user_admin_references] every reference to a user-admin entry already held is still in the merged list
            forall|j: int| 0 <= j < ite.index@ ==> has_same_edge(new_auth.user_admin_edges@, #[trigger] old_auth.user_admin_edges@[j]),
//@ insert before-stmt "let user_admin_edge = &new_auth"
        let ghost e_before = new_auth.user_admin_edges@;
//@ insert after-stmt "let user_admin_edge = &new_auth"
        assert(user_admin_edge is Some ==> has_same_edge(e_before, *old_edge));
//@ insert after-stmt "user_admin_edge.is_none()"
        proof { lemma_step_keeps_edges(e_before, new_auth.user_admin_edges@, old_auth.user_admin_edges@, ite.index@ as int, *old_edge); }
//@ insert before-stmt ".sort_by(|a, b| a.cdate.cmp(&b.cdate))" #1
    let ghost uae_before_sort = new_auth.user_admin_edges@;
    assert(keeps_edges(old_auth.user_admin_edges@, uae_before_sort));
//@ insert after-stmt ".sort_by(|a, b| a.cdate.cmp(&b.cdate))" #1
    proof { lemma_perm_keeps_edges(uae_before_sort, new_auth.user_admin_edges@, old_auth.user_admin_edges@); }
    let ghost uae_final = new_auth.user_admin_edges@;
//@ loop "for old_user in &old_auth.user_admin_nodes" iter ito
        invariant
            new_auth.user_admin_edges@ == uae_final,
            // [merge_keeps_user_admin_entries] every user-admin entry already held is still in the merged list with the same signed content (an entry whose content differs is refused)
            forall|j: int| 0 <= j < ito.index@ ==> has_same_user(new_auth.user_admin_nodes@, #[trigger] old_auth.user_admin_nodes@[j]),
//@ insert before-stmt "let user_admin_node = new_auth" #1
        let ghost ua_before = new_auth.user_admin_nodes@;
//@ insert after-stmt "match user_admin_node {" #1
        proof {
            lemma_step_keeps_users(ua_before, new_auth.user_admin_nodes@, old_auth.user_admin_nodes@, ito.index@ as int, *old_user);
        }
//@ insert before-stmt ".sort_by(|a, b| a.node.mdate.cmp(&b.node.mdate))" #1
    let ghost ua_before_sort = new_auth.user_admin_nodes@;
    assert(keeps_users(old_auth.user_admin_nodes@, ua_before_sort));
//@ insert after-stmt ".sort_by(|a, b| a.node.mdate.cmp(&b.node.mdate))" #1
    proof { lemma_perm_keeps_users(ua_before_sort, new_auth.user_admin_nodes@, old_auth.user_admin_nodes@); }
//@ loop "for new_user_admin in &new_auth.user_admin_nodes" iter it
        invariant
            <[u8; 16] as PartialEqSpec<[u8; 16]>>::obeys_eq_spec(),
            // [merge_new_user_admins_by_admins] a user-admin entry not already held is accepted only from a room admin at the entry's date
            forall|i: int| 0 <= i < it.index@ ==> id_in_users((#[trigger] new_auth.user_admin_nodes@[i]).node.id, old_auth.user_admin_nodes@)
                || spec_is_admin(*room, new_auth.user_admin_nodes@[i].node.verifying_key, new_auth.user_admin_nodes@[i].node.mdate),
            // [no_new_user_admin_goes_unreported_so_far]{C10} as long as the merge reports "nothing to write", every user-admin entry seen is one already held
            !need_update ==> all_users_held(new_auth.user_admin_nodes@, it.index@ as int, old_auth.user_admin_nodes@),
            // [merge_new_user_admins_applied] and is applied to the group against which the definition's new users are checked
            forall|i: int| 0 <= i < it.index@ ==> id_in_users((#[trigger] new_auth.user_admin_nodes@[i]).node.id, old_auth.user_admin_nodes@)
                || entry_in(authorisation.as_auth().user_admins@, spec_user_of(new_auth.user_admin_nodes@[i])),
//@ insert before-stmt "authorisation.add_user_admin(user)"
                    let ghost acc_before = authorisation.as_auth(); let ghost added = user;
//@ insert after-stmt "authorisation.add_user_admin(user)"
                    proof {
                        assert forall|i: int| 0 <= i < it.index@ && !id_in_users((#[trigger] new_auth.user_admin_nodes@[i]).node.id, old_auth.user_admin_nodes@)
                            implies entry_in(authorisation.as_auth().user_admins@, spec_user_of(new_auth.user_admin_nodes@[i])) by {
                            lemma_appended_keeps_entries(acc_before.user_admins@, authorisation.as_auth().user_admins@, added, spec_user_of(new_auth.user_admin_nodes@[i]));
                        }
                        lemma_appended_keeps_entries(acc_before.user_admins@, authorisation.as_auth().user_admins@, added, added);
                    }
//@ insert after-stmt "for new_user_admin in &new_auth.user_admin_nodes"
    let ghost ua_final = new_auth.user_admin_nodes@;
    assert(new_user_admins_entitled(*room, old_auth.user_admin_nodes@, ua_final));
    assert(acc_has_new_user_admins(authorisation.as_auth(), old_auth.user_admin_nodes@, ua_final));
    let ghost acc_final = authorisation.as_auth();
//@ closure "|edge|" #2 ret bool
        ensures b == edge_same(**edge, *old_edge)
//@ loop "for old_edge in &old_auth.user_edges" iter ite
        invariant new_auth.user_admin_nodes@ == ua_final, new_auth.user_admin_edges@ == uae_final,
            // [merge_keeps_user_references]
            forall|j: int| 0 <= j < ite.index@ ==> has_same_edge(new_auth.user_edges@, #[trigger] old_auth.user_edges@[j]),
//@ insert before-stmt "let user_edge = &new_auth"
        let ghost e_before = new_auth.user_edges@;
//@ insert after-stmt "let user_edge = &new_auth"
        assert(user_edge is Some ==> has_same_edge(e_before, *old_edge));
//@ insert after-stmt "user_edge.is_none()"
        proof { lemma_step_keeps_edges(e_before, new_auth.user_edges@, old_auth.user_edges@, ite.index@ as int, *old_edge); }
//@ insert before-stmt ".sort_by(|a, b| a.cdate.cmp(&b.cdate))" #2
    let ghost ue_before_sort = new_auth.user_edges@;
    assert(keeps_edges(old_auth.user_edges@, ue_before_sort));
//@ insert after-stmt ".sort_by(|a, b| a.cdate.cmp(&b.cdate))" #2
    proof { lemma_perm_keeps_edges(ue_before_sort, new_auth.user_edges@, old_auth.user_edges@); }
    let ghost ue_final = new_auth.user_edges@;
//@ loop "for old_user in &old_auth.user_nodes" iter ito
        invariant new_auth.user_admin_nodes@ == ua_final, new_auth.user_admin_edges@ == uae_final, new_auth.user_edges@ == ue_final,
            // [merge_keeps_user_entries] every user entry already held is still in the merged list with the same signed content
            forall|j: int| 0 <= j < ito.index@ ==> has_same_user(new_auth.user_nodes@, #[trigger] old_auth.user_nodes@[j]),
//@ insert before-stmt "let user_node = new_auth" #1
        let ghost u_before = new_auth.user_nodes@;
//@ insert after-stmt "match user_node {" #1
        proof {
            lemma_step_keeps_users(u_before, new_auth.user_nodes@, old_auth.user_nodes@, ito.index@ as int, *old_user);
        }
//@ insert before-stmt ".sort_by(|a, b| a.node.mdate.cmp(&b.node.mdate))" #2
    let ghost u_before_sort = new_auth.user_nodes@;
    assert(keeps_users(old_auth.user_nodes@, u_before_sort));
//@ insert after-stmt ".sort_by(|a, b| a.node.mdate.cmp(&b.node.mdate))" #2
    proof { lemma_perm_keeps_users(u_before_sort, new_auth.user_nodes@, old_auth.user_nodes@); }
//@ loop "for new_user in &new_auth.user_nodes" iter it
        invariant
            <[u8; 16] as PartialEqSpec<[u8; 16]>>::obeys_eq_spec(),
            new_auth.user_admin_nodes@ == ua_final, authorisation.as_auth() == acc_final,
            !need_update ==> all_users_held(ua_final, ua_final.len() as int, old_auth.user_admin_nodes@),
            // [no_new_user_goes_unreported_so_far]{C10}
            !need_update ==> all_users_held(new_auth.user_nodes@, it.index@ as int, old_auth.user_nodes@),
            // [merge_new_users_by_user_admins_or_admins] a user entry not already held is accepted only from a user admin of the group or a room admin at the entry's date
            forall|i: int| 0 <= i < it.index@ ==> id_in_users((#[trigger] new_auth.user_nodes@[i]).node.id, old_auth.user_nodes@)
                || spec_can_admin_users(authorisation.as_auth(), new_auth.user_nodes@[i].node.verifying_key, new_auth.user_nodes@[i].node.mdate)
                || spec_is_admin(*room, new_auth.user_nodes@[i].node.verifying_key, new_auth.user_nodes@[i].node.mdate),
//@ insert after-stmt "for new_user in &new_auth.user_nodes"
    let ghost u_final = new_auth.user_nodes@;
    assert(new_users_entitled(*room, authorisation.as_auth(), old_auth.user_nodes@, u_final));
//@ closure "|edge|" #3 ret bool
        ensures b == edge_same(**edge, *old_edge)
//@ loop "for old_edge in &old_auth.right_edges" iter ite
        invariant new_auth.user_admin_nodes@ == ua_final, new_auth.user_nodes@ == u_final, new_auth.user_admin_edges@ == uae_final, new_auth.user_edges@ == ue_final,
            // [merge_keeps_right_references]
            forall|j: int| 0 <= j < ite.index@ ==> has_same_edge(new_auth.right_edges@, #[trigger] old_auth.right_edges@[j]),
//@ insert before-stmt "let right_edge = &new_auth"
        let ghost e_before = new_auth.right_edges@;
//@ insert after-stmt "let right_edge = &new_auth"
        assert(right_edge is Some ==> has_same_edge(e_before, *old_edge));
//@ insert after-stmt "right_edge.is_none()"
        proof { lemma_step_keeps_edges(e_before, new_auth.right_edges@, old_auth.right_edges@, ite.index@ as int, *old_edge); }
//@ insert before-stmt ".sort_by(|a, b| a.cdate.cmp(&b.cdate))" #3
    let ghost re_before_sort = new_auth.right_edges@;
    assert(keeps_edges(old_auth.right_edges@, re_before_sort));
//@ insert after-stmt ".sort_by(|a, b| a.cdate.cmp(&b.cdate))" #3
    proof { lemma_perm_keeps_edges(re_before_sort, new_auth.right_edges@, old_auth.right_edges@); }
    let ghost re_final = new_auth.right_edges@;
//@ loop "for old_right in &old_auth.right_nodes" iter ito
        invariant new_auth.user_admin_nodes@ == ua_final, new_auth.user_nodes@ == u_final, new_auth.user_admin_edges@ == uae_final, new_auth.user_edges@ == ue_final, new_auth.right_edges@ == re_final,
            // [merge_keeps_right_entries] every right entry already held is still in the merged list with the same signed content
            forall|j: int| 0 <= j < ito.index@ ==> has_same_right(new_auth.right_nodes@, #[trigger] old_auth.right_nodes@[j]),
//@ insert before-stmt "let right_node = new_auth" #1
        let ghost r_before = new_auth.right_nodes@;
//@ insert after-stmt "match right_node {" #1
        proof {
            lemma_step_keeps_rights(r_before, new_auth.right_nodes@, old_auth.right_nodes@, ito.index@ as int, *old_right);
        }
//@ insert before-stmt ".sort_by(|a, b| a.node.mdate.cmp(&b.node.mdate))" #3
    let ghost r_before_sort = new_auth.right_nodes@;
    assert(keeps_rights(old_auth.right_nodes@, r_before_sort));
//@ insert after-stmt ".sort_by(|a, b| a.node.mdate.cmp(&b.node.mdate))" #3
    proof { lemma_perm_keeps_rights(r_before_sort, new_auth.right_nodes@, old_auth.right_nodes@); }
//@ loop "for new_right in &new_auth.right_nodes" iter it
        invariant
            <[u8; 16] as PartialEqSpec<[u8; 16]>>::obeys_eq_spec(),
            new_auth.user_admin_nodes@ == ua_final, new_auth.user_nodes@ == u_final,
            !need_update ==> all_users_held(ua_final, ua_final.len() as int, old_auth.user_admin_nodes@) && all_users_held(u_final, u_final.len() as int, old_auth.user_nodes@),
            // [no_new_right_goes_unreported_so_far]{C10}
            !need_update ==> all_rights_held(new_auth.right_nodes@, it.index@ as int, old_auth.right_nodes@),
            // [merge_new_rights_by_admins] a right entry not already held is accepted only from a room admin at the entry's date
            forall|i: int| 0 <= i < it.index@ ==> id_in_rights((#[trigger] new_auth.right_nodes@[i]).node.id, old_auth.right_nodes@)
                || spec_is_admin(*room, new_auth.right_nodes@[i].node.verifying_key, new_auth.right_nodes@[i].node.mdate),
//@ spec
        requires room.authorisations@.contains_key(old_auth.node.id),
        ensures
            // [merged_group_keeps_user_admins] accepting the definition never removes or alters a user-admin entry already held
            r is Ok ==> keeps_users(old_auth.user_admin_nodes@, final(new_auth).user_admin_nodes@),
            // [merged_group_row_untouched] the group row itself is not altered by the merge of its lists
            final(new_auth).node == old(new_auth).node,
            // [merged_group_write_flag_untouched] nor is the decision to write the group row
            final(new_auth).need_update == old(new_auth).need_update,
            // [merged_group_keeps_references] nor any reference that attaches an entry already held
            r is Ok ==> keeps_edges(old_auth.user_admin_edges@, final(new_auth).user_admin_edges@)
                && keeps_edges(old_auth.user_edges@, final(new_auth).user_edges@) && keeps_edges(old_auth.right_edges@, final(new_auth).right_edges@),
            // [merged_group_keeps_users]
            r is Ok ==> keeps_users(old_auth.user_nodes@, final(new_auth).user_nodes@),
            // [merged_group_keeps_rights]
            r is Ok ==> keeps_rights(old_auth.right_nodes@, final(new_auth).right_nodes@),
            // [merged_group_new_user_admins_entitled]
            r is Ok ==> new_user_admins_entitled(*room, old_auth.user_admin_nodes@, final(new_auth).user_admin_nodes@),
            // [merged_group_new_users_entitled]
            r is Ok ==> exists|acc: Authorisation| acc_has_new_user_admins(acc, old_auth.user_admin_nodes@, final(new_auth).user_admin_nodes@)
                && new_users_entitled(*room, acc, old_auth.user_nodes@, final(new_auth).user_nodes@),
            // [merged_group_new_rights_entitled]
            r is Ok ==> new_rights_entitled(*room, old_auth.right_nodes@, final(new_auth).right_nodes@),
            // [group_merge_reports_nothing_to_write_only_when_nothing_is_new]{C10} lower bound of the verdict: the merge of a group answers "nothing to write" only when every user-admin, user and right entry of the merged group is one already held - a definition received from a peer that brings a new entry is always written, so that the importer's room is the sender's after a restart too
            r is Ok && !r->Ok_0 ==> all_users_held(final(new_auth).user_admin_nodes@, final(new_auth).user_admin_nodes@.len() as int, old_auth.user_admin_nodes@)
                && all_users_held(final(new_auth).user_nodes@, final(new_auth).user_nodes@.len() as int, old_auth.user_nodes@)
                && all_rights_held(final(new_auth).right_nodes@, final(new_auth).right_nodes@.len() as int, old_auth.right_nodes@),
//@ end

// ================================================================= room level
pub open spec fn new_admin_refs_by_admins(room: Room, old_edges: Seq<Edge>, new_edges: Seq<Edge>) -> bool {
    forall|i: int| 0 <= i < new_edges.len() ==> (exists|j: int| 0 <= j < old_edges.len() && old_edges[j] == #[trigger] new_edges[i])
        || spec_is_admin(room, new_edges[i].verifying_key, new_edges[i].cdate)
}
pub open spec fn id_in_auths(id: Uid, s: Seq<AuthorisationNode>) -> bool { exists|j: int| 0 <= j < s.len() && (#[trigger] s[j]).node.id@ =~= id@ }
#[verifier::opaque]
pub open spec fn has_id_auth(s: Seq<AuthorisationNode>, id: Seq<u8>) -> bool { exists|j: int| 0 <= j < s.len() && (#[trigger] s[j]).node.id@ =~= id }
#[verifier::opaque]
pub open spec fn first_idx_auth(s: Seq<AuthorisationNode>, id: Seq<u8>) -> int {
    choose|idx: int| 0 <= idx < s.len() && (#[trigger] s[idx]).node.id@ =~= id && (forall|j: int| 0 <= j < idx ==> !((#[trigger] s[j]).node.id@ =~= id))
}
#[verifier::external_body]
pub fn find_mut_auth<'a>(v: &'a mut Vec<AuthorisationNode>, id: &Uid) -> (r: Option<&'a mut AuthorisationNode>)
    ensures
        match r {
            Some(u) => has_id_auth(old(v)@, id@) && ({
                let idx = first_idx_auth(old(v)@, id@);
                0 <= idx < old(v)@.len() && old(v)@[idx].node.id@ =~= id@ && *u == old(v)@[idx] && final(v)@ == old(v)@.update(idx, *final(u))
            }),
            None => !has_id_auth(old(v)@, id@) && final(v)@ == old(v)@,
        }
{ unimplemented!() }
//@ use-contract u3b_import.rs :: prepare_new_auth
impl RoomNode {
    #[verifier::external_body]
    pub fn parse(&self) -> (r: Result<Room>) { unimplemented!() }
}
pub uninterp spec fn spec_parse_auth(n: AuthorisationNode) -> Authorisation;
impl AuthorisationNode {
    #[verifier::external_body]
    pub fn parse(&self) -> (r: Result<Authorisation>) ensures r is Ok ==> r->Ok_0 == spec_parse_auth(*self) { unimplemented!() }
}
pub open spec fn users_by_admin(room: Room, s: Seq<UserNode>) -> bool {
    forall|i: int| 0 <= i < s.len() ==> spec_is_admin(room, (#[trigger] s[i]).node.verifying_key, s[i].node.mdate)
}
pub open spec fn rights_by_admin(room: Room, s: Seq<EntityRightNode>) -> bool {
    forall|i: int| 0 <= i < s.len() ==> spec_is_admin(room, (#[trigger] s[i]).node.verifying_key, s[i].node.mdate)
}

/// the merged group `n` is the group `o` already held, with every entry and reference of `o` kept; its row is the row
/// already held or a newer row authored by an admin of `acc`
pub open spec fn group_keeps(acc: Room, o: AuthorisationNode, n: AuthorisationNode) -> bool {
    n.node.id@ =~= o.node.id@
    && (node_same(n.node, o.node) || spec_is_admin(acc, n.node.verifying_key, n.node.mdate))
    && keeps_users(o.user_admin_nodes@, n.user_admin_nodes@) && keeps_users(o.user_nodes@, n.user_nodes@) && keeps_rights(o.right_nodes@, n.right_nodes@)
    && keeps_edges(o.user_admin_edges@, n.user_admin_edges@) && keeps_edges(o.user_edges@, n.user_edges@) && keeps_edges(o.right_edges@, n.right_edges@)
}
pub open spec fn has_kept_group(acc: Room, s: Seq<AuthorisationNode>, o: AuthorisationNode) -> bool { exists|i: int| 0 <= i < s.len() && group_keeps(acc, o, #[trigger] s[i]) }
pub open spec fn keeps_groups(acc: Room, old_s: Seq<AuthorisationNode>, s: Seq<AuthorisationNode>) -> bool { forall|j: int| 0 <= j < old_s.len() ==> has_kept_group(acc, s, #[trigger] old_s[j]) }
pub open spec fn distinct_group_ids(s: Seq<AuthorisationNode>) -> bool { forall|a: int, b: int| 0 <= a < b < s.len() ==> !((#[trigger] s[a]).node.id@ =~= (#[trigger] s[b]).node.id@) }
pub proof fn lemma_group_keeps_refl(acc: Room, o: AuthorisationNode)
    ensures group_keeps(acc, o, o)
{
    lemma_node_same_local(o.node, o.node, o.node);
    assert forall|j: int| 0 <= j < o.user_admin_nodes@.len() implies has_same_user(o.user_admin_nodes@, #[trigger] o.user_admin_nodes@[j]) by { lemma_node_same_local(o.user_admin_nodes@[j].node, o.user_admin_nodes@[j].node, o.user_admin_nodes@[j].node); }
    assert forall|j: int| 0 <= j < o.user_nodes@.len() implies has_same_user(o.user_nodes@, #[trigger] o.user_nodes@[j]) by { lemma_node_same_local(o.user_nodes@[j].node, o.user_nodes@[j].node, o.user_nodes@[j].node); }
    assert forall|j: int| 0 <= j < o.right_nodes@.len() implies has_same_right(o.right_nodes@, #[trigger] o.right_nodes@[j]) by { lemma_node_same_local(o.right_nodes@[j].node, o.right_nodes@[j].node, o.right_nodes@[j].node); }
    assert forall|j: int| 0 <= j < o.user_admin_edges@.len() implies has_same_edge(o.user_admin_edges@, #[trigger] o.user_admin_edges@[j]) by { lemma_edge_same_refl(o.user_admin_edges@[j]); }
    assert forall|j: int| 0 <= j < o.user_edges@.len() implies has_same_edge(o.user_edges@, #[trigger] o.user_edges@[j]) by { lemma_edge_same_refl(o.user_edges@[j]); }
    assert forall|j: int| 0 <= j < o.right_edges@.len() implies has_same_edge(o.right_edges@, #[trigger] o.right_edges@[j]) by { lemma_edge_same_refl(o.right_edges@[j]); }
}
/// one step of the loop over the groups already held
pub proof fn lemma_step_keeps_groups(acc: Room, before: Seq<AuthorisationNode>, after: Seq<AuthorisationNode>, old_s: Seq<AuthorisationNode>, upto: int)
    requires
        0 <= upto < old_s.len(), distinct_group_ids(old_s),
        forall|j: int| 0 <= j < upto ==> has_kept_group(acc, before, #[trigger] old_s[j]),
        (has_id_auth(before, old_s[upto].node.id@) && ({
            let idx = first_idx_auth(before, old_s[upto].node.id@);
            0 <= idx < before.len() && before[idx].node.id@ =~= old_s[upto].node.id@ && after == before.update(idx, after[idx]) && group_keeps(acc, old_s[upto], after[idx])
        })) || (!has_id_auth(before, old_s[upto].node.id@) && after == before.push(old_s[upto])),
    ensures
        forall|j: int| 0 <= j <= upto ==> has_kept_group(acc, after, #[trigger] old_s[j]),
{
    let o = old_s[upto];
    if has_id_auth(before, o.node.id@) {
        let idx = first_idx_auth(before, o.node.id@);
        assert forall|j: int| 0 <= j <= upto implies has_kept_group(acc, after, #[trigger] old_s[j]) by {
            if j < upto {
                let i = choose|i: int| 0 <= i < before.len() && group_keeps(acc, old_s[j], #[trigger] before[i]);
                assert(!(old_s[j].node.id@ =~= old_s[upto].node.id@));
                assert(i != idx);
                assert(after[i] == before[i]);
            } else {
                assert(group_keeps(acc, old_s[j], after[idx]));
            }
        }
    } else {
        assert forall|j: int| 0 <= j <= upto implies has_kept_group(acc, after, #[trigger] old_s[j]) by {
            if j < upto {
                let i = choose|i: int| 0 <= i < before.len() && group_keeps(acc, old_s[j], #[trigger] before[i]);
                assert(after[i] == before[i]);
            } else {
                lemma_group_keeps_refl(acc, o);
                assert(after[after.len() - 1] == o);
            }
        }
    }
}
/// "nothing new" for a group already held: the merged group has the row held and every entry of its three lists is one already held
pub open spec fn group_unchanged(o: AuthorisationNode, n: AuthorisationNode) -> bool {
    n.node.id@ =~= o.node.id@ && node_same(n.node, o.node)
    && all_users_held(n.user_admin_nodes@, n.user_admin_nodes@.len() as int, o.user_admin_nodes@)
    && all_users_held(n.user_nodes@, n.user_nodes@.len() as int, o.user_nodes@)
    && all_rights_held(n.right_nodes@, n.right_nodes@.len() as int, o.right_nodes@)
}
pub open spec fn has_unchanged_group(s: Seq<AuthorisationNode>, o: AuthorisationNode) -> bool { exists|i: int| 0 <= i < s.len() && group_unchanged(o, #[trigger] s[i]) }
pub open spec fn all_auths_held(s: Seq<AuthorisationNode>, n: int, old_s: Seq<AuthorisationNode>) -> bool { forall|i: int| 0 <= i < n ==> id_in_auths((#[trigger] s[i]).node.id, old_s) }
pub proof fn lemma_group_unchanged_refl(o: AuthorisationNode)
    ensures group_unchanged(o, o)
{
    lemma_node_same_local(o.node, o.node, o.node);
    assert forall|i: int| 0 <= i < o.user_admin_nodes@.len() implies id_in_users((#[trigger] o.user_admin_nodes@[i]).node.id, o.user_admin_nodes@) by { assert(o.user_admin_nodes@[i].node.id@ =~= o.user_admin_nodes@[i].node.id@); }
    assert forall|i: int| 0 <= i < o.user_nodes@.len() implies id_in_users((#[trigger] o.user_nodes@[i]).node.id, o.user_nodes@) by { assert(o.user_nodes@[i].node.id@ =~= o.user_nodes@[i].node.id@); }
    assert forall|i: int| 0 <= i < o.right_nodes@.len() implies id_in_rights((#[trigger] o.right_nodes@[i]).node.id, o.right_nodes@) by { assert(o.right_nodes@[i].node.id@ =~= o.right_nodes@[i].node.id@); }
}
/// the same step for "held and nothing new"
pub proof fn lemma_step_unchanged_groups(before: Seq<AuthorisationNode>, after: Seq<AuthorisationNode>, old_s: Seq<AuthorisationNode>, upto: int)
    requires
        0 <= upto < old_s.len(), distinct_group_ids(old_s),
        forall|j: int| 0 <= j < upto ==> has_unchanged_group(before, #[trigger] old_s[j]),
        (has_id_auth(before, old_s[upto].node.id@) && ({
            let idx = first_idx_auth(before, old_s[upto].node.id@);
            0 <= idx < before.len() && before[idx].node.id@ =~= old_s[upto].node.id@ && after == before.update(idx, after[idx]) && group_unchanged(old_s[upto], after[idx])
        })) || (!has_id_auth(before, old_s[upto].node.id@) && after == before.push(old_s[upto])),
    ensures
        forall|j: int| 0 <= j <= upto ==> has_unchanged_group(after, #[trigger] old_s[j]),
{
    let o = old_s[upto];
    if has_id_auth(before, o.node.id@) {
        let idx = first_idx_auth(before, o.node.id@);
        assert forall|j: int| 0 <= j <= upto implies has_unchanged_group(after, #[trigger] old_s[j]) by {
            if j < upto {
                let i = choose|i: int| 0 <= i < before.len() && group_unchanged(old_s[j], #[trigger] before[i]);
                assert(!(old_s[j].node.id@ =~= old_s[upto].node.id@));
                assert(i != idx);
                assert(after[i] == before[i]);
            } else {
                assert(group_unchanged(old_s[j], after[idx]));
            }
        }
    } else {
        assert forall|j: int| 0 <= j <= upto implies has_unchanged_group(after, #[trigger] old_s[j]) by {
            if j < upto {
                let i = choose|i: int| 0 <= i < before.len() && group_unchanged(old_s[j], #[trigger] before[i]);
                assert(after[i] == before[i]);
            } else {
                lemma_group_unchanged_refl(o);
                assert(after[after.len() - 1] == o);
            }
        }
    }
}
/// a group that is new to the receiver: authored by an admin, its rights and user admins authored by admins, its users by its user admins or by admins
pub open spec fn new_group_ok(acc: Room, n: AuthorisationNode) -> bool {
    spec_is_admin(acc, n.node.verifying_key, n.node.mdate)
    && rights_by_admin(acc, n.right_nodes@) && users_by_admin(acc, n.user_admin_nodes@)
    && (forall|i: int| 0 <= i < n.user_nodes@.len() ==> spec_can_admin_users(spec_parse_auth(n), (#[trigger] n.user_nodes@[i]).node.verifying_key, n.user_nodes@[i].node.mdate)
            || spec_is_admin(acc, n.user_nodes@[i].node.verifying_key, n.user_nodes@[i].node.mdate))
}
pub open spec fn new_groups_entitled(acc: Room, old_s: Seq<AuthorisationNode>, s: Seq<AuthorisationNode>) -> bool {
    forall|i: int| 0 <= i < s.len() ==> id_in_auths((#[trigger] s[i]).node.id, old_s) || new_group_ok(acc, s[i])
}

/// a group row is left unwritten (need_update false) only when it IS the row held for that group: what is stored never depends on
/// the unsigned need_update flag of the message (C10: the definition stored is the definition merged)
pub open spec fn unflagged_are_held(s: Seq<AuthorisationNode>, old_s: Seq<AuthorisationNode>) -> bool {
    forall|i: int| 0 <= i < s.len() ==> (#[trigger] s[i]).need_update || exists|j: int| 0 <= j < old_s.len() && s[i].node == (#[trigger] old_s[j]).node
}
pub open spec fn all_flagged(s: Seq<AuthorisationNode>) -> bool { forall|i: int| 0 <= i < s.len() ==> (#[trigger] s[i]).need_update }
/// `acc` is the room held by the receiver, extended only in its admin list
pub open spec fn admin_ext(room0: Room, acc: Room) -> bool { acc.id == room0.id && acc.authorisations == room0.authorisations }
/// the admin entry `n` was authored by a key that is an admin, at the entry's date, of the room held by the receiver
/// extended by the (entitled) admin entries accepted before it
pub open spec fn entitled_admin_entry(room0: Room, n: UserNode) -> bool {
    exists|acc: Room| admin_ext(room0, acc) && spec_is_admin(acc, n.node.verifying_key, n.node.mdate)
}
pub open spec fn new_admins_entitled(room0: Room, old_s: Seq<UserNode>, s: Seq<UserNode>) -> bool {
    forall|i: int| 0 <= i < s.len() ==> id_in_users((#[trigger] s[i]).node.id, old_s) || entitled_admin_entry(room0, s[i])
}

//@ extract src/database/room_node.rs :: fn prepare_room_with_history
//@ result r
//@ rewrite E16 "(?s)\"[A-Za-z, ]+\"\s*\.to_string\(\)" => "fmt_stub()" x*
//@ rewrite E18 "(?s)room_node\s*\.admin_nodes\s*\.iter_mut\(\)\s*\.find\(\|user\| user\.node\.id\.eq\(&old_user\.node\.id\)\)" => "find_mut_user(&mut room_node.admin_nodes, &old_user.node.id)" x1
//@ rewrite E18 "(?s)room_node\s*\.auth_nodes\s*\.iter_mut\(\)\s*\.find\(\|auth\| auth\.node\.id\.eq\(&old_auth\.node\.id\)\)" => "find_mut_auth(&mut room_node.auth_nodes, &old_auth.node.id)" x1
//@ insert after-stmt "let mut room = room.clone()"
    let ghost room0 = room;
//@ closure "|edge|" #1 ret bool
        ensures b == edge_same(**edge, *old_edge)
//@ closure "|edge|" #2 ret bool
        ensures b == edge_same(**edge, *old_edge)
//@ closure "|user|" #2 ret bool
        ensures b == (user.node.id@ =~= new_admin.node.id@)
//@ loop "for old_edge in &old_room_node.admin_edges" iter ite
        invariant
            all_flagged(old(room_node).auth_nodes@) ==> unflagged_are_held(room_node.auth_nodes@, old_room_node.auth_nodes@),
            // [room_merge_keeps_admin_references]
            forall|j: int| 0 <= j < ite.index@ ==> has_same_edge(room_node.admin_edges@, #[trigger] old_room_node.admin_edges@[j]),
//@ insert before-stmt "let admin_edge = &room_node"
        let ghost e_before = room_node.admin_edges@;
//@ insert after-stmt "let admin_edge = &room_node"
        assert(admin_edge is Some ==> has_same_edge(e_before, *old_edge));
//@ insert after-stmt "admin_edge.is_none()"
        proof { lemma_step_keeps_edges(e_before, room_node.admin_edges@, old_room_node.admin_edges@, ite.index@ as int, *old_edge); }
//@ insert before-stmt "room_node.admin_edges.sort_by("
    let ghost ae_before_sort = room_node.admin_edges@;
    assert(keeps_edges(old_room_node.admin_edges@, ae_before_sort));
//@ insert after-stmt "room_node.admin_edges.sort_by("
    proof { lemma_perm_keeps_edges(ae_before_sort, room_node.admin_edges@, old_room_node.admin_edges@); }
    let ghost ae_final = room_node.admin_edges@;
//@ loop "for old_user in &old_room_node.admin_nodes" iter ito
        invariant
            all_flagged(old(room_node).auth_nodes@) ==> unflagged_are_held(room_node.auth_nodes@, old_room_node.auth_nodes@),
            room_node.admin_edges@ == ae_final,
            // [room_merge_keeps_admin_entries] every admin entry already held is still in the merged list with the same signed content
            forall|j: int| 0 <= j < ito.index@ ==> has_same_user(room_node.admin_nodes@, #[trigger] old_room_node.admin_nodes@[j]),
//@ insert before-stmt "let admin_node = room_node"
        let ghost a_before = room_node.admin_nodes@;
//@ insert after-stmt "match admin_node {"
        proof { lemma_step_keeps_users(a_before, room_node.admin_nodes@, old_room_node.admin_nodes@, ito.index@ as int, *old_user); }
//@ insert before-stmt ".sort_by(|a, b| a.node.mdate.cmp(&b.node.mdate))"
    let ghost a_before_sort = room_node.admin_nodes@;
    assert(keeps_users(old_room_node.admin_nodes@, a_before_sort));
//@ insert after-stmt ".sort_by(|a, b| a.node.mdate.cmp(&b.node.mdate))"
    proof { lemma_perm_keeps_users(a_before_sort, room_node.admin_nodes@, old_room_node.admin_nodes@); }
    let ghost a_final = room_node.admin_nodes@;
//@ loop "for new_admin in &room_node.admin_nodes" iter it
        invariant
            all_flagged(old(room_node).auth_nodes@) ==> unflagged_are_held(room_node.auth_nodes@, old_room_node.auth_nodes@),
            <[u8; 16] as PartialEqSpec<[u8; 16]>>::obeys_eq_spec(),
            admin_ext(room0, room),
            // [no_new_admin_goes_unreported_so_far]{C10}
            !need_update ==> all_users_held(room_node.admin_nodes@, it.index@ as int, old_room_node.admin_nodes@),
            // [room_merge_new_admins_by_admins] an admin entry not already held is accepted only from a key that is an admin at the entry's date
            forall|i: int| 0 <= i < it.index@ ==> id_in_users((#[trigger] room_node.admin_nodes@[i]).node.id, old_room_node.admin_nodes@) || entitled_admin_entry(room0, room_node.admin_nodes@[i]),
//@ insert before-stmt "let user = new_admin.parse()"
                    assert(entitled_admin_entry(room0, *new_admin));
//@ insert after-stmt "for new_admin in &room_node.admin_nodes"
    assert(new_admins_entitled(room0, old_room_node.admin_nodes@, a_final));
    let ghost room_acc = room;
//@ loop "for old_edge in &old_room_node.auth_edges" iter ite
        invariant
            all_flagged(old(room_node).auth_nodes@) ==> unflagged_are_held(room_node.auth_nodes@, old_room_node.auth_nodes@),
            room_node.admin_edges@ == ae_final, room_node.admin_nodes@ == a_final,
            !need_update ==> all_users_held(a_final, a_final.len() as int, old_room_node.admin_nodes@),
            // [room_merge_keeps_group_references]
            forall|j: int| 0 <= j < ite.index@ ==> has_same_edge(room_node.auth_edges@, #[trigger] old_room_node.auth_edges@[j]),
//@ insert before-stmt "let auth_edge = &room_node"
        let ghost e_before = room_node.auth_edges@;
//@ insert after-stmt "let auth_edge = &room_node"
        assert(auth_edge is Some ==> has_same_edge(e_before, *old_edge));
//@ insert after-stmt "auth_edge.is_none()"
        proof { lemma_step_keeps_edges(e_before, room_node.auth_edges@, old_room_node.auth_edges@, ite.index@ as int, *old_edge); }
//@ insert after-stmt "for old_edge in &old_room_node.auth_edges"
    let ghost ge_final = room_node.auth_edges@;
    assert(keeps_edges(old_room_node.auth_edges@, ge_final));
//@ loop "for old_auth in &old_room_node.auth_nodes" iter itg
        invariant
            all_flagged(old(room_node).auth_nodes@) ==> unflagged_are_held(room_node.auth_nodes@, old_room_node.auth_nodes@),
            room_node.admin_edges@ == ae_final, room_node.admin_nodes@ == a_final, room_node.auth_edges@ == ge_final,
            room == room_acc, admin_ext(room0, room_acc), distinct_group_ids(old_room_node.auth_nodes@),
            !need_update ==> all_users_held(a_final, a_final.len() as int, old_room_node.admin_nodes@),
            // [no_changed_group_goes_unreported_so_far]{C10} as long as the merge reports "nothing to write", every group held seen so far is in the merged definition with the row held and no new entry
            !need_update ==> forall|j: int| 0 <= j < itg.index@ ==> has_unchanged_group(room_node.auth_nodes@, #[trigger] old_room_node.auth_nodes@[j]),
            forall|i: int| 0 <= i < old_room_node.auth_nodes@.len() ==> room0.authorisations@.contains_key((#[trigger] old_room_node.auth_nodes@[i]).node.id),
            // [room_merge_keeps_groups] every group already held is still in the merged definition, with every entry and reference it held; its row is the one held or a newer one authored by an admin
            forall|j: int| 0 <= j < itg.index@ ==> has_kept_group(room_acc, room_node.auth_nodes@, #[trigger] old_room_node.auth_nodes@[j]),
//@ insert before-stmt "let auth_node = room_node"
        let ghost g_before = room_node.auth_nodes@;
//@ insert after-stmt "match auth_node {"
        proof {
            lemma_node_same_local(old_auth.node, old_auth.node, old_auth.node);
            assert(old_room_node.auth_nodes@[itg.index@ as int] == *old_auth);
            if has_id_auth(g_before, old_auth.node.id@) {
                let idx = first_idx_auth(g_before, old_auth.node.id@);
                assert(room_node.auth_nodes@ == g_before.update(idx, room_node.auth_nodes@[idx]));
                assert(room_node.auth_nodes@[idx].node.id@ =~= old_auth.node.id@);
                assert(node_same(room_node.auth_nodes@[idx].node, old_auth.node) || spec_is_admin(room_acc, room_node.auth_nodes@[idx].node.verifying_key, room_node.auth_nodes@[idx].node.mdate));
                assert(group_keeps(room_acc, *old_auth, room_node.auth_nodes@[idx]));
            }
            lemma_step_keeps_groups(room_acc, g_before, room_node.auth_nodes@, old_room_node.auth_nodes@, itg.index@ as int);
            if !need_update {
                if has_id_auth(g_before, old_auth.node.id@) {
                    let idx = first_idx_auth(g_before, old_auth.node.id@);
                    lemma_node_same_local(room_node.auth_nodes@[idx].node, old_auth.node, old_auth.node);
                    // [group_held_counts_as_unchanged_only_with_the_row_held_and_no_new_entry]{C10}
                    assert(group_unchanged(*old_auth, room_node.auth_nodes@[idx]));
                }
                lemma_step_unchanged_groups(g_before, room_node.auth_nodes@, old_room_node.auth_nodes@, itg.index@ as int);
            }
        }
//@ insert after-stmt "for old_auth in &old_room_node.auth_nodes"
    let ghost g_final = room_node.auth_nodes@;
    assert(keeps_groups(room_acc, old_room_node.auth_nodes@, g_final));
//@ closure "|auth|" #2 ret bool
        ensures b == (auth.node.id@ =~= new_auth.node.id@)
//@ loop "for new_auth in &room_node.auth_nodes" iter it
        invariant
            all_flagged(old(room_node).auth_nodes@) ==> unflagged_are_held(room_node.auth_nodes@, old_room_node.auth_nodes@),
            <[u8; 16] as PartialEqSpec<[u8; 16]>>::obeys_eq_spec(),
            room == room_acc,
            room_node.admin_nodes@ == a_final, room_node.auth_nodes@ == g_final,
            !need_update ==> all_users_held(a_final, a_final.len() as int, old_room_node.admin_nodes@),
            !need_update ==> forall|j: int| 0 <= j < old_room_node.auth_nodes@.len() ==> has_unchanged_group(g_final, #[trigger] old_room_node.auth_nodes@[j]),
            // [no_new_group_goes_unreported_so_far]{C10}
            !need_update ==> all_auths_held(room_node.auth_nodes@, it.index@ as int, old_room_node.auth_nodes@),
            // [room_merge_new_groups_entitled] a group not already held is accepted only from an admin, with rights and user admins authored by admins and users by its user admins or by admins
            forall|i: int| 0 <= i < it.index@ ==> id_in_auths((#[trigger] room_node.auth_nodes@[i]).node.id, old_room_node.auth_nodes@) || new_group_ok(room_acc, room_node.auth_nodes@[i]),
//@ insert after-stmt "for new_auth in &room_node.auth_nodes"
    assert(new_groups_entitled(room_acc, old_room_node.auth_nodes@, g_final));
    proof {
        // [new_admin_references_authored_by_admins]{C07} (known finding F10) a reference that places an entry in the room's ADMIN list and was not already held must have been authored by an admin at its date: the code never consults the author of a reference, and the entry rows are not bound to a list, so a plain member can place an admin-signed USER entry in the admin list with a reference it signs itself
        if nondet(10) { assert(new_admin_refs_by_admins(room0, old_room_node.admin_edges@, room_node.admin_edges@)); }
    }
//@ spec
        requires
            forall|i: int| 0 <= i < old_room_node.auth_nodes@.len() ==> room.authorisations@.contains_key((#[trigger] old_room_node.auth_nodes@[i]).node.id),
            distinct_group_ids(old_room_node.auth_nodes@),       // the definition already held names each group once
        ensures
            // [merged_room_keeps_groups_and_new_groups_entitled] for some extension `acc` of the room held (admins only): every group already held is kept with all its entries and references; every other group is a legitimately authored new group
            r is Ok ==> exists|acc: Room| admin_ext(*room, acc) && keeps_groups(acc, old_room_node.auth_nodes@, final(room_node).auth_nodes@)
                && new_groups_entitled(acc, old_room_node.auth_nodes@, final(room_node).auth_nodes@),
            // [group_row_skipped_only_when_the_held_row_is_kept]{C10} when every received group arrives marked "to be written", a group row is left unwritten only when the row held is kept in its place
            r is Ok && all_flagged(old(room_node).auth_nodes@) ==> unflagged_are_held(final(room_node).auth_nodes@, old_room_node.auth_nodes@),
            // [merged_room_keeps_admins] accepting the definition never removes or alters an admin entry, nor a reference to an admin entry or to a group, already held
            r is Ok ==> keeps_users(old_room_node.admin_nodes@, final(room_node).admin_nodes@)
                && keeps_edges(old_room_node.admin_edges@, final(room_node).admin_edges@)
                && keeps_edges(old_room_node.auth_edges@, final(room_node).auth_edges@),
            // [room_merge_reports_nothing_to_write_only_when_nothing_is_new]{C10} lower bound of the verdict: the merge answers "nothing to write" only when every admin entry and every group of the merged definition is one already held, and every group held is there with the row held and no new entry - a definition received from a peer that brings anything new is always written, so that the importer holds the sender's room after a restart too
            r is Ok && !r->Ok_0 ==> all_users_held(final(room_node).admin_nodes@, final(room_node).admin_nodes@.len() as int, old_room_node.admin_nodes@)
                && all_auths_held(final(room_node).auth_nodes@, final(room_node).auth_nodes@.len() as int, old_room_node.auth_nodes@)
                && (forall|j: int| 0 <= j < old_room_node.auth_nodes@.len() ==> has_unchanged_group(final(room_node).auth_nodes@, #[trigger] old_room_node.auth_nodes@[j])),
            // [merged_room_new_admins_entitled] every admin entry not already held was authored by a key that is an admin at the entry's date
            r is Ok ==> new_admins_entitled(*room, old_room_node.admin_nodes@, final(room_node).admin_nodes@),
//@ end
pub uninterp spec fn nondet(k: int) -> bool;
// ================================================================= dispatch: a received definition is merged with what is held, or checked as new
//@ include common/keys.rs
//@ extract src/database/authorisation_service.rs :: struct RoomAuthorisations
//@ end
/// facts only the contracts of the two callees can establish (their bodies are under contract in u3b_import)
pub uninterp spec fn shape_checked(n: RoomNode) -> bool;       // RoomNode::check_consistency accepted it  (u3b#room_shape_consistent)
pub uninterp spec fn checked_as_new(n: RoomNode) -> bool;      // prepare_new_room accepted it             (u3b#new_room_whole_history_entitled)
impl RoomNode {
    #[verifier::external_body]
    pub fn check_consistency(&self) -> (r: Result<()>) ensures r is Ok ==> shape_checked(*self) { unimplemented!() }
}
#[verifier::external_body]
pub fn prepare_new_room(room_node: &RoomNode) -> (r: Result<()>) ensures r is Ok ==> checked_as_new(*room_node) { unimplemented!() }

//@ extract src/database/authorisation_service.rs :: impl RoomAuthorisations / fn prepare_room_node
//@ result r
//@ rewrite E16 "(?s)\"[A-Za-z, _]+\"\s*\.to_string\(\)" => "fmt_stub()" x*
//@ rewrite E17 "(?<=for auth in )&mut room_node\.auth_nodes(?= \{)" => "room_node.auth_nodes.iter_mut()" x1
//@ loop "for auth in &mut room_node.auth_nodes" iter ita
            invariant
                // [wire_flag_reset_touches_nothing_else] the unsigned need_update flag of the message is overwritten for every group; nothing else of the received definition changes
                forall|i: int| 0 <= i < ita.index@ ==> *final(#[trigger] ita.seq()[i]) == (AuthorisationNode { need_update: true, ..*ita.seq()[i] }),
//@ spec
        requires
            // the definition already held (read back from storage) names each group once and its groups are those of the in-memory room: ASSUMED of the storage / memory pair (C10)
            self.rooms@.contains_key(old(room_node).node.id) && old_room_node is Some ==>
                distinct_group_ids(old_room_node->Some_0.auth_nodes@)
                && forall|i: int| 0 <= i < old_room_node->Some_0.auth_nodes@.len() ==> self.rooms@[old(room_node).node.id].authorisations@.contains_key((#[trigger] old_room_node->Some_0.auth_nodes@[i]).node.id),
        ensures
            // [received_definition_shape_checked_first] nothing is accepted before the shape of the received definition was checked
            r is Ok ==> shape_checked(*old(room_node)),
            // [held_room_needs_the_definition_held] a definition for a room already held is never accepted without the definition held to merge it with
            self.rooms@.contains_key(old(room_node).node.id) && old_room_node is None ==> r is Err,
            // [held_room_is_merged_never_replaced] a definition for a room already held is merged with it: every admin entry and reference held is kept, every new admin entry is entitled, every group held is kept and every other group is a legitimately authored new group
            r is Ok && self.rooms@.contains_key(old(room_node).node.id) ==>
                keeps_users(old_room_node->Some_0.admin_nodes@, final(room_node).admin_nodes@)
                && keeps_edges(old_room_node->Some_0.admin_edges@, final(room_node).admin_edges@)
                && keeps_edges(old_room_node->Some_0.auth_edges@, final(room_node).auth_edges@)
                && new_admins_entitled(self.rooms@[old(room_node).node.id], old_room_node->Some_0.admin_nodes@, final(room_node).admin_nodes@)
                && exists|acc: Room| admin_ext(self.rooms@[old(room_node).node.id], acc) && keeps_groups(acc, old_room_node->Some_0.auth_nodes@, final(room_node).auth_nodes@)
                    && new_groups_entitled(acc, old_room_node->Some_0.auth_nodes@, final(room_node).auth_nodes@),
            // [stored_group_rows_do_not_depend_on_the_wire_flag]{C10} need_update is not signed: whatever value the message carried, a group row of an accepted definition is left unwritten only when the row held for that group is kept in its place (room held), and never for a room not held
            r is Ok && self.rooms@.contains_key(old(room_node).node.id) ==> unflagged_are_held(final(room_node).auth_nodes@, old_room_node->Some_0.auth_nodes@),
            r is Ok && !self.rooms@.contains_key(old(room_node).node.id) ==> all_flagged(final(room_node).auth_nodes@),
            // [unknown_room_checked_as_new] a definition for a room not held is accepted only through the whole-history check of a new room, and is then stored
            r is Ok && !self.rooms@.contains_key(old(room_node).node.id) ==> checked_as_new(*final(room_node)) && r->Ok_0,
//@ end

} // verus!
fn main() {}
