//@ unit u6_locks props C20
// Unit U6: the room lock scheduler (src/synchronisation/room_locking_service.rs), safety half of C20.
#![feature(allocator_api)]
#![allow(unused_imports, unused_variables, dead_code, unused_mut, non_snake_case)]
use vstd::prelude::*;
use vstd::std_specs::hash::*;
use vstd::std_specs::cmp::PartialEqSpec;
use vstd::std_specs::iter::IteratorSpec;
use std::collections::{HashMap, HashSet, VecDeque};
use std::alloc::Allocator;
verus! {
pub mod trusted {
    use vstd::prelude::*;
    use vstd::std_specs::hash::*;
    #[verifier::external_body]
    pub broadcast proof fn axiom_uid_key_model() ensures #[trigger] obeys_key_model::<[u8; 16]>() {}
    #[verifier::external_body]
    pub broadcast proof fn axiom_circ_key_model() ensures #[trigger] obeys_key_model::<[u8; 32]>() {}
    pub uninterp spec fn key_of_borrowed<K, Q: ?Sized>(q: &Q) -> K;
    #[verifier::external_body]
    pub broadcast proof fn axiom_key_of_borrowed_same<K>(q: &K) ensures #[trigger] key_of_borrowed::<K, K>(q) == *q {}
}
broadcast use {vstd::std_specs::hash::group_hash_axioms, trusted::axiom_uid_key_model, trusted::axiom_circ_key_model, trusted::axiom_key_of_borrowed_same, trusted_byvalue_deque::axiom_deque_into_iter_obeys, vstd::laws_eq::group_laws_eq};
pub type Uid = [u8; 16];

pub assume_specification<T, A: std::alloc::Allocator>[ std::collections::VecDeque::<T, A>::is_empty ](v: &std::collections::VecDeque<T, A>) -> (r: bool)
    ensures r == (v@.len() == 0);

// HashMap::get_mut: ASSUMED std semantics (the returned reference is the only way the map changes); `key_of_borrowed` is the
// owned key a borrowed key stands for (the identity when Q = K: trusted axiom)
pub assume_specification<'a, K, V, S, A, Q>[ std::collections::HashMap::<K, V, S, A>::get_mut ](m: &'a mut std::collections::HashMap<K, V, S, A>, k: &Q) -> (r: std::option::Option<&'a mut V>)
    where
        A: std::alloc::Allocator,
        K: std::cmp::Eq + std::hash::Hash + std::borrow::Borrow<Q>,
        Q: std::marker::MetaSized + std::hash::Hash + std::cmp::Eq + ?Sized,
        S: std::hash::BuildHasher
    ensures
        match r {
            Some(u) => old(m)@.contains_key(trusted::key_of_borrowed::<K, Q>(k)) && *u == old(m)@[trusted::key_of_borrowed::<K, Q>(k)] && final(m)@ == old(m)@.insert(trusted::key_of_borrowed::<K, Q>(k), *final(u)),
            None => !old(m)@.contains_key(trusted::key_of_borrowed::<K, Q>(k)) && final(m)@ == old(m)@,
        };

// tokio channels: opaque, nothing assumed (send may fail, recv may return anything)
pub mod mpsc {
    use vstd::prelude::*;
    pub struct UnboundedSender<T> { x: Option<T> }
    pub struct SendError { x: u8 }
    impl<T> UnboundedSender<T> {
        #[verifier::external_body]
        pub fn send(&self, t: T) -> Result<(), SendError> { unimplemented!() }
    }
    pub struct Receiver<T> { x: Option<T> }
    impl<T> Receiver<T> {
        #[verifier::external_body]
        pub async fn recv(&mut self) -> Option<T> { unimplemented!() }
    }
}

//@ extract src/synchronisation/room_locking_service.rs :: enum SyncLockMessage
//@ end
//@ extract src/synchronisation/room_locking_service.rs :: struct PeerLockRequest
//@ end

//@ include common/byvalue_iter.rs
// E20 (VecDeque form): `d.iter().any(f)` -> this stub with std's semantics: some element satisfies the closure
#[verifier::external_body]
pub fn deque_any<T, F: Fn(&T) -> bool>(d: &VecDeque<T>, f: F) -> (r: bool)
    ensures r == (exists|i: int| 0 <= i < d@.len() && call_ensures(f, (&d@[i],), true)),
            !r ==> forall|i: int| 0 <= i < d@.len() ==> call_ensures(f, (&#[trigger] d@[i],), false)
{ unimplemented!() }
// E33 (array form): `a.eq(b)` on `[u8; 16]` inside a closure -> this stub: the contents are compared
#[verifier::external_body]
pub fn uid_eq(a: &Uid, b: &Uid) -> (r: bool) ensures r == (*a == *b) { unimplemented!() }
pub open spec fn is_prefix<T>(a: Seq<T>, b: Seq<T>) -> bool { a.len() <= b.len() && b.subrange(0, a.len() as int) =~= a }

pub struct RoomLockService { x: u8 }

/// the slot invariant: every granted room holds exactly one of the `max_lock` slots
pub open spec fn slots_ok(locked: Set<Uid>, avalaible: usize, max_lock: usize) -> bool {
    locked.finite() && locked.len() + avalaible == max_lock
}
/// one scheduling step grants at most one room; a granted room was not locked before (exclusive),
/// takes exactly one slot, and nothing is released
pub open spec fn at_most_one_grant(old_locked: Set<Uid>, old_av: usize, new_locked: Set<Uid>, new_av: usize) -> bool {
    (new_locked == old_locked && new_av == old_av)
    || (exists|room: Uid| !old_locked.contains(room) && new_locked == old_locked.insert(room) && new_av + 1 == old_av)
}

//@ extract src/synchronisation/room_locking_service.rs :: impl RoomLockService / fn acquire_lock
//@ sync
//@ attr #[verifier::exec_allows_no_decreases_clause]
//@ loop "for _ in 0..peer_queue.len()"
            invariant_except_break *avalaible == *old(avalaible), old(locked)@ == locked@,
            invariant *old(avalaible) >= 1, old(locked)@.finite(),
            ensures at_most_one_grant(old(locked)@, *old(avalaible), locked@, *avalaible),
//@ loop "for _ in 0..lock_request.rooms.len()"
                        invariant_except_break *avalaible == *old(avalaible), old(locked)@ == locked@, !lock_aquired,
                        invariant *old(avalaible) >= 1, old(locked)@.finite(),
                        ensures at_most_one_grant(old(locked)@, *old(avalaible), locked@, *avalaible),
                                !lock_aquired ==> (*avalaible == *old(avalaible) && old(locked)@ == locked@),
//@ insert before-stmt "locked.insert(room)"
                                // [grant_only_unlocked_room] exclusive: the room just sent to the requester is not held by any connection
                                assert(!locked@.contains(room));
//@ spec
        requires
            *old(avalaible) >= 1,
            old(locked)@.finite(),
        ensures
            // [at_most_one_exclusive_grant] at most one room is granted per step; it was not locked, it now is, and it took exactly one free slot
            at_most_one_grant(old(locked)@, *old(avalaible), final(locked)@, *final(avalaible)),
            // [slots_conserved] hence locked + free stays constant (bounded by the configured limit)
            final(locked)@.finite() && final(locked)@.len() + *final(avalaible) == old(locked)@.len() + *old(avalaible),
//@ end

//@ extract src/synchronisation/room_locking_service.rs :: impl RoomLockService / fn start as RoomLockService::lifted_start_block
//@ lift "tokio::spawn(async move {" :: async fn lifted_start_block(receiver0: mpsc::Receiver<SyncLockMessage>, max_lock: usize)
//@ attr #[verifier::exec_allows_no_decreases_clause]
//@ insert body-start
    let mut receiver = receiver0;   // E9: captured variable of the async block
//@ rewrite E28 "for room in rooms \\{" => "for room in itr: deque_into_iter(rooms) invariant lock_request.reply == latest_reply, forall|x: Uid| pending0.contains(x) ==> #[trigger] lock_request.rooms@.contains(x), forall|i: int| 0 <= i < itr.index@ ==> lock_request.rooms@.contains(#[trigger] itr.seq()[i]), {" x1
//@ rewrite E20 "lock_request\\.rooms\\.iter\\(\\)\\.any\\(" => "deque_any(&lock_request.rooms, " x1
//@ rewrite E33 "room\\.eq\\(e\\)" => "uid_eq(&room, e)" x1
//@ closure "|e|" as "|e|"
                                    ensures b == (room == *e)
//@ insert before-stmt "lock_request.rooms.iter().any("
                                let ghost before = lock_request.rooms@;
//@ insert after-stmt "lock_request.rooms.push_back(room);"
                                    proof {
                                        let r1 = lock_request.rooms@;
                                        assert(r1 == before.push(room));
                                        assert(r1[before.len() as int] == room);
                                        assert forall|x: Uid| before.contains(x) implies r1.contains(x) by {
                                            let j = choose|j: int| 0 <= j < before.len() && before[j] == x; assert(r1[j] == x);
                                        }
                                    }
//@ insert before-stmt "for room in rooms"
                            let ghost pending0 = lock_request.rooms@;
                            let ghost requested = rooms@;
                            proof { assert(<[u8; 16] as PartialEqSpec<[u8; 16]>>::obeys_eq_spec()); }
//@ insert before-stmt "if let Some(lock_request) = peer_lock_request.get_mut(&circuit) {"
                        let ghost latest_reply = reply;
                        let ghost pm0 = peer_lock_request@;
                        let ghost rooms0 = rooms@;
//@ insert before-stmt "let avail_iter = avalaible;"
                        // [grants_go_to_the_channel_of_the_latest_request] after a request, the pending entry of the circuit answers on the channel of THIS request: a new connection of a circuit is not left waiting on the channel of a connection that ended
                        assert(peer_lock_request@.contains_key(circuit) && peer_lock_request@[circuit].reply == latest_reply);
                        // [repeated_request_keeps_the_pending_rooms] a request of a circuit that is already waiting ADDS its rooms to the pending ones: every room that was pending is still pending and every requested room is pending - none is forgotten
                        assert(pm0.contains_key(circuit) ==> (forall|x: Uid| pm0[circuit].rooms@.contains(x) ==> #[trigger] peer_lock_request@[circuit].rooms@.contains(x))
                            && forall|i: int| 0 <= i < rooms0.len() ==> peer_lock_request@[circuit].rooms@.contains(#[trigger] rooms0[i]));
//@ rewrite E11 "\)\s*\.await;" => ");" x2
//@ loop "while let Some(msg) = receiver.recv().await"
                invariant
                    // [slot_invariant] bounded: rooms being synchronised + free slots == configured limit, at every message
                    slots_ok(locked@, avalaible, max_lock),
//@ loop "for _ in 0..avail_iter" iter it
                            invariant
                                slots_ok(locked@, avalaible, max_lock),
                                // [free_slot_per_iteration] each iteration still has a free slot to give (no underflow of the counter)
                                avalaible + it.index@ >= avail_iter,
//@ end
} // verus!
fn main() {}
