//@ unit u6_locks props C20
// Unit U6: the room lock scheduler (src/synchronisation/room_locking_service.rs), safety half of C20.
#![feature(allocator_api)]
#![allow(unused_imports, unused_variables, dead_code, unused_mut, non_snake_case)]
use vstd::prelude::*;
use vstd::std_specs::hash::*;
use vstd::std_specs::cmp::PartialEqSpec;
use std::collections::{HashMap, HashSet, VecDeque};
use std::alloc::Allocator;
verus! {
pub mod trusted {
    use vstd::prelude::*;
    use vstd::std_specs::hash::*;
    #[verifier::external_body]
    pub broadcast proof fn axiom_uid_key_model() ensures #[trigger] obeys_key_model::<[u8; 16]>() {}
    #[verifier::external_body]
    pub broadcast proof fn axiom_circ_key_model() ensures #[trigger] obeys_key_model::<[u8; 32]>() {}
    pub uninterp spec fn key_of_borrowed<K, Q: ?Sized>(q: &Q) -> K;
    #[verifier::external_body]
    pub broadcast proof fn axiom_key_of_borrowed_same<K>(q: &K) ensures #[trigger] key_of_borrowed::<K, K>(q) == *q {}
}
broadcast use {vstd::std_specs::hash::group_hash_axioms, trusted::axiom_uid_key_model, trusted::axiom_circ_key_model, trusted::axiom_key_of_borrowed_same};
pub type Uid = [u8; 16];

pub assume_specification<T, A: std::alloc::Allocator>[ std::collections::VecDeque::<T, A>::is_empty ](v: &std::collections::VecDeque<T, A>) -> (r: bool)
    ensures r == (v@.len() == 0);

// HashMap::get_mut: ASSUMED std semantics (the returned reference is the only way the map changes); `key_of_borrowed` is the
// owned key a borrowed key stands for (the identity when Q = K: trusted axiom)
pub assume_specification<'a, K, V, S, A, Q>[ std::collections::HashMap::<K, V, S, A>::get_mut ](m: &'a mut std::collections::HashMap<K, V, S, A>, k: &Q) -> (r: std::option::Option<&'a mut V>)
    where
        A: std::alloc::Allocator,
        K: std::cmp::Eq + std::hash::Hash + std::borrow::Borrow<Q>,
        Q: std::marker::MetaSized + std::hash::Hash + std::cmp::Eq + ?Sized,
        S: std::hash::BuildHasher
    ensures
        match r {
            Some(u) => old(m)@.contains_key(trusted::key_of_borrowed::<K, Q>(k)) && *u == old(m)@[trusted::key_of_borrowed::<K, Q>(k)] && final(m)@ == old(m)@.insert(trusted::key_of_borrowed::<K, Q>(k), *final(u)),
            None => !old(m)@.contains_key(trusted::key_of_borrowed::<K, Q>(k)) && final(m)@ == old(m)@,
        };

// tokio channels: opaque, nothing assumed (send may fail, recv may return anything)
pub mod mpsc {
    use vstd::prelude::*;
    pub struct UnboundedSender<T> { x: Option<T> }
    pub struct SendError { x: u8 }
    impl<T> UnboundedSender<T> {
        #[verifier::external_body]
        pub fn send(&self, t: T) -> Result<(), SendError> { unimplemented!() }
    }
    pub struct Receiver<T> { x: Option<T> }
    impl<T> Receiver<T> {
        #[verifier::external_body]
        pub async fn recv(&mut self) -> Option<T> { unimplemented!() }
    }
}

//@ extract src/synchronisation/room_locking_service.rs :: enum SyncLockMessage
//@ end
//@ extract src/synchronisation/room_locking_service.rs :: struct PeerLockRequest
//@ end

// E8 cut: `for room in rooms { if !lock_request.rooms.iter().any(|e| room.eq(e)) { lock_request.rooms.push_back(room); } }`
// (VecDeque consumed by value: vec_deque::IntoIter has no Verus model).  ASSUMED: touches only `lock_request.rooms`.
#[verifier::external_body]
fn cut_merge_rooms(lock_request: &mut PeerLockRequest, rooms: VecDeque<Uid>) ensures final(lock_request).reply == old(lock_request).reply { unimplemented!() }

pub struct RoomLockService { x: u8 }

/// the slot invariant: every granted room holds exactly one of the `max_lock` slots
pub open spec fn slots_ok(locked: Set<Uid>, avalaible: usize, max_lock: usize) -> bool {
    locked.finite() && locked.len() + avalaible == max_lock
}
/// one scheduling step grants at most one room; a granted room was not locked before (exclusive),
/// takes exactly one slot, and nothing is released
pub open spec fn at_most_one_grant(old_locked: Set<Uid>, old_av: usize, new_locked: Set<Uid>, new_av: usize) -> bool {
    (new_locked == old_locked && new_av == old_av)
    || (exists|room: Uid| !old_locked.contains(room) && new_locked == old_locked.insert(room) && new_av + 1 == old_av)
}

//@ extract src/synchronisation/room_locking_service.rs :: impl RoomLockService / fn acquire_lock
//@ sync
//@ attr #[verifier::exec_allows_no_decreases_clause]
//@ loop "for _ in 0..peer_queue.len()"
            invariant_except_break *avalaible == *old(avalaible), old(locked)@ == locked@,
            invariant *old(avalaible) >= 1, old(locked)@.finite(),
            ensures at_most_one_grant(old(locked)@, *old(avalaible), locked@, *avalaible),
//@ loop "for _ in 0..lock_request.rooms.len()"
                        invariant_except_break *avalaible == *old(avalaible), old(locked)@ == locked@, !lock_aquired,
                        invariant *old(avalaible) >= 1, old(locked)@.finite(),
                        ensures at_most_one_grant(old(locked)@, *old(avalaible), locked@, *avalaible),
                                !lock_aquired ==> (*avalaible == *old(avalaible) && old(locked)@ == locked@),
//@ insert before-stmt "locked.insert(room)"
                                // [grant_only_unlocked_room] exclusive: the room just sent to the requester is not held by any connection
                                assert(!locked@.contains(room));
//@ spec
        requires
            *old(avalaible) >= 1,
            old(locked)@.finite(),
        ensures
            // [at_most_one_exclusive_grant] at most one room is granted per step; it was not locked, it now is, and it took exactly one free slot
            at_most_one_grant(old(locked)@, *old(avalaible), final(locked)@, *final(avalaible)),
            // [slots_conserved] hence locked + free stays constant (bounded by the configured limit)
            final(locked)@.finite() && final(locked)@.len() + *final(avalaible) == old(locked)@.len() + *old(avalaible),
//@ end

//@ extract src/synchronisation/room_locking_service.rs :: impl RoomLockService / fn start as RoomLockService::lifted_start_block
//@ lift "tokio::spawn(async move {" :: async fn lifted_start_block(receiver0: mpsc::Receiver<SyncLockMessage>, max_lock: usize)
//@ attr #[verifier::exec_allows_no_decreases_clause]
//@ insert body-start
    let mut receiver = receiver0;   // E9: captured variable of the async block
//@ cut "for room in rooms" => "cut_merge_rooms(lock_request, rooms);"
//@ insert before-stmt "if let Some(lock_request) = peer_lock_request.get_mut(&circuit) {"
                        let ghost latest_reply = reply;
//@ insert before-stmt "let avail_iter = avalaible;"
                        // [grants_go_to_the_channel_of_the_latest_request] after a request, the pending entry of the circuit answers on the channel of THIS request: a new connection of a circuit is not left waiting on the channel of a connection that ended
                        assert(peer_lock_request@.contains_key(circuit) && peer_lock_request@[circuit].reply == latest_reply);
//@ rewrite E11 "\)\s*\.await;" => ");" x2
//@ loop "while let Some(msg) = receiver.recv().await"
                invariant
                    // [slot_invariant] bounded: rooms being synchronised + free slots == configured limit, at every message
                    slots_ok(locked@, avalaible, max_lock),
//@ loop "for _ in 0..avail_iter" iter it
                            invariant
                                slots_ok(locked@, avalaible, max_lock),
                                // [free_slot_per_iteration] each iteration still has a free slot to give (no underflow of the counter)
                                avalaible + it.index@ >= avail_iter,
//@ end
} // verus!
fn main() {}
