//@ unit u6_locks props C20
// Unit U6: the room lock scheduler (src/synchronisation/room_locking_service.rs), safety half of C20.
#![feature(allocator_api)]
#![allow(unused_imports, unused_variables, dead_code, unused_mut, non_snake_case)]
use vstd::prelude::*;
use vstd::std_specs::hash::*;
use vstd::std_specs::cmp::PartialEqSpec;
use vstd::std_specs::iter::IteratorSpec;
use std::collections::{HashMap, HashSet, VecDeque};
use std::alloc::Allocator;
verus! {
pub mod trusted {
    use vstd::prelude::*;
    use vstd::std_specs::hash::*;
    #[verifier::external_body]
    pub broadcast proof fn axiom_uid_key_model() ensures #[trigger] obeys_key_model::<[u8; 16]>() {}
    #[verifier::external_body]
    pub broadcast proof fn axiom_circ_key_model() ensures #[trigger] obeys_key_model::<[u8; 32]>() {}
    pub uninterp spec fn key_of_borrowed<K, Q: ?Sized>(q: &Q) -> K;
    #[verifier::external_body]
    pub broadcast proof fn axiom_key_of_borrowed_same<K>(q: &K) ensures #[trigger] key_of_borrowed::<K, K>(q) == *q {}
}
broadcast use {vstd::std_specs::hash::group_hash_axioms, trusted::axiom_uid_key_model, trusted::axiom_circ_key_model, trusted::axiom_key_of_borrowed_same, trusted_byvalue_deque::axiom_deque_into_iter_obeys, vstd::laws_eq::group_laws_eq};
pub type Uid = [u8; 16];

pub assume_specification<T, A: std::alloc::Allocator>[ std::collections::VecDeque::<T, A>::is_empty ](v: &std::collections::VecDeque<T, A>) -> (r: bool)
    ensures r == (v@.len() == 0);

// HashMap::get_mut: ASSUMED std semantics (the returned reference is the only way the map changes); `key_of_borrowed` is the
// owned key a borrowed key stands for (the identity when Q = K: trusted axiom)
pub assume_specification<'a, K, V, S, A, Q>[ std::collections::HashMap::<K, V, S, A>::get_mut ](m: &'a mut std::collections::HashMap<K, V, S, A>, k: &Q) -> (r: std::option::Option<&'a mut V>)
    where
        A: std::alloc::Allocator,
        K: std::cmp::Eq + std::hash::Hash + std::borrow::Borrow<Q>,
        Q: std::marker::MetaSized + std::hash::Hash + std::cmp::Eq + ?Sized,
        S: std::hash::BuildHasher
    ensures
        match r {
            Some(u) => old(m)@.contains_key(trusted::key_of_borrowed::<K, Q>(k)) && *u == old(m)@[trusted::key_of_borrowed::<K, Q>(k)] && final(m)@ == old(m)@.insert(trusted::key_of_borrowed::<K, Q>(k), *final(u)),
            None => !old(m)@.contains_key(trusted::key_of_borrowed::<K, Q>(k)) && final(m)@ == old(m)@,
        };

// tokio channels: opaque, nothing assumed (send may fail, recv may return anything)
pub mod mpsc {
    use vstd::prelude::*;
    pub struct UnboundedSender<T> { x: Option<T> }
    pub struct SendError { x: u8 }
    pub uninterp spec fn sent_on<T>(s: UnboundedSender<T>, t: T) -> bool;
    pub uninterp spec fn closed<T>(s: UnboundedSender<T>) -> bool;
    impl<T> UnboundedSender<T> {
        // nothing assumed on the outcome; the two uninterpreted facts are established by this call only: a grant counts as
        // delivered only through a successful send, a pending room may be dropped only after a failed one (the requester is gone)
        #[verifier::external_body]
        pub fn send(&self, t: T) -> (r: Result<(), SendError>)
            ensures r is Ok ==> sent_on(*self, t), r is Err ==> closed(*self),
        { unimplemented!() }
    }
    pub struct Receiver<T> { x: Option<T> }
    impl<T> Receiver<T> {
        #[verifier::external_body]
        pub async fn recv(&mut self) -> Option<T> { unimplemented!() }
    }
}

//@ extract src/synchronisation/room_locking_service.rs :: enum SyncLockMessage
//@ end
//@ extract src/synchronisation/room_locking_service.rs :: struct PeerLockRequest
//@ end

//@ include common/byvalue_iter.rs
// E20 (VecDeque form): `d.iter().any(f)` -> this stub with std's semantics: some element satisfies the closure
#[verifier::external_body]
pub fn deque_any<T, F: Fn(&T) -> bool>(d: &VecDeque<T>, f: F) -> (r: bool)
    ensures r == (exists|i: int| 0 <= i < d@.len() && call_ensures(f, (&d@[i],), true)),
            !r ==> forall|i: int| 0 <= i < d@.len() ==> call_ensures(f, (&#[trigger] d@[i],), false)
{ unimplemented!() }
// E33 (array form): `a.eq(b)` on `[u8; 16]` inside a closure -> this stub: the contents are compared
#[verifier::external_body]
pub fn uid_eq(a: &Uid, b: &Uid) -> (r: bool) ensures r == (*a == *b) { unimplemented!() }
pub open spec fn is_prefix<T>(a: Seq<T>, b: Seq<T>) -> bool { a.len() <= b.len() && b.subrange(0, a.len() as int) =~= a }

pub struct RoomLockService { x: u8 }

/// the slot invariant: every granted room holds exactly one of the `max_lock` slots
pub open spec fn slots_ok(locked: Set<Uid>, avalaible: usize, max_lock: usize) -> bool {
    locked.finite() && locked.len() + avalaible == max_lock
}
/// one scheduling step grants at most one room; a granted room was not locked before (exclusive),
/// takes exactly one slot, and nothing is released
pub open spec fn at_most_one_grant(old_locked: Set<Uid>, old_av: usize, new_locked: Set<Uid>, new_av: usize) -> bool {
    (new_locked == old_locked && new_av == old_av)
    || (exists|room: Uid| !old_locked.contains(room) && new_locked == old_locked.insert(room) && new_av + 1 == old_av)
}

/// never lost, one pending room of one waiting circuit across a scheduling step: it is still pending for the same circuit (which still
/// answers on the same channel and is still queued), or it was delivered on the circuit's channel, or that channel is closed
spec fn kept_or_served(c: [u8; 32], x: Uid, m0: Map<[u8; 32], PeerLockRequest>, m: Map<[u8; 32], PeerLockRequest>, q: Seq<[u8; 32]>) -> bool {
    (m.contains_key(c) && m[c].rooms@.contains(x) && m[c].reply == m0[c].reply && q.contains(c))
    || mpsc::sent_on(m0[c].reply, x) || mpsc::closed(m0[c].reply)
}
spec fn nothing_lost(m0: Map<[u8; 32], PeerLockRequest>, m: Map<[u8; 32], PeerLockRequest>, q: Seq<[u8; 32]>) -> bool {
    forall|c: [u8; 32], x: Uid| m0.contains_key(c) && m0[c].rooms@.contains(x) ==> #[trigger] kept_or_served(c, x, m0, m, q)
}
/// every waiting circuit is in the rotation (a circuit out of it would never be served)
spec fn all_queued(m: Map<[u8; 32], PeerLockRequest>, q: Seq<[u8; 32]>) -> bool {
    forall|c: [u8; 32]| m.contains_key(c) ==> #[trigger] q.contains(c)
}
/// rooms of the request being served: still pending, delivered, or the channel is closed
pub open spec fn rooms_kept_or_served(rooms_in: Seq<Uid>, rooms: Seq<Uid>, reply: mpsc::UnboundedSender<Uid>) -> bool {
    forall|x: Uid| #[trigger] rooms_in.contains(x) ==> rooms.contains(x) || mpsc::sent_on(reply, x) || mpsc::closed(reply)
}
pub proof fn lemma_drop_last_contains<T>(s: Seq<T>, x: T)
    requires s.len() > 0, s.contains(x), x != s.last(),
    ensures s.drop_last().contains(x),
{
    let i = choose|i: int| 0 <= i < s.len() && s[i] == x;
    assert(s.drop_last()[i] == x);
}
pub proof fn lemma_push_front_contains<T>(s: Seq<T>, a: T)
    ensures (seq![a] + s).contains(a), forall|x: T| s.contains(x) ==> #[trigger] (seq![a] + s).contains(x),
{
    let r = seq![a] + s;
    assert(r[0] == a);
    assert forall|x: T| s.contains(x) implies #[trigger] r.contains(x) by {
        let i = choose|i: int| 0 <= i < s.len() && s[i] == x;
        assert(r[i + 1] == x);
    }
}
/// a room taken from the back and put back at the front: the same rooms are pending
pub proof fn lemma_rotate_keeps(s: Seq<Uid>)
    requires s.len() > 0,
    ensures forall|x: Uid| s.contains(x) ==> #[trigger] (seq![s.last()] + s.drop_last()).contains(x),
{
    lemma_push_front_contains(s.drop_last(), s.last());
    assert forall|x: Uid| s.contains(x) implies #[trigger] (seq![s.last()] + s.drop_last()).contains(x) by {
        if x != s.last() { lemma_drop_last_contains(s, x); }
    }
}

proof fn lemma_nothing_lost_trans(m0: Map<[u8; 32], PeerLockRequest>, m1: Map<[u8; 32], PeerLockRequest>, q1: Seq<[u8; 32]>, m2: Map<[u8; 32], PeerLockRequest>, q2: Seq<[u8; 32]>)
    requires nothing_lost(m0, m1, q1), nothing_lost(m1, m2, q2),
    ensures nothing_lost(m0, m2, q2),
{
    assert forall|c: [u8; 32], x: Uid| m0.contains_key(c) && m0[c].rooms@.contains(x) implies #[trigger] kept_or_served(c, x, m0, m2, q2) by {
        assert(kept_or_served(c, x, m0, m1, q1));
        if m1.contains_key(c) && m1[c].rooms@.contains(x) { assert(kept_or_served(c, x, m1, m2, q2)); }
    }
}
proof fn lemma_nothing_lost_refl(m: Map<[u8; 32], PeerLockRequest>, q: Seq<[u8; 32]>)
    requires all_queued(m, q),
    ensures nothing_lost(m, m, q),
{
    assert forall|c: [u8; 32], x: Uid| m.contains_key(c) && m[c].rooms@.contains(x) implies #[trigger] kept_or_served(c, x, m, m, q) by {
        assert(q.contains(c));
    }
}

//@ extract src/synchronisation/room_locking_service.rs :: impl RoomLockService / fn acquire_lock
//@ sync
//@ attr #[verifier::exec_allows_no_decreases_clause]
//@ loop "for _ in 0..peer_queue.len()"
            invariant_except_break *avalaible == *old(avalaible), old(locked)@ == locked@,
            invariant *old(avalaible) >= 1, old(locked)@.finite(),
                // [no_pending_room_lost_so_far]{C20} whatever circuits were rotated so far
                nothing_lost(old(peer_lock_request)@, peer_lock_request@, peer_queue@),
                // [waiting_circuits_stay_queued_so_far]{C20}
                all_queued(peer_lock_request@, peer_queue@),
            ensures at_most_one_grant(old(locked)@, *old(avalaible), locked@, *avalaible),
//@ loop "for _ in 0..lock_request.rooms.len()"
                        invariant_except_break *avalaible == *old(avalaible), old(locked)@ == locked@, !lock_aquired,
                        invariant *old(avalaible) >= 1, old(locked)@.finite(),
                            lock_request.reply == reply_in,
                            // [rooms_of_the_served_request_kept_so_far]{C20} a busy room goes back to the pending ones, a room leaves them only when it was sent to the requester (or the requester is gone)
                            rooms_kept_or_served(rooms_in, lock_request.rooms@, reply_in),
                        ensures at_most_one_grant(old(locked)@, *old(avalaible), locked@, *avalaible),
                                !lock_aquired ==> (*avalaible == *old(avalaible) && old(locked)@ == locked@),
//@ insert before-stmt "let mut lock_aquired = false;"
                    let ghost rooms_in = lock_request.rooms@;
                    let ghost reply_in = lock_request.reply;
                    let ghost m_mid = peer_lock_request@;
                    let ghost q_mid = peer_queue@;
//@ insert before-stmt "if let Some(room) = lock_request.rooms.pop_back() {"
                        let ghost rooms_before = lock_request.rooms@;
//@ insert after-text "if let Some(room) = lock_request.rooms.pop_back() {"
                            proof {
                                lemma_rotate_keeps(rooms_before);
                                assert(lock_request.rooms@ == rooms_before.drop_last());
                                assert(room == rooms_before.last());
                                assert forall|x: Uid| rooms_before.contains(x) && x != room implies #[trigger] rooms_before.drop_last().contains(x) by {
                                    lemma_drop_last_contains(rooms_before, x);
                                }
                            }
//@ insert before-stmt "if lock_aquired {"
                    proof {
                        let m0 = old(peer_lock_request)@;
                        lemma_push_front_contains(q_mid, peer);
                        // [served_circuit_keeps_what_it_was_not_given]{C20} after a circuit was served: its remaining rooms are stored back and it is back in the rotation; the other circuits are untouched
                        assert forall|c: [u8; 32], x: Uid| m0.contains_key(c) && m0[c].rooms@.contains(x)
                            implies #[trigger] kept_or_served(c, x, m0, peer_lock_request@, peer_queue@) by {
                            assert(kept_or_served(c, x, m0, m_head, q_head));
                            if c != peer && q_head.contains(c) { lemma_drop_last_contains(q_head, c); }
                        }
                        // [served_circuit_back_in_the_rotation]{C20}
                        assert forall|c: [u8; 32]| peer_lock_request@.contains_key(c) implies #[trigger] peer_queue@.contains(c) by {
                            if c != peer { assert(m_head.contains_key(c)); assert(q_head.contains(c)); lemma_drop_last_contains(q_head, c); }
                        }
                    }
//@ insert after-stmt "if let Some(mut lock_request) = peer_lock_request.remove(&peer) {"
                proof {
                    // the popped circuit was not waiting (or was handled above): the others are still queued
                    if !m_head.contains_key(peer) {
                        let m0 = old(peer_lock_request)@;
                        assert forall|c: [u8; 32], x: Uid| m0.contains_key(c) && m0[c].rooms@.contains(x)
                            implies #[trigger] kept_or_served(c, x, m0, peer_lock_request@, peer_queue@) by {
                            assert(kept_or_served(c, x, m0, m_head, q_head));
                            if c != peer && q_head.contains(c) { lemma_drop_last_contains(q_head, c); }
                        }
                        assert forall|c: [u8; 32]| peer_lock_request@.contains_key(c) implies #[trigger] peer_queue@.contains(c) by {
                            assert(q_head.contains(c)); lemma_drop_last_contains(q_head, c);
                        }
                    }
                }
//@ insert before-stmt "if let Some(peer) = peer_queue.pop_back() {"
            let ghost m_head = peer_lock_request@;
            let ghost q_head = peer_queue@;
//@ insert before-stmt "locked.insert(room)"
                                // [grant_only_unlocked_room] exclusive: the room just sent to the requester is not held by any connection
                                assert(!locked@.contains(room));
                                // [slot_taken_only_for_a_delivered_grant]{C20} a room is recorded as locked, and a slot taken, only when the grant was handed to the requester's channel: nobody would release a grant that was never delivered
                                assert(mpsc::sent_on(lock_request.reply, room));
//@ spec
        requires
            *old(avalaible) >= 1,
            old(locked)@.finite(),
            all_queued(old(peer_lock_request)@, old(peer_queue)@),
        ensures
            // [no_pending_room_lost]{C20} never lost: every room a circuit was waiting for is still pending for it after the step, unless it was just sent to the circuit or the circuit's channel is closed
            nothing_lost(old(peer_lock_request)@, final(peer_lock_request)@, final(peer_queue)@),
            // [waiting_circuits_stay_queued]{C20} and every circuit that still waits is still in the rotation
            all_queued(final(peer_lock_request)@, final(peer_queue)@),
            // [at_most_one_exclusive_grant] at most one room is granted per step; it was not locked, it now is, and it took exactly one free slot
            at_most_one_grant(old(locked)@, *old(avalaible), final(locked)@, *final(avalaible)),
            // [slots_conserved] hence locked + free stays constant (bounded by the configured limit)
            final(locked)@.finite() && final(locked)@.len() + *final(avalaible) == old(locked)@.len() + *old(avalaible),
//@ end

//@ extract src/synchronisation/room_locking_service.rs :: impl RoomLockService / fn start as RoomLockService::lifted_start_block
//@ lift "tokio::spawn(async move {" :: async fn lifted_start_block(receiver0: mpsc::Receiver<SyncLockMessage>, max_lock: usize)
//@ attr #[verifier::exec_allows_no_decreases_clause]
//@ insert body-start
    let mut receiver = receiver0;   // E9: captured variable of the async block
//@ rewrite E28 "for room in rooms \\{" => "for room in itr: deque_into_iter(rooms) invariant lock_request.reply == latest_reply, forall|x: Uid| pending0.contains(x) ==> #[trigger] lock_request.rooms@.contains(x), forall|i: int| 0 <= i < itr.index@ ==> lock_request.rooms@.contains(#[trigger] itr.seq()[i]), {" x1
//@ rewrite E20 "lock_request\\.rooms\\.iter\\(\\)\\.any\\(" => "deque_any(&lock_request.rooms, " x1
//@ rewrite E33 "room\\.eq\\(e\\)" => "uid_eq(&room, e)" x1
//@ closure "|e|" as "|e|"
                                    ensures b == (room == *e)
//@ insert before-stmt "lock_request.rooms.iter().any("
                                let ghost before = lock_request.rooms@;
//@ insert after-stmt "lock_request.rooms.push_back(room);"
                                    proof {
                                        let r1 = lock_request.rooms@;
                                        assert(r1 == before.push(room));
                                        assert(r1[before.len() as int] == room);
                                        assert forall|x: Uid| before.contains(x) implies r1.contains(x) by {
                                            let j = choose|j: int| 0 <= j < before.len() && before[j] == x; assert(r1[j] == x);
                                        }
                                    }
//@ insert before-stmt "for room in rooms"
                            let ghost pending0 = lock_request.rooms@;
                            let ghost requested = rooms@;
                            proof { assert(<[u8; 16] as PartialEqSpec<[u8; 16]>>::obeys_eq_spec()); }
//@ insert before-stmt "if let Some(lock_request) = peer_lock_request.get_mut(&circuit) {"
                        let ghost latest_reply = reply;
                        let ghost pm0 = peer_lock_request@;
                        let ghost rooms0 = rooms@;
                        let ghost q0 = peer_queue@;
//@ insert before-stmt "let avail_iter = avalaible;"
                        proof {
                            lemma_push_front_contains(q0, circuit);
                            // [requesting_circuit_is_in_the_rotation]{C20} after a request every waiting circuit - the requesting one included - is in the queue the grants are taken from
                            assert forall|c: [u8; 32]| peer_lock_request@.contains_key(c) implies #[trigger] peer_queue@.contains(c) by {
                                if c != circuit { assert(pm0.contains_key(c)); assert(q0.contains(c)); }
                            }
                        }
                        // [grants_go_to_the_channel_of_the_latest_request] after a request, the pending entry of the circuit answers on the channel of THIS request: a new connection of a circuit is not left waiting on the channel of a connection that ended
                        assert(peer_lock_request@.contains_key(circuit) && peer_lock_request@[circuit].reply == latest_reply);
                        // [repeated_request_keeps_the_pending_rooms] a request of a circuit that is already waiting ADDS its rooms to the pending ones: every room that was pending is still pending and every requested room is pending - none is forgotten
                        assert(pm0.contains_key(circuit) ==> (forall|x: Uid| pm0[circuit].rooms@.contains(x) ==> #[trigger] peer_lock_request@[circuit].rooms@.contains(x))
                            && forall|i: int| 0 <= i < rooms0.len() ==> peer_lock_request@[circuit].rooms@.contains(#[trigger] rooms0[i]));
//@ insert after-stmt "let avail_iter = avalaible;"
                        let ghost m_req = peer_lock_request@;
                        proof {
                            // [a_new_request_is_pending_as_sent] a request of a circuit that was not waiting is recorded with all its rooms
                            assert(!pm0.contains_key(circuit) ==> m_req[circuit].rooms@ == rooms0);
                            lemma_nothing_lost_refl(m_req, peer_queue@);
                        }
//@ insert after-stmt "for _ in 0..avail_iter {"
                        // [requested_room_pending_or_granted_after_the_request]{C20} never lost, from the request to the end of its handling: every room of the request is still pending for the circuit on the channel of this request, or was sent on it, or that channel is closed
                        assert(forall|i: int| 0 <= i < rooms0.len() ==> #[trigger] kept_or_served(circuit, rooms0[i], m_req, peer_lock_request@, peer_queue@));
//@ insert before-stmt "Self::acquire_lock(" #1
                            let ghost m_it = peer_lock_request@;
                            let ghost q_it = peer_queue@;
//@ insert after-stmt "Self::acquire_lock(" #1
                            proof { lemma_nothing_lost_trans(m_req, m_it, q_it, peer_lock_request@, peer_queue@); }
//@ rewrite E11 "\)\s*\.await;" => ");" x2
//@ loop "while let Some(msg) = receiver.recv().await"
                invariant
                    // [slot_invariant] bounded: rooms being synchronised + free slots == configured limit, at every message
                    slots_ok(locked@, avalaible, max_lock),
                    // [waiting_circuits_are_in_the_rotation]{C20} at every message: a circuit with pending rooms is in the queue the grants are taken from
                    all_queued(peer_lock_request@, peer_queue@),
//@ loop "for _ in 0..avail_iter" iter it
                            invariant
                                slots_ok(locked@, avalaible, max_lock),
                                all_queued(peer_lock_request@, peer_queue@),
                                nothing_lost(m_req, peer_lock_request@, peer_queue@),
                                // [free_slot_per_iteration] each iteration still has a free slot to give (no underflow of the counter)
                                avalaible + it.index@ >= avail_iter,
//@ end
} // verus!
fn main() {}
