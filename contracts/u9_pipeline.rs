//@ unit u9_pipeline props C02 C06 also C18 C03 C11
// Unit U9: the receiving pipeline of a room synchronisation (src/synchronisation/peer_inbound_service.rs:
// synchronise_room, synchronise_room_definition, synchronise_day).  Whatever the remote side answers, a node, reference,
// deletion record, room definition or peer row reaches the database ingestion entry points (add_nodes, add_edges,
// delete_nodes, delete_edges, add_room_node, add_peer_nodes) only after it came out of the signature verification service
// (whose checks are under contract in u4_digests: every row returned was verified over all its signed fields), and for the room
// that is being synchronised.  This is stated as PRECONDITIONS of the ingestion stubs: every call site is an obligation.
#![allow(unused_imports, unused_variables, dead_code, unused_mut, non_snake_case)]
use vstd::prelude::*;
use std::collections::{HashMap, HashSet};
verus! {
pub mod trusted {
    use vstd::prelude::*;
    use vstd::std_specs::hash::*;
    #[verifier::external_body]
    pub broadcast proof fn axiom_uid_key_model() ensures #[trigger] obeys_key_model::<[u8; 16]>() {}
}
broadcast use {vstd::std_specs::hash::group_hash_axioms, trusted::axiom_uid_key_model};
pub type Uid = [u8; 16];
pub mod crate_error { pub enum Error { RoomUnknow(String), Other() } }
/// synchronisation::Error (errors of the query protocol)
pub struct Error { x: u8 }
pub struct DbError { x: u8 }
impl From<Error> for crate_error::Error { #[verifier::external_body] fn from(e: Error) -> crate_error::Error { unimplemented!() } }
impl From<DbError> for crate_error::Error { #[verifier::external_body] fn from(e: DbError) -> crate_error::Error { unimplemented!() } }
#[verifier::external_body]
pub fn base64_encode(data: &Uid) -> (r: String) { unimplemented!() }

//@ extract src/database/node.rs :: struct Node
//@ end
//@ extract src/database/node.rs :: struct NodeToInsert
//@ end
//@ extract src/database/node.rs :: struct NodeIdentifier
//@ end
//@ extract src/database/node.rs :: struct NodeDeletionEntry
//@ end
//@ extract src/database/edge.rs :: struct Edge
//@ end
//@ extract src/database/edge.rs :: struct EdgeDeletionEntry
//@ end
//@ extract src/database/daily_log.rs :: struct DailyLog
//@ end
//@ extract src/database/daily_log.rs :: struct RoomDefinitionLog
//@ end
//@ extract src/synchronisation/mod.rs :: enum Query
//@ end
pub struct RoomNode { x: u8 }
impl Clone for Node {
    #[verifier::external_body]
    fn clone(&self) -> (r: Node) ensures r == *self { unimplemented!() }   // #[derive(Clone)]
}

/// the signature of the row was checked over all its signed fields (u4_digests: Node::verify ... room_check); the storage
/// slot `_local_id` is not a signed field: the receiving side sets it after verification
pub uninterp spec fn sig_checked_node(n: Node) -> bool;
pub open spec fn node_ok(n: Node) -> bool { sig_checked_node(Node { _local_id: None, ..n }) }
pub uninterp spec fn edge_ok(e: Edge) -> bool;
pub uninterp spec fn edge_del_ok(e: EdgeDeletionEntry) -> bool;
pub uninterp spec fn node_del_ok(e: NodeDeletionEntry) -> bool;
pub uninterp spec fn room_node_ok(e: RoomNode) -> bool;
pub uninterp spec fn peer_row_valid(n: Node) -> bool;
pub uninterp spec fn sync_changed_data(remote_room: RoomDefinitionLog, local_room_def: Option<RoomDefinitionLog>) -> bool;
pub open spec fn all_nodes_ok(s: Seq<Node>) -> bool { forall|i: int| 0 <= i < s.len() ==> node_ok(#[trigger] s[i]) }
pub open spec fn all_peers_valid(s: Seq<Node>) -> bool { forall|i: int| 0 <= i < s.len() ==> peer_row_valid(#[trigger] s[i]) }
pub open spec fn all_edges_ok(s: Seq<Edge>) -> bool { forall|i: int| 0 <= i < s.len() ==> edge_ok(#[trigger] s[i]) }
pub open spec fn all_edge_dels_ok(s: Seq<EdgeDeletionEntry>) -> bool { forall|i: int| 0 <= i < s.len() ==> edge_del_ok(#[trigger] s[i]) }
pub open spec fn all_node_dels_ok(s: Seq<NodeDeletionEntry>) -> bool { forall|i: int| 0 <= i < s.len() ==> node_del_ok(#[trigger] s[i]) }
pub open spec fn all_rows_ok(s: Seq<NodeToInsert>) -> bool { forall|i: int| 0 <= i < s.len() ==> ((#[trigger] s[i]).node is Some ==> node_ok(s[i].node->Some_0)) }
//@ include common/lww_spec.rs
/// every row handed to the database is the version that was announced for its request, or a newer one (F42)
pub open spec fn all_rows_as_announced(s: Seq<NodeToInsert>) -> bool { forall|i: int| 0 <= i < s.len() ==> delivered_not_older(#[trigger] s[i]) }
//@ use-contract u11_lww.rs :: NodeToInsert::is_older_than_announced

/// the signature verification service (thread pool in front of the *_check functions of u4_digests)
pub struct SignatureVerificationService { x: u8 }
impl SignatureVerificationService {
    #[verifier::external_body]
    pub async fn verify_nodes(&self, nodes: Vec<Node>) -> (r: std::result::Result<Vec<Node>, crate_error::Error>)
        ensures r is Ok ==> r->Ok_0 == nodes && all_nodes_ok(nodes@)     // nodes_check (u4_digests#all_nodes_verified): Ok returns the input unchanged, every row verified
    { unimplemented!() }
    #[verifier::external_body]
    pub async fn verify_edges(&self, edges: Vec<Edge>) -> (r: std::result::Result<Vec<Edge>, crate_error::Error>) ensures r is Ok ==> all_edges_ok(r->Ok_0@) { unimplemented!() }
    #[verifier::external_body]
    pub async fn verify_edge_log(&self, log: Vec<EdgeDeletionEntry>) -> (r: std::result::Result<Vec<EdgeDeletionEntry>, crate_error::Error>) ensures r is Ok ==> all_edge_dels_ok(r->Ok_0@) { unimplemented!() }
    #[verifier::external_body]
    pub async fn verify_node_log(&self, log: Vec<NodeDeletionEntry>) -> (r: std::result::Result<Vec<NodeDeletionEntry>, crate_error::Error>) ensures r is Ok ==> all_node_dels_ok(r->Ok_0@) { unimplemented!() }
    #[verifier::external_body]
    pub async fn verify_room_node(&self, node: RoomNode) -> (r: std::result::Result<RoomNode, crate_error::Error>) ensures r is Ok ==> room_node_ok(r->Ok_0) { unimplemented!() }
}
pub struct Receiver<T> { x: Option<T> }
impl<T> Receiver<T> {
    #[verifier::external_body]
    pub async fn recv(&mut self) -> (r: Option<T>) { unimplemented!() }
}
/// the batch of deletion records was handed to the database service and accepted: facts only these two contracts establish
pub uninterp spec fn edge_dels_handed(batch: Seq<EdgeDeletionEntry>) -> bool;
pub uninterp spec fn node_dels_handed(batch: Seq<NodeDeletionEntry>) -> bool;
pub uninterp spec fn refs_handed(room_id: Uid, batch: Seq<Edge>) -> bool;
pub uninterp spec fn rows_handed(room_id: Uid, batch: Seq<NodeToInsert>) -> bool;
/// the same row but for the storage slot (set by the receiver, not a signed field)
pub open spec fn same_row(a: Node, b: Node) -> bool { (Node { _local_id: None, ..a }) == (Node { _local_id: None, ..b }) }
/// every request of the batch carries a row, and that row is one of the rows of `src`
pub open spec fn rows_from(b: Seq<NodeToInsert>, src: Seq<Node>) -> bool {
    forall|j: int| 0 <= j < b.len() ==> (#[trigger] b[j]).node is Some && exists|k: int| 0 <= k < src.len() && same_row(b[j].node->Some_0, #[trigger] src[k])
}
/// the wanted row (a delivered row that was requested and is not older than the version announced for it) is in the batch
pub open spec fn wanted_in(w: Node, b: Seq<NodeToInsert>) -> bool { exists|j: int| 0 <= j < b.len() && (#[trigger] b[j]).node is Some && same_row(b[j].node->Some_0, w) }
pub open spec fn all_wanted_in(ws: Seq<Node>, b: Seq<NodeToInsert>) -> bool { forall|k: int| 0 <= k < ws.len() ==> wanted_in(#[trigger] ws[k], b) }
pub proof fn lemma_wanted_step(ws: Seq<Node>, b: Seq<NodeToInsert>, w: Node, x: NodeToInsert)
    requires all_wanted_in(ws, b), x.node is Some, same_row(x.node->Some_0, w),
    ensures all_wanted_in(ws.push(w), b.push(x)),
{
    let b2 = b.push(x);
    assert forall|k: int| 0 <= k < ws.push(w).len() implies wanted_in(#[trigger] ws.push(w)[k], b2) by {
        if k < ws.len() {
            assert(wanted_in(ws[k], b));
            let j = choose|j: int| 0 <= j < b.len() && (#[trigger] b[j]).node is Some && same_row(b[j].node->Some_0, ws[k]);
            assert(b2[j] == b[j]);
        } else {
            assert(b2[b.len() as int] == x);
        }
    }
}
/// a batch built from the rows of `src` was handed to the database service and accepted (the `exists` is hidden in a spec function)
pub open spec fn row_batch_handed(room_id: Uid, src: Seq<Node>) -> bool { exists|b: Seq<NodeToInsert>| #[trigger] rows_handed(room_id, b) && rows_from(b, src) }
pub open spec fn all_row_batches_handed(room_id: Uid, batches: Seq<Seq<Node>>) -> bool { forall|i: int| 0 <= i < batches.len() ==> row_batch_handed(room_id, #[trigger] batches[i]) }
pub open spec fn all_ref_batches_handed(b: Seq<(Uid, Seq<Edge>)>) -> bool { forall|i: int| 0 <= i < b.len() ==> refs_handed((#[trigger] b[i]).0, b[i].1) }
pub open spec fn all_edge_batches_handed(b: Seq<Seq<EdgeDeletionEntry>>) -> bool { forall|i: int| 0 <= i < b.len() ==> edge_dels_handed(#[trigger] b[i]) }
pub open spec fn all_node_batches_handed(b: Seq<Seq<NodeDeletionEntry>>) -> bool { forall|i: int| 0 <= i < b.len() ==> node_dels_handed(#[trigger] b[i]) }
/// the ingestion entry points of the database service: what they REQUIRE is the property's "stored only if it carries a valid
/// signature" seen from the caller's side
pub struct GraphDatabaseService { x: u8 }
impl GraphDatabaseService {
    #[verifier::external_body]
    pub async fn add_nodes(&self, room_id: Uid, nodes: Vec<NodeToInsert>) -> (r: std::result::Result<Vec<Uid>, DbError>)
        requires all_rows_ok(nodes@),
            // [delivered_rows_are_the_announced_versions_or_newer]{C03,C11,C02} a row delivered by the remote side is handed to the database only if it is the version announced for it - the one the last-writer-wins rule and the deletion log were consulted for - or a newer one: never an older version, which could replace a newer stored row or bring back a deleted one
            all_rows_as_announced(nodes@)
        ensures r is Ok ==> rows_handed(room_id, nodes@)
    { unimplemented!() }
    #[verifier::external_body]
    pub async fn add_edges(&self, room_id: Uid, edges: Vec<Edge>) -> (r: std::result::Result<Vec<Uid>, DbError>)
        requires all_edges_ok(edges@)
        ensures r is Ok ==> refs_handed(room_id, edges@)
    { unimplemented!() }
    #[verifier::external_body]
    pub async fn delete_edges(&self, edges: Vec<EdgeDeletionEntry>) -> (r: std::result::Result<(), DbError>)
        requires all_edge_dels_ok(edges@)
        ensures r is Ok ==> edge_dels_handed(edges@)
    { unimplemented!() }
    #[verifier::external_body]
    pub async fn delete_nodes(&self, nodes: Vec<NodeDeletionEntry>) -> (r: std::result::Result<(), DbError>)
        requires all_node_dels_ok(nodes@)
        ensures r is Ok ==> node_dels_handed(nodes@)
    { unimplemented!() }
    #[verifier::external_body]
    pub async fn add_room_node(&self, room: RoomNode) -> (r: std::result::Result<(), DbError>)
        requires room_node_ok(room)
    { unimplemented!() }
    #[verifier::external_body]
    pub async fn add_peer_nodes(&self, nodes: Vec<Node>) -> (r: std::result::Result<(), DbError>)
        requires all_nodes_ok(nodes@), all_peers_valid(nodes@)
    { unimplemented!() }
    #[verifier::external_body]
    pub async fn filter_existing_node(&self, node_ids: HashSet<NodeIdentifier>) -> (r: std::result::Result<Vec<NodeToInsert>, DbError>) { unimplemented!() }
    #[verifier::external_body]
    pub async fn get_room_definition(&self, room_id: Uid) -> (r: std::result::Result<Option<RoomDefinitionLog>, DbError>) { unimplemented!() }
    #[verifier::external_body]
    pub async fn peers_for_room(&self, room_id: Uid) -> (r: Receiver<std::result::Result<Vec<Node>, DbError>>) { unimplemented!() }
    #[verifier::external_body]
    pub async fn compute_daily_log(&self) { unimplemented!() }
}
pub struct DiscretServices { pub database: GraphDatabaseService, pub signature_verification: SignatureVerificationService }
pub struct QueryService { x: u8 }
pub struct Peer { x: u8 }
impl Peer {
    #[verifier::external_body]
    pub fn validate(peer: &Node) -> (r: std::result::Result<(), DbError>) ensures r is Ok ==> peer_row_valid(*peer) { unimplemented!() }
}
pub enum PeerConnectionMessage { NewPeer(Vec<Node>), Other() }
pub struct SendErr { x: u8 }
pub struct PeerSender { x: u8 }
impl PeerSender {
    #[verifier::external_body]
    pub async fn send(&self, m: PeerConnectionMessage) -> (r: std::result::Result<(), SendErr>) { unimplemented!() }
}
pub struct PeerConnectionService { pub sender: PeerSender }
pub struct LocalPeerService { x: u8 }
impl LocalPeerService {
    /// one answer of the remote side, decoded: ANY value of the expected type (nothing is assumed about the remote side)
    #[verifier::external_body]
    pub async fn query<T>(query_service: &QueryService, query: Query) -> (r: std::result::Result<T, Error>) { unimplemented!() }
    #[verifier::external_body]
    pub async fn query_multiple<T>(query_service: &QueryService, query: Query) -> (r: Receiver<std::result::Result<T, Error>>) { unimplemented!() }
    // the two halves of synchronise_room that decide WHICH days are fetched (hash comparison): not under contract here
    #[verifier::external_body]
    pub async fn synchronise_room_data(remote_room: &RoomDefinitionLog, local_room_def: &Option<RoomDefinitionLog>, query_service: &QueryService, discret_services: &DiscretServices) -> (r: std::result::Result<bool, crate_error::Error>)
        ensures r is Ok ==> r->Ok_0 == sync_changed_data(*remote_room, *local_room_def)      // only names the answer ("some row or deletion record was fetched")
    { unimplemented!() }
}
// E8 cut: `for node in nodes { remote_nodes.insert(node); }` (HashSet consumed by value: no Verus model of hash_set::IntoIter)
#[verifier::external_body]
pub fn cut_collect_ids(remote_nodes: &mut HashSet<NodeIdentifier>, nodes: HashSet<NodeIdentifier>) { unimplemented!() }

//@ extract src/synchronisation/peer_inbound_service.rs :: impl LocalPeerService / fn synchronise_room_definition
//@ rewrite E3 "crate::Error" => "crate_error::Error" x*
//@ insert before-stmt "discret_services.database.add_room_node(node)"
                    // [room_definition_ingested_only_after_signature_check] a room definition reaches the database only out of the signature verification service
                    assert(room_node_ok(node));
//@ end

//@ extract src/synchronisation/peer_inbound_service.rs :: impl LocalPeerService / fn synchronise_day
//@ attr #[verifier::exec_allows_no_decreases_clause]
//@ attr #[verifier::loop_isolation(false)]
//@ rewrite E3 "crate::Error" => "crate_error::Error" x*
//@ cut "for node in nodes" => "cut_collect_ids(&mut remote_nodes, nodes);"
//@ rewrite E21 "for mut node in nodes \{" => "for node0 in it: nodes invariant all_nodes_ok(it.seq()), all_rows_ok(nodes_to_insert@), all_rows_as_announced(nodes_to_insert@), rows_from(nodes_to_insert@, it.seq()), all_wanted_in(wanted, nodes_to_insert@), ingested ==> has_changes, { let mut node = node0; let ghost wanted_before = wanted;" x2
//@ loop "while let Some(edge_deletion) = edge_deletion_recv.recv().await"
            invariant
                // [whatever_was_ingested_so_far_is_a_change]{C18}
                ingested ==> has_changes,
                // [received_reference_deletions_are_handed_to_the_database]{C11} every non-empty batch of reference deletion records that came out of the signature check was handed to the database service, and accepted by it, before the next batch is read: a deletion that reached this peer is not dropped on the way to its log
                all_edge_batches_handed(edge_batches),
//@ loop "while let Some(node_deletion) = node_deletion_recv.recv().await"
            invariant
                // [whatever_was_ingested_so_far_is_a_change]{C18}
                ingested ==> has_changes,
                // [received_row_deletions_are_handed_to_the_database]{C11} every non-empty batch of row deletion records that came out of the signature check was handed to the database service, and accepted by it, before the next batch is read
                all_node_batches_handed(node_batches),
//@ loop "while let Some(nodes) = remote_nodes_receiv.recv().await"
            invariant
                // [whatever_was_ingested_so_far_is_a_change]{C18}
                ingested ==> has_changes,
//@ loop "for node_to_insert in filtered"
            invariant
                // [whatever_was_ingested_so_far_is_a_change]{C18}
                ingested ==> has_changes,
                all_row_batches_handed(room_id, row_batches),
                all_ref_batches_handed(ref_batches),
//@ loop "while let Some(nodes) = result_recv.recv().await" #1
            invariant
                // [whatever_was_ingested_so_far_is_a_change]{C18}
                ingested ==> has_changes,
                // [fetched_rows_are_handed_to_the_database]{C03} for every batch of rows fetched for the announced versions that came out of the signature check, a batch built from THOSE rows was handed to the database service and accepted before the next one is read
                all_row_batches_handed(room_id, row_batches),
                all_ref_batches_handed(ref_batches),
//@ loop "while let Some(nodes) = result_recv.recv().await" #2
            invariant
                // [whatever_was_ingested_so_far_is_a_change]{C18}
                ingested ==> has_changes,
                // [fetched_rows_are_handed_to_the_database]{C03} for every batch of rows fetched for the announced versions that came out of the signature check, a batch built from THOSE rows was handed to the database service and accepted before the next one is read
                all_row_batches_handed(room_id, row_batches),
                all_ref_batches_handed(ref_batches),
//@ loop "while let Some(edges) = result_recv.recv().await" #1
            invariant
                // [whatever_was_ingested_so_far_is_a_change]{C18}
                ingested ==> has_changes,
                all_row_batches_handed(room_id, row_batches),
                // [fetched_references_are_handed_to_the_database]{C03} every batch of references fetched for the announced rows that came out of the signature check was handed to the database service and accepted by it before the next one is read
                all_ref_batches_handed(ref_batches),
//@ loop "while let Some(edges) = result_recv.recv().await" #2
            invariant
                // [whatever_was_ingested_so_far_is_a_change]{C18}
                ingested ==> has_changes,
                all_row_batches_handed(room_id, row_batches),
                // [fetched_references_are_handed_to_the_database]{C03} every batch of references fetched for the announced rows that came out of the signature check was handed to the database service and accepted by it before the next one is read
                all_ref_batches_handed(ref_batches),
//@ insert body-start
        let ghost mut ingested: bool = false;
        let ghost mut edge_batches: Seq<Seq<EdgeDeletionEntry>> = Seq::empty();
        let ghost mut node_batches: Seq<Seq<NodeDeletionEntry>> = Seq::empty();
        let ghost mut ref_batches: Seq<(Uid, Seq<Edge>)> = Seq::empty();
        let ghost mut row_batches: Seq<Seq<Node>> = Seq::empty();
        let ghost mut wanted: Seq<Node> = Seq::empty();
//@ insert-each after-stmt ".verify_nodes(nodes)"
                    proof { row_batches = row_batches.push(nodes@); wanted = Seq::empty(); }
//@ insert-each before-stmt "if !nti.is_older_than_announced(&node) {"
                            proof { if !newer_v(nti.announced_mdate, nti.announced_signature@, node.mdate, node._signature@) { wanted = wanted.push(node); } }
//@ insert-each after-stmt "nodes_to_insert.push(nti);"
                                proof { lemma_wanted_step(wanted_before, b_before, it.seq()[it.index@ as int], x_pushed); }
//@ insert-each after-stmt ".verify_edges(edges)"
                    proof { ref_batches = ref_batches.push((room_id, edges@)); }
//@ insert after-stmt ".verify_edge_log(edge_deletion)"
                proof { edge_batches = edge_batches.push(edge_deletion@); }
//@ insert after-stmt ".verify_node_log(node_deletion)"
                proof { node_batches = node_batches.push(node_deletion@); }
//@ insert-each after-stmt ".delete_edges(edge_deletion)" optional
                proof { ingested = true; }
//@ insert-each after-stmt ".delete_nodes(node_deletion)" optional
                proof { ingested = true; }
//@ insert-each after-stmt ".add_nodes(room_id, nodes_to_insert)" optional
                    proof { ingested = true; }
//@ insert-each after-stmt "discret_services.database.add_edges(room_id, edges)" optional
                    proof { ingested = true; }
//@ insert-each before-stmt "Ok(has_changes)" optional
        // [whatever_was_ingested_is_reported_as_a_change]{C18} a day's synchronisation that handed anything to the database - rows, references or deletion records - reports a change: the caller then asks for the recomputation that produces the data-changed event
        assert(ingested ==> has_changes);
//@ insert-each before-stmt ".delete_edges(edge_deletion)"
                // [edge_deletions_ingested_only_after_signature_check] reference deletion records reach the database only out of the signature verification service
                assert(all_edge_dels_ok(edge_deletion@));
//@ insert-each before-stmt ".delete_nodes(node_deletion)"
                // [node_deletions_ingested_only_after_signature_check] row deletion records reach the database only out of the signature verification service
                assert(all_node_dels_ok(node_deletion@));
//@ insert-each before-stmt "nodes_to_insert.push(nti)"
                            // [delivered_row_is_the_announced_version_or_newer]{C03,C11,C02} a row delivered by the remote side goes on to the database only if it is the version announced for it - the one the last-writer-wins rule and the deletion log were consulted for - or a newer one (F42)
                            assert(delivered_not_older(nti));
                            assert(same_row(nti.node->Some_0, it.seq()[it.index@ as int]));
                            let ghost b_before = nodes_to_insert@; let ghost x_pushed = nti;
//@ insert-each before-stmt ".add_nodes(room_id, nodes_to_insert)"
                    // [nodes_ingested_only_after_signature_check] rows reach the database only out of the signature verification service (the storage slot is set afterwards, it is not a signed field), and for the room being synchronised
                    assert(all_rows_ok(nodes_to_insert@));
                    // [every_requested_row_not_older_than_announced_is_in_the_batch]{C03} every delivered row that was requested (its id was among those asked for) and is the announced version or a newer one is in the batch that goes to the database: none is dropped on the way
                    assert(all_wanted_in(wanted, nodes_to_insert@));
//@ insert-each before-stmt "discret_services.database.add_edges(room_id, edges)"
                    // [edges_ingested_only_after_signature_check] references reach the database only out of the signature verification service, and for the room being synchronised
                    assert(all_edges_ok(edges@));
//@ end

//@ extract src/synchronisation/peer_inbound_service.rs :: impl LocalPeerService / fn synchronise_room
//@ attr #[verifier::exec_allows_no_decreases_clause]
//@ attr #[verifier::loop_isolation(false)]
//@ rewrite E3 "crate::Error" => "crate_error::Error" x*
//@ loop "while let Some(node) = peers_receiv.recv().await"
            invariant all_peers_valid(peer_nodes@),
//@ loop "for node in nodes" #2
                        invariant all_peers_valid(peer_nodes@),
//@ insert body-start
        let ghost mut recompute_requested: bool = false;
//@ rewrite E7 "(discret_services\.database\.compute_daily_log\(\)\.await)\s*([,;])" => "{ \1; proof { recompute_requested = true; } }\2" x1
//@ insert before-stmt "changed?;"
        // [recompute_requested_after_failed_synchronisation]{C18} a synchronisation that failed part-way may have committed some days: unless it cleanly reported that nothing changed, the recomputation of the daily logs (which produces the data-changed event) is requested before the failure is reported
        assert((changed is Ok && changed->Ok_0 == false) || recompute_requested);
//@ insert before-stmt "Ok(())" #1
        // [recompute_requested_after_synchronised_batch]{C18} a synchronisation that fetched rows or deletion records asks for the recomputation of the daily logs (which produces the data-changed event) before it reports success
        assert(sync_changed_data(remote_room, local_room_def) ==> recompute_requested);
//@ insert before-stmt ".add_peer_nodes(peer_nodes.clone())"
        // [peer_rows_ingested_only_validated_and_signature_checked] a peer row received from the remote side is stored only after Peer::validate accepted it and its signature was checked
        assert(all_nodes_ok(peer_nodes@) && all_peers_valid(peer_nodes@));
//@ end

} // verus!
fn main() {}
