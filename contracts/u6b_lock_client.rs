//@ unit u6b_lock_client props C20
// Unit U6b: the client side of the room locks (src/synchronisation/peer_inbound_service.rs): the task that synchronises one
// granted room (process_acquired_room, `async move` block lifted by rule E9) and the release of everything a connection
// still holds when it ends (cleanup).  "Granted rooms are released": on every exit path of the room task the room is handed
// back to the lock service exactly once, after the synchronisation attempt and whatever its outcome; cleanup releases every
// room it is given, each exactly once, in order.
#![allow(unused_imports, unused_variables, dead_code, unused_mut, non_snake_case)]
use vstd::prelude::*;
use std::collections::{HashMap, HashSet, VecDeque};   // the std collections a change to the extracted code may reach for
verus! {
pub mod trusted {
    use vstd::prelude::*;
    use vstd::std_specs::hash::*;
    #[verifier::external_body]
    pub broadcast proof fn axiom_uid_key_model() ensures #[trigger] obeys_key_model::<[u8; 16]>() {}
}
broadcast use {vstd::std_specs::hash::group_hash_axioms, trusted::axiom_uid_key_model};
pub type Uid = [u8; 16];
pub mod crate_error { pub enum Error { Other() } }
use crate_error::Error;
/// Arc<Mutex<HashSet<Uid>>>: the rooms this connection currently holds.  `lock()` hands out the set behind the mutex: ANY set
/// (other tasks of the connection change it between two locks), with std's HashSet operations on it (vstd specifications)
pub struct AcquiredSet { x: u8 }
impl AcquiredSet {
    #[verifier::external_body]
    pub async fn lock(&self) -> (r: Box<HashSet<Uid>>) { unimplemented!() }
}
pub struct QueryService { x: u8 }
pub struct PeerConnectionService { x: u8 }
pub struct EventService { x: u8 }
pub enum EventServiceMessage { RoomSynchronized(Uid), Other() }
impl EventService {
    #[verifier::external_body]
    pub async fn notify(&self, m: EventServiceMessage) { unimplemented!() }
}
pub struct DiscretServices { pub events: EventService }
pub struct RoomLockService { x: u8 }
impl RoomLockService {
    /// sends SyncLockMessage::Unlock(room) to the scheduler (unit u6_locks)
    #[verifier::external_body]
    pub async fn unlock(&self, room: Uid) { unimplemented!() }
}
pub struct LocalPeerService { x: u8 }
impl LocalPeerService {
    /// the synchronisation of one room: may fail at any point
    #[verifier::external_body]
    pub async fn synchronise_room(room_id: Uid, query_service: &QueryService, peer_service: PeerConnectionService, discret_services: &DiscretServices) -> (r: std::result::Result<(), crate_error::Error>) { unimplemented!() }
}

//@ extract src/synchronisation/peer_inbound_service.rs :: impl LocalPeerService / fn process_acquired_room as LocalPeerService::lifted_room_task
//@ lift "tokio::spawn(async move {" :: async fn lifted_room_task(room: Uid, acquired_lock: AcquiredSet, query_service: QueryService, lock_service: RoomLockService, peer_service: PeerConnectionService, discret_services: DiscretServices)
//@ insert body-start
            let ghost mut released: Seq<Uid> = Seq::empty();
            let ghost mut attempted: bool = false;
            let ghost mut taken: Option<bool> = None;      // what taking the room out of the connection's held set answered
//@ insert-each after-stmt "match Self::synchronise_room("
            proof { attempted = true; }
//@ insert-each after-stmt "lock_service.unlock(room)"
            proof { released = released.push(room); }
//@ insert-each after-stmt "let held = acquired_lock.lock().await.remove(&room);" optional
            proof { taken = Some(held); }
//@ insert-each before-stmt "lock_service.unlock(room)"
                // [room_released_only_by_who_took_it_from_the_held_set] the task hands the room back only if it took it out of the connection's held set itself: a room already taken by the end-of-connection cleanup was released there (finding F20: two releases for one grant free a room that was granted to another connection in between)
                assert(taken == Some(true) && released =~= Seq::<Uid>::empty());
//@ insert-each before-stmt "return" optional
            // [room_released_on_every_exit] no exit of the room task without the room having been taken out of the held set and, if it was still there, handed back
            assert(attempted && taken is Some && released =~= (if taken->Some_0 { seq![room] } else { Seq::<Uid>::empty() }));
//@ insert body-end
            // [granted_room_released_exactly_once] at the end of the task, after the synchronisation attempt and whatever its outcome, the room has been taken out of the held set and handed back exactly once if it was still there
            assert(attempted && taken is Some && released =~= (if taken->Some_0 { seq![room] } else { Seq::<Uid>::empty() }));
//@ end

//@ extract src/synchronisation/peer_inbound_service.rs :: impl LocalPeerService / fn cleanup
//@ loop "for room in rooms" iter it
            invariant released =~= rooms0.subrange(0, it.index@ as int), it.seq() == rooms0,
//@ insert body-start
        let ghost rooms0 = rooms@;
        let ghost mut released: Seq<Uid> = Seq::empty();
//@ insert after-stmt "lock_service.unlock(room).await;"
            proof { released = released.push(room); }
//@ insert body-end
        // [connection_end_releases_everything_it_held] every room the ending connection still holds is released, each exactly once
        assert(released =~= rooms0);
//@ end
} // verus!
fn main() {}
