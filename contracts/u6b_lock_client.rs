//@ unit u6b_lock_client props C20
// Unit U6b: the client side of the room locks (src/synchronisation/peer_inbound_service.rs): the task that synchronises one
// granted room (process_acquired_room, `async move` block lifted by rule E9) and the release of everything a connection
// still holds when it ends (cleanup).  "Granted rooms are released": on every exit path of the room task the room is handed
// back to the lock service exactly once, after the synchronisation attempt and whatever its outcome; cleanup releases every
// room it is given, each exactly once, in order.
#![allow(unused_imports, unused_variables, dead_code, unused_mut, non_snake_case)]
use vstd::prelude::*;
use std::collections::{HashMap, HashSet, VecDeque};   // the std collections a change to the extracted code may reach for
verus! {
pub mod trusted {
    use vstd::prelude::*;
    use vstd::std_specs::hash::*;
    #[verifier::external_body]
    pub broadcast proof fn axiom_uid_key_model() ensures #[trigger] obeys_key_model::<[u8; 16]>() {}
}
broadcast use {vstd::std_specs::hash::group_hash_axioms, trusted::axiom_uid_key_model};
pub type Uid = [u8; 16];
pub mod crate_error { pub enum Error { Other() } }
use crate_error::Error;
/// Arc<Mutex<HashSet<Uid>>>: the rooms this connection currently holds.  `lock()` hands out the set behind the mutex: ANY set
/// (other tasks of the connection change it between two locks), with std's HashSet operations on it (vstd specifications)
pub struct AcquiredSet { x: u8 }
impl AcquiredSet {
    #[verifier::external_body]
    pub async fn lock(&self) -> (r: Box<HashSet<Uid>>) { unimplemented!() }
}
pub struct QueryService { x: u8 }
pub struct PeerConnectionService { x: u8 }
pub struct EventService { x: u8 }
pub enum EventServiceMessage { RoomSynchronized(Uid), Other() }
impl EventService {
    #[verifier::external_body]
    pub async fn notify(&self, m: EventServiceMessage) { unimplemented!() }
}
pub struct DiscretServices { pub events: EventService }
pub struct RoomLockService { x: u8 }
impl RoomLockService {
    /// sends SyncLockMessage::Unlock(room) to the scheduler (unit u6_locks)
    #[verifier::external_body]
    pub async fn unlock(&self, room: Uid) { unimplemented!() }
}
pub struct LocalPeerService { x: u8 }
impl LocalPeerService {
    /// the synchronisation of one room: may fail at any point
    #[verifier::external_body]
    pub async fn synchronise_room(room_id: Uid, query_service: &QueryService, peer_service: PeerConnectionService, discret_services: &DiscretServices) -> (r: std::result::Result<(), crate_error::Error>) { unimplemented!() }
}

//@ extract src/synchronisation/peer_inbound_service.rs :: impl LocalPeerService / fn process_acquired_room as LocalPeerService::lifted_room_task
//@ lift "tokio::spawn(async move {" :: async fn lifted_room_task(room: Uid, acquired_lock: AcquiredSet, query_service: QueryService, lock_service: RoomLockService, peer_service: PeerConnectionService, discret_services: DiscretServices)
//@ insert body-start
            let ghost mut released: Seq<Uid> = Seq::empty();
            let ghost mut attempted: bool = false;
            let ghost mut taken: Option<bool> = None;      // what taking the room out of the connection's held set answered
//@ insert-each after-stmt "match Self::synchronise_room("
            proof { attempted = true; }
//@ insert-each after-stmt "lock_service.unlock(room)"
            proof { released = released.push(room); }
//@ insert-each after-stmt "let held = acquired_lock.lock().await.remove(&room);" optional
            proof { taken = Some(held); }
//@ insert-each before-stmt "lock_service.unlock(room)"
                // [room_released_only_by_who_took_it_from_the_held_set] the task hands the room back only if it took it out of the connection's held set itself: a room already taken by the end-of-connection cleanup was released there (finding F20: two releases for one grant free a room that was granted to another connection in between)
                assert(taken == Some(true) && released =~= Seq::<Uid>::empty());
//@ insert-each before-stmt "return" optional
            // [room_released_on_every_exit] no exit of the room task without the room having been taken out of the held set and, if it was still there, handed back
            assert(attempted && taken is Some && released =~= (if taken->Some_0 { seq![room] } else { Seq::<Uid>::empty() }));
//@ insert body-end
            // [granted_room_released_exactly_once] at the end of the task, after the synchronisation attempt and whatever its outcome, the room has been taken out of the held set and handed back exactly once if it was still there
            assert(attempted && taken is Some && released =~= (if taken->Some_0 { seq![room] } else { Seq::<Uid>::empty() }));
//@ end

//@ extract src/synchronisation/peer_inbound_service.rs :: impl LocalPeerService / fn cleanup
//@ loop "for room in rooms" iter it
            invariant released =~= rooms0.subrange(0, it.index@ as int), it.seq() == rooms0,
//@ insert body-start
        let ghost rooms0 = rooms@;
        let ghost mut released: Seq<Uid> = Seq::empty();
//@ insert after-stmt "lock_service.unlock(room).await;"
            proof { released = released.push(room); }
//@ insert body-end
        // [connection_end_releases_everything_it_held] every room the ending connection still holds is released, each exactly once
        assert(released =~= rooms0);
//@ end

// ---- the end of a connection (the statements of LocalPeerService::start that follow its event loop)
/// tokio::sync::mpsc::UnboundedReceiver<Uid>: the channel on which the lock service (unit u6_locks) sends the rooms it grants to
/// this connection.  `pending()` = the grants sent and not yet read.  While the channel is open the lock service may send at any
/// time (nothing is known about pending()); once closed, sends fail (the lock service then does not count the room as granted:
/// u6_locks `lock_request.reply.send(room).is_ok()`), so pending() only shrinks.  ASSUMED: tokio's close / try_recv semantics
/// (try_recv on a closed channel returns every message already sent, then Err).
pub struct GrantReceiver { x: u8 }
pub struct TryRecvError { x: u8 }
impl GrantReceiver {
    pub uninterp spec fn pending(&self) -> Seq<Uid>;
    pub uninterp spec fn closed(&self) -> bool;
    #[verifier::external_body]
    pub fn close(&mut self) ensures final(self).closed() { unimplemented!() }
    #[verifier::external_body]
    pub fn try_recv(&mut self) -> (r: std::result::Result<Uid, TryRecvError>)
        ensures
            final(self).closed() == old(self).closed(),
            old(self).closed() ==> match r {
                Ok(room) => old(self).pending().len() > 0 && room == old(self).pending()[0] && final(self).pending() == old(self).pending().skip(1),
                Err(_) => old(self).pending().len() == 0 && final(self).pending() == old(self).pending(),
            },
    { unimplemented!() }
}
pub fn drop<T>(_x: T) {}
// E8 cut: `for room in acquere.drain() { rooms.push(room); }` (hash_set::Drain has no Verus model).  ASSUMED: std semantics -
// the set is emptied into `rooms`, each element once.
#[verifier::external_body]
pub fn cut_drain_held(acquere: &mut Box<HashSet<Uid>>, rooms: &mut Vec<Uid>)
    ensures final(acquere)@ == Set::<Uid>::empty(), final(rooms)@.no_duplicates(), final(rooms)@.to_set() == old(acquere)@, old(rooms)@.len() == 0 ==> final(rooms)@.len() == old(acquere)@.len(),
{ unimplemented!() }
impl LocalPeerService {
    /// the real `cleanup` (under contract above), seen from its caller: every room it is given is released
    #[verifier::external_body]
    pub async fn cleanup_stub(lock_service: &RoomLockService, rooms: Vec<Uid>) { unimplemented!() }
}

//@ extract src/synchronisation/peer_inbound_service.rs :: impl LocalPeerService / fn start as LocalPeerService::lifted_connection_end
//@ lift-range "let mut acquere = acquired_lock.lock().await;" .. "let key = remote_verifying_key.lock().await;" :: async fn lifted_connection_end(acquired_lock: AcquiredSet, lock_service: RoomLockService, lock_receiver0: GrantReceiver)
//@ cut "for room in acquere.drain()" => "cut_drain_held(&mut acquere, &mut rooms);"
//@ rewrite E3 "Self::cleanup\(&lock_service, rooms\)" => "Self::cleanup_stub(&lock_service, rooms)" x1
//@ insert body-start
            let mut lock_receiver = lock_receiver0;   // E9: `mut lock_receiver` of the enclosing function
            let ghost mut released: Seq<Uid> = Seq::empty();
            let ghost mut unread: Seq<Uid> = Seq::empty();
            let ghost mut handed_to_cleanup: Option<Seq<Uid>> = None;
            let ghost mut held_left: Set<Uid> = Set::empty();
//@ insert before-stmt "Self::cleanup(&lock_service, rooms).await;"
            proof { handed_to_cleanup = Some(rooms@); held_left = acquere@; }
//@ insert after-stmt "let mut acquere = acquired_lock.lock().await;"
            let ghost held0 = acquere@;
//@ insert after-stmt "lock_receiver.close();"
            proof { unread = lock_receiver.pending(); }
//@ loop "while let Ok(room) = lock_receiver.try_recv()"
                invariant lock_receiver.closed(), released + lock_receiver.pending() =~= unread,
                ensures lock_receiver.pending().len() == 0,
                decreases lock_receiver.pending().len(),
//@ insert after-stmt "lock_service.unlock("
                proof { released = released.push(room); }
//@ insert body-end
            // [connection_end_hands_every_held_room_to_cleanup]{C20} every room still in the connection's held set is handed to cleanup (which releases each exactly once: see cleanup), and the set is left empty so that a room task still running does not release it again
            assert(handed_to_cleanup is Some && handed_to_cleanup->Some_0.to_set() == held0 && handed_to_cleanup->Some_0.no_duplicates() && held_left == Set::<Uid>::empty());
            // [unread_grants_released_at_connection_end]{C20} a room the lock service granted to this connection and that the connection had not read when it ended is released too, each exactly once, and no further grant can reach the ended connection (the channel is closed before it is emptied)
            assert(lock_receiver.closed() && lock_receiver.pending().len() == 0 && released =~= unread);
//@ end
} // verus!
fn main() {}
