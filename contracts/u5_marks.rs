//@ unit u5_marks props C09 C18 also C11 C02 C13 C03
// Unit U5: which (room, entity, day) buckets of the daily log each kind of write marks for recomputation
// (daily_log.rs, node.rs, mutation_query.rs, deletion.rs, edge.rs).  The recomputation itself (SQL + hashing over query
// results) is out of reach; what is decided here is the other half of the mechanism: every write marks every bucket
// whose content it changes.
#![feature(allocator_api)]
#![allow(unused_imports, unused_variables, dead_code, unused_mut, non_snake_case)]
use vstd::prelude::*;
use vstd::std_specs::iter::IteratorSpec;
use vstd::std_specs::hash::*;
use vstd::std_specs::cmp::PartialEqSpec;
use std::alloc::Allocator;
use std::collections::{HashMap, HashSet};
use std::collections::hash_map::Iter;
verus! {
pub open spec fn iter_covers<K, V>(m: Map<K, V>, rem: Seq<(&K, &V)>) -> bool {
    &&& rem.len() == m.len()
    &&& forall|i: int| 0 <= i < rem.len() ==> m.contains_key(*(#[trigger] rem[i]).0) && m[*rem[i].0] == *rem[i].1
    &&& forall|k: K| m.contains_key(k) ==> exists|i: int| 0 <= i < rem.len() && *(#[trigger] rem[i]).0 == k
}
pub assume_specification<'a, K, V, S, A: Allocator>[ <&'a HashMap<K, V, S, A> as IntoIterator>::into_iter ](m: &'a HashMap<K, V, S, A>) -> (r: Iter<'a, K, V>)
    ensures iter_covers(m@, r.remaining()), r.obeys_prophetic_iter_laws();

broadcast use {vstd::laws_eq::group_laws_eq, vstd::std_specs::hash::group_hash_axioms, trusted::group_trusted};
pub type Uid = [u8; 16];

pub mod trusted {
    use vstd::prelude::*;
    use vstd::std_specs::hash::*;
    use std::collections::{HashMap, HashSet};
    #[verifier::external_body]
    pub broadcast proof fn axiom_uid_key_model() ensures #[trigger] obeys_key_model::<[u8; 16]>() {}
    #[verifier::external_body]
    pub broadcast proof fn axiom_string_key_model() ensures #[trigger] obeys_key_model::<String>() {}
    #[verifier::external_body]
    pub broadcast proof fn axiom_i64_key_model() ensures #[trigger] obeys_key_model::<i64>() {}
    /// the String with a given content (strings are determined by their content)
    pub uninterp spec fn string_of(s: Seq<char>) -> String;
    #[verifier::external_body]
    pub broadcast proof fn axiom_string_of(s: Seq<char>) ensures (#[trigger] string_of(s))@ == s {}
    #[verifier::external_body]
    pub broadcast proof fn axiom_string_of_view(x: String) ensures #[trigger] string_of(x@) == x {}
    pub uninterp spec fn spec_is_default<V>(v: V) -> bool;
    #[verifier::external_body]
    pub broadcast proof fn axiom_default_map(v: HashMap<String, HashSet<i64>>) ensures #[trigger] spec_is_default(v) ==> v@ == Map::<String, HashSet<i64>>::empty() {}
    #[verifier::external_body]
    pub broadcast proof fn axiom_default_set(v: HashSet<i64>) ensures #[trigger] spec_is_default(v) ==> v@ == Set::<i64>::empty() {}
    pub broadcast group group_trusted { axiom_uid_key_model, axiom_string_key_model, axiom_i64_key_model, axiom_string_of, axiom_string_of_view, axiom_default_map, axiom_default_set }
}
pub use trusted::{string_of, spec_is_default};
pub assume_specification<'a, K, V: std::default::Default>[ std::collections::hash_map::Entry::<'a, K, V>::or_default ](entry: std::collections::hash_map::Entry<'a, K, V>) -> (value: &'a mut V)
    ensures
        match entry.value() { Some(v) => *value == v, None => spec_is_default(*value) },
        entry.final_value() == Some(*final(value));
// core: `impl<T: Clone> ToOwned for T { fn to_owned(&self) -> T { self.clone() } }`
pub assume_specification<T: Clone>[ <T as ToOwned>::to_owned ](s: &T) -> (r: T) ensures call_ensures(T::clone, (s,), r);

/// the UTC day of a timestamp (date_utils::date; total since fix e7339d7, checked by Kani under C14)
pub uninterp spec fn spec_day(t: i64) -> i64;
#[verifier::external_body]
pub fn date(date_time: i64) -> (r: i64) ensures r == spec_day(date_time) { unimplemented!() }

//@ extract src/database/daily_log.rs :: struct DailyMutations
//@ end
//@ extract src/database/node.rs :: struct Node
//@ end
//@ extract src/database/node.rs :: struct NodeToInsert
//@ end
//@ extract src/database/node.rs :: struct NodeDeletionEntry
//@ end
//@ extract src/database/edge.rs :: struct EdgeDeletionEntry
//@ end

/// the abstract view of the batch's marks: a set of (room, entity, day) buckets
pub closed spec fn marked(dm: DailyMutations, room: Uid, entity: Seq<char>, day: i64) -> bool {
    dm.room_dates@.contains_key(room)
    && dm.room_dates@[room]@.contains_key(string_of(entity))
    && dm.room_dates@[room]@[string_of(entity)]@.contains(day)
}
/// `b` has every mark of `a` plus the bucket of (room, entity, t), and nothing else
pub closed spec fn marks_plus(a: DailyMutations, b: DailyMutations, room: Uid, entity: Seq<char>, t: i64) -> bool {
    forall|r: Uid, e: Seq<char>, d: i64| #[trigger] marked(b, r, e, d) <==> (marked(a, r, e, d) || (r == room && e == entity && d == spec_day(t)))
}
pub closed spec fn marks_superset(a: DailyMutations, b: DailyMutations) -> bool {
    forall|r: Uid, e: Seq<char>, d: i64| #[trigger] marked(a, r, e, d) ==> marked(b, r, e, d)
}

//@ extract src/database/daily_log.rs :: impl DailyMutations / fn set_need_update
//@ spec
        ensures
            // [mark_exactly_one_bucket] the whole view: all previous marks are kept and exactly the bucket (room, entity, day(mut_date)) is added
            marks_plus(*old(self), *final(self), room, entity@, mut_date),
//@ end

//@ extract src/database/node.rs :: impl NodeToInsert / fn update_daily_logs
//@ insert body-start
        proof { assert(<[u8; 16] as PartialEqSpec<[u8; 16]>>::obeys_eq_spec()); }
//@ spec
        ensures
            // [sync_write_marks_new_bucket] a row stored from a peer marks the bucket it enters: (its room, its entity, the day of its modification date)
            self.node is Some && self.node->Some_0.room_id is Some ==>
                marked(*final(daily_log), self.node->Some_0.room_id->Some_0, self.node->Some_0._entity@, spec_day(self.node->Some_0.mdate)),
            // [sync_write_marks_old_bucket] and the bucket the replaced version leaves: (old room, entity, day of the old modification date), whether or not the room changed
            self.node is Some && self.node->Some_0.room_id is Some && self.old_room_id is Some ==>
                marked(*final(daily_log), self.old_room_id->Some_0, self.node->Some_0._entity@, spec_day(self.old_mdate)),
            // [sync_write_keeps_marks] no mark of the batch is lost
            marks_superset(*old(daily_log), *final(daily_log)),
//@ end

//@ extract src/database/deletion.rs :: struct DeletionQuery
//@ end
//@ extract src/database/mutation_query.rs :: struct NodeToMutate
//@ end
//@ extract src/database/mutation_query.rs :: struct InsertEntity
//@ end
//@ extract src/database/deletion.rs :: struct NodeDelete
//@ end
//@ extract src/database/deletion.rs :: struct EdgeDelete
//@ end
//@ extract src/database/edge.rs :: struct Edge
//@ end

//@ extract src/database/deletion.rs :: impl DeletionQuery / fn update_daily_logs
//@ attr #[verifier::loop_isolation(false)]
//@ loop "for (room_id, entity, mdate) in &self.replaced_versions" iter itr
            invariant
                marks_superset(*old(daily_log), *daily_log),
                forall|i: int| 0 <= i < itr.index@ ==> marked(*daily_log, (#[trigger] self.replaced_versions@[i]).0, self.replaced_versions@[i].1@, spec_day(self.replaced_versions@[i].2)),
//@ loop "for edg in &self.edge_log" iter it
            invariant
                marks_superset(*old(daily_log), *daily_log),
                forall|i: int| 0 <= i < self.replaced_versions@.len() ==> marked(*daily_log, (#[trigger] self.replaced_versions@[i]).0, self.replaced_versions@[i].1@, spec_day(self.replaced_versions@[i].2)),
                forall|i: int| 0 <= i < it.index@ ==> marked(*daily_log, (#[trigger] self.edge_log@[i]).room_id, self.edge_log@[i].src_entity@, spec_day(self.edge_log@[i].deletion_date)),
//@ loop "for log in &self.node_log" iter it
            invariant
                marks_superset(*old(daily_log), *daily_log),
                forall|i: int| 0 <= i < self.replaced_versions@.len() ==> marked(*daily_log, (#[trigger] self.replaced_versions@[i]).0, self.replaced_versions@[i].1@, spec_day(self.replaced_versions@[i].2)),
                forall|i: int| 0 <= i < self.edge_log@.len() ==> marked(*daily_log, (#[trigger] self.edge_log@[i]).room_id, self.edge_log@[i].src_entity@, spec_day(self.edge_log@[i].deletion_date)),
                forall|i: int| 0 <= i < it.index@ ==> marked(*daily_log, (#[trigger] self.node_log@[i]).room_id, self.node_log@[i].entity@, spec_day(self.node_log@[i].deletion_date))
                    && marked(*daily_log, self.node_log@[i].room_id, self.node_log@[i].entity@, spec_day(self.node_log@[i].mdate)),
//@ spec
        ensures
            // [deletion_marks_tombstone_day_and_row_day] every node tombstone marks the day it enters (deletion date) and the day the deleted row leaves (its modification date)
            forall|i: int| 0 <= i < self.node_log@.len() ==> marked(*final(daily_log), (#[trigger] self.node_log@[i]).room_id, self.node_log@[i].entity@, spec_day(self.node_log@[i].deletion_date))
                    && marked(*final(daily_log), self.node_log@[i].room_id, self.node_log@[i].entity@, spec_day(self.node_log@[i].mdate)),
            // [deletion_marks_edge_tombstone_day] every reference tombstone marks the day it enters
            forall|i: int| 0 <= i < self.edge_log@.len() ==> marked(*final(daily_log), (#[trigger] self.edge_log@[i]).room_id, self.edge_log@[i].src_entity@, spec_day(self.edge_log@[i].deletion_date)),
            // [deletion_marks_day_left_by_redated_rows] the source row of a deleted reference is re-dated: the day its previous version leaves is marked
            forall|i: int| 0 <= i < self.replaced_versions@.len() ==> marked(*final(daily_log), (#[trigger] self.replaced_versions@[i]).0, self.replaced_versions@[i].1@, spec_day(self.replaced_versions@[i].2)),
            // [deletion_keeps_marks]
            marks_superset(*old(daily_log), *final(daily_log)),
//@ end

/// the buckets a prepared entity changes by its own row are marked: the bucket the row enters and the bucket its replaced version leaves
pub open spec fn own_marked(e: InsertEntity, dm: DailyMutations) -> bool {
    (e.node_to_mutate.room_id is Some && e.node_to_mutate.node is Some ==>
        marked(dm, e.node_to_mutate.room_id->Some_0, e.node_to_mutate.node->Some_0._entity@, spec_day(e.node_to_mutate.date)))
    && (e.node_to_mutate.room_id is Some && e.node_to_mutate.old_node is Some && e.node_to_mutate.old_node->Some_0.room_id is Some ==>
        marked(dm, e.node_to_mutate.old_node->Some_0.room_id->Some_0, e.node_to_mutate.old_node->Some_0._entity@, spec_day(e.node_to_mutate.old_node->Some_0.mdate)))
}
pub open spec fn all_own_marked(v: Seq<InsertEntity>, n: int, dm: DailyMutations) -> bool { forall|j: int| 0 <= j < n ==> #[trigger] own_marked(v[j], dm) }
pub open spec fn outer_marked(seq: Seq<(&String, &Vec<InsertEntity>)>, n: int, dm: DailyMutations) -> bool {
    forall|i: int| 0 <= i < n ==> #[trigger] all_own_marked(seq[i].1@, seq[i].1@.len() as int, dm)
}
pub open spec fn subs_marked(m: Map<String, Vec<InsertEntity>>, dm: DailyMutations) -> bool {
    forall|k: String| #[trigger] m.contains_key(k) ==> all_own_marked(m[k]@, m[k]@.len() as int, dm)
}
broadcast proof fn lemma_outer_marked_mono(seq: Seq<(&String, &Vec<InsertEntity>)>, n: int, a: DailyMutations, b: DailyMutations)
    requires #[trigger] outer_marked(seq, n, a), #[trigger] marks_superset(a, b),
    ensures outer_marked(seq, n, b),
{
    assert forall|i: int| 0 <= i < n implies #[trigger] all_own_marked(seq[i].1@, seq[i].1@.len() as int, b) by {
        assert(all_own_marked(seq[i].1@, seq[i].1@.len() as int, a));
        lemma_own_marked_mono(seq[i].1@, seq[i].1@.len() as int, a, b);
    }
}
broadcast proof fn lemma_subs_marked_mono(m: Map<String, Vec<InsertEntity>>, a: DailyMutations, b: DailyMutations)
    requires #[trigger] subs_marked(m, a), #[trigger] marks_superset(a, b),
    ensures subs_marked(m, b),
{
    assert forall|k: String| #[trigger] m.contains_key(k) implies all_own_marked(m[k]@, m[k]@.len() as int, b) by {
        assert(all_own_marked(m[k]@, m[k]@.len() as int, a));
        lemma_own_marked_mono(m[k]@, m[k]@.len() as int, a, b);
    }
}
proof fn lemma_outer_covers(m: Map<String, Vec<InsertEntity>>, seq: Seq<(&String, &Vec<InsertEntity>)>, n: int, dm: DailyMutations)
    ensures (n == seq.len() && iter_covers(m, seq) && outer_marked(seq, n, dm)) ==> subs_marked(m, dm),
{
    if n == seq.len() && iter_covers(m, seq) && outer_marked(seq, n, dm) {
    assert forall|k: String| #[trigger] m.contains_key(k) implies all_own_marked(m[k]@, m[k]@.len() as int, dm) by {
        let i = choose|i: int| 0 <= i < seq.len() && *(#[trigger] seq[i]).0 == k;
        assert(all_own_marked(seq[i].1@, seq[i].1@.len() as int, dm));
        assert(m[k] == *seq[i].1);
    }
    }
}
broadcast proof fn lemma_marks_plus_superset(a: DailyMutations, b: DailyMutations, room: Uid, entity: Seq<char>, t: i64)
    requires #[trigger] marks_plus(a, b, room, entity, t),
    ensures marks_superset(a, b),
{
}
broadcast proof fn lemma_own_marked_mono(v: Seq<InsertEntity>, n: int, a: DailyMutations, b: DailyMutations)
    requires #[trigger] all_own_marked(v, n, a), #[trigger] marks_superset(a, b),
    ensures all_own_marked(v, n, b),
{
    assert forall|j: int| 0 <= j < n implies #[trigger] own_marked(v[j], b) by { assert(own_marked(v[j], a)); }
}
//@ extract src/database/mutation_query.rs :: impl InsertEntity / fn update_daily_logs
//@ attr #[verifier::exec_allows_no_decreases_clause]
//@ attr #[verifier::loop_isolation(false)]
//@ insert body-start
        broadcast use {lemma_own_marked_mono, lemma_outer_marked_mono, lemma_subs_marked_mono, lemma_marks_plus_superset};
//@ loop "for query in &self.sub_nodes" iter itq
            invariant marks_superset(*old(daily_log), *daily_log),
                iter_covers(self.sub_nodes@, itq.seq()),
                // [nested_entities_marked_so_far]{C09,C18,C13}
                outer_marked(itq.seq(), itq.index@ as int, *daily_log),
                itq.index@ == itq.seq().len() ==> subs_marked(self.sub_nodes@, *daily_log),
//@ loop "for insert in query.1" iter iti
                invariant marks_superset(*old(daily_log), *daily_log),
                    iti.seq().len() == query.1@.len(), forall|j: int| 0 <= j < iti.seq().len() ==> *(#[trigger] iti.seq()[j]) == query.1@[j],
                    all_own_marked(query.1@, iti.index@ as int, *daily_log),
                    outer_marked(itq.seq(), itq.index@ as int, *daily_log),
//@ insert after-stmt "for insert in query.1"
            proof {
                assert(itq.seq()[itq.index@ as int].1@ == query.1@);
                assert(all_own_marked(itq.seq()[itq.index@ as int].1@, itq.seq()[itq.index@ as int].1@.len() as int, *daily_log));
                assert(outer_marked(itq.seq(), itq.index@ as int + 1, *daily_log));
                lemma_outer_covers(self.sub_nodes@, itq.seq(), itq.index@ as int + 1, *daily_log);
            }
//@ loop "for edg in &self.edge_deletions_log" iter it
            invariant
                marks_superset(*old(daily_log), *daily_log),
                self.node_to_mutate.room_id is Some && self.node_to_mutate.node is Some ==>
                    marked(*daily_log, self.node_to_mutate.room_id->Some_0, self.node_to_mutate.node->Some_0._entity@, spec_day(self.node_to_mutate.date)),
                self.node_to_mutate.room_id is Some && self.node_to_mutate.old_node is Some && self.node_to_mutate.old_node->Some_0.room_id is Some ==>
                    marked(*daily_log, self.node_to_mutate.old_node->Some_0.room_id->Some_0, self.node_to_mutate.old_node->Some_0._entity@, spec_day(self.node_to_mutate.old_node->Some_0.mdate)),
                subs_marked(self.sub_nodes@, *daily_log),
                forall|i: int| 0 <= i < it.index@ ==> marked(*daily_log, (#[trigger] self.edge_deletions_log@[i]).room_id, self.edge_deletions_log@[i].src_entity@, spec_day(self.edge_deletions_log@[i].deletion_date)),
//@ spec
        ensures
            // [local_write_marks_new_bucket]{C09,C18,C13} a local write marks the bucket the row enters
            self.node_to_mutate.room_id is Some && self.node_to_mutate.node is Some ==>
                marked(*final(daily_log), self.node_to_mutate.room_id->Some_0, self.node_to_mutate.node->Some_0._entity@, spec_day(self.node_to_mutate.date)),
            // [local_write_marks_old_bucket]{C09,C18,C13} and the bucket the previous version leaves (its room, the day of its modification date)
            self.node_to_mutate.room_id is Some && self.node_to_mutate.old_node is Some && self.node_to_mutate.old_node->Some_0.room_id is Some ==>
                marked(*final(daily_log), self.node_to_mutate.old_node->Some_0.room_id->Some_0, self.node_to_mutate.old_node->Some_0._entity@, spec_day(self.node_to_mutate.old_node->Some_0.mdate)),
            // [local_write_marks_reference_tombstones]{C09,C18,C13} and the day every reference tombstone enters
            forall|i: int| 0 <= i < self.edge_deletions_log@.len() ==> marked(*final(daily_log), (#[trigger] self.edge_deletions_log@[i]).room_id, self.edge_deletions_log@[i].src_entity@, spec_day(self.edge_deletions_log@[i].deletion_date)),
            // [local_write_marks_nested_entities]{C09,C18,C13} every entity nested under a field of the mutation has its own buckets marked too (the recursion reaches it; applied at every level this covers the whole tree)
            subs_marked(self.sub_nodes@, *final(daily_log)),
            // [local_write_keeps_marks]
            marks_superset(*old(daily_log), *final(daily_log)),
//@ end
// ================================================================= a mutation that also changes room definitions (RoomMutationWrite / RoomMutationStreamWrite)
pub struct MutationParser { x: u8 }
//@ extract src/database/mutation_query.rs :: struct MutationQuery
//@ rewrite E3 "Arc<MutationParser>" => "Box<MutationParser>" x1
//@ end
pub struct ReplyTo { x: u8 }
pub struct RoomMutationWriteQuery { pub room_list: HashSet<Uid>, pub mutation_query: MutationQuery, pub reply: ReplyTo }
pub struct RoomMutationStreamWriteQuery { pub room_list: HashSet<Uid>, pub mutation_query: MutationQuery, pub reply: ReplyTo }
/// every top-level entity of the mutation that is not one of the room definitions the query changes has its buckets, and those of
/// everything nested under it, marked
pub open spec fn ordinary_entities_marked(v: Seq<InsertEntity>, n: int, rooms: Set<Uid>, dm: DailyMutations) -> bool {
    forall|j: int| 0 <= j < n && !rooms.contains((#[trigger] v[j]).node_to_mutate.id) ==> own_marked(v[j], dm) && subs_marked(v[j].sub_nodes@, dm)
}
proof fn lemma_ordinary_marked_mono(v: Seq<InsertEntity>, n: int, rooms: Set<Uid>, a: DailyMutations, b: DailyMutations)
    requires ordinary_entities_marked(v, n, rooms, a), marks_superset(a, b),
    ensures ordinary_entities_marked(v, n, rooms, b),
{
    assert forall|j: int| 0 <= j < n && !rooms.contains((#[trigger] v[j]).node_to_mutate.id) implies own_marked(v[j], b) && subs_marked(v[j].sub_nodes@, b) by {
        lemma_subs_marked_mono(v[j].sub_nodes@, a, b);
    }
}
//@ extract src/database/authorisation_service.rs :: impl RoomMutationWriteQuery / fn update_daily_logs
//@ attr #[verifier::loop_isolation(false)]
//@ insert before-stmt "insert.update_daily_logs(daily_log);"
                let ghost dm_before = *daily_log;
//@ insert after-stmt "insert.update_daily_logs(daily_log);"
                proof { lemma_ordinary_marked_mono(self.mutation_query.mutate_entities@, it.index@ as int, self.room_list@, dm_before, *daily_log); }
//@ loop "for insert in &self.mutation_query.mutate_entities" iter it
            invariant marks_superset(*old(daily_log), *daily_log),
                // [ordinary_rows_of_a_room_mutation_marked_so_far]{C09,C03,C13}
                ordinary_entities_marked(self.mutation_query.mutate_entities@, it.index@ as int, self.room_list@, *daily_log),
//@ spec
        ensures
            // [ordinary_rows_written_with_a_room_change_are_marked]{C09,C03,C13} a mutation that changes room definitions AND writes ordinary rows marks the buckets of every ordinary row (and of everything nested under it): only the entities that ARE the changed room definitions - recognised by their own id - are left to the room changelog; a row written INTO such a room is an ordinary row
            ordinary_entities_marked(self.mutation_query.mutate_entities@, self.mutation_query.mutate_entities@.len() as int, self.room_list@, *final(daily_log)),
            marks_superset(*old(daily_log), *final(daily_log)),
//@ end
//@ extract src/database/authorisation_service.rs :: impl RoomMutationStreamWriteQuery / fn update_daily_logs
//@ attr #[verifier::loop_isolation(false)]
//@ insert before-stmt "insert.update_daily_logs(daily_log);"
                let ghost dm_before = *daily_log;
//@ insert after-stmt "insert.update_daily_logs(daily_log);"
                proof { lemma_ordinary_marked_mono(self.mutation_query.mutate_entities@, it.index@ as int, self.room_list@, dm_before, *daily_log); }
//@ loop "for insert in &self.mutation_query.mutate_entities" iter it
            invariant marks_superset(*old(daily_log), *daily_log),
                // [ordinary_rows_of_a_streamed_room_mutation_marked_so_far]{C09,C03,C13}
                ordinary_entities_marked(self.mutation_query.mutate_entities@, it.index@ as int, self.room_list@, *daily_log),
//@ spec
        ensures
            // [ordinary_rows_written_with_a_streamed_room_change_are_marked]{C09,C03,C13} the same for a mutation of a mutation stream: the two sites agree
            ordinary_entities_marked(self.mutation_query.mutate_entities@, self.mutation_query.mutate_entities@.len() as int, self.room_list@, *final(daily_log)),
            marks_superset(*old(daily_log), *final(daily_log)),
//@ end
// ================================================================= tombstones received from a peer (delete_all)
pub mod rusqlite { pub struct Error { x: u8 } }
pub uninterp spec fn stmt_executed<P>(p: P) -> bool;
pub struct Statement { x: u8 }
impl Statement {
    /// any statement may fail; a successful execution was bound to the parameters `p` (a fact only this contract establishes)
    #[verifier::external_body]
    pub fn execute<P>(&mut self, p: P) -> (r: std::result::Result<usize, rusqlite::Error>) ensures r is Ok ==> stmt_executed(p) { unimplemented!() }
    /// the look-up of the version of a row that is stored (`SELECT mdate FROM _node WHERE room_id = ? AND id = ?`: the SQL is assumed):
    /// its answer is the uninterpreted `stored_version_date` of the bound (room, id)
    #[verifier::external_body]
    pub fn query<P>(&mut self, p: P) -> (r: std::result::Result<Rows, rusqlite::Error>) ensures r is Ok ==> r->Ok_0.answer() == stored_version_date(p) { unimplemented!() }
}
/// the modification date of the row stored for the bound (room, id), if one is stored: what is in the database when the deletion is applied
pub uninterp spec fn stored_version_date<P>(p: P) -> Option<i64>;
pub struct Rows { x: u8 }
pub struct Row { x: u8 }
impl Rows {
    pub uninterp spec fn answer(&self) -> Option<i64>;
    #[verifier::external_body]
    pub fn next(&mut self) -> (r: std::result::Result<Option<Row>, rusqlite::Error>)
        ensures match r { Ok(Some(row)) => old(self).answer() == Some(row.value()), Ok(None) => old(self).answer() is None, Err(_) => true }
    { unimplemented!() }
}
impl Row {
    pub uninterp spec fn value(&self) -> i64;
    /// (specialised to the one use: column 0 read as an i64)
    #[verifier::external_body]
    pub fn get(&self, idx: usize) -> (r: std::result::Result<i64, rusqlite::Error>) ensures r is Ok ==> r->Ok_0 == self.value() { unimplemented!() }
}
pub open spec fn removed_version_day_marked(n: NodeDeletionEntry, dm: DailyMutations) -> bool {
    stored_version_date::<(&Uid, &Uid)>((&n.room_id, &n.id)) is Some ==> marked(dm, n.room_id, n.entity@, spec_day(stored_version_date::<(&Uid, &Uid)>((&n.room_id, &n.id))->Some_0))
}
pub struct Connection { x: u8 }
impl Connection {
    #[verifier::external_body]
    pub fn prepare_cached(&self, q: &str) -> (r: std::result::Result<Statement, rusqlite::Error>) { unimplemented!() }
}
impl Node {
    /// removes the text of the rows about to be deleted from the full-text index (SQL; under contract in u14_index): touches no mark
    #[verifier::external_body]
    pub fn delete_from_index<P>(query: &str, params: P, conn: &Connection) -> (r: std::result::Result<(), rusqlite::Error>) { unimplemented!() }
    /// the LOCAL hard deletion (Node::delete, under contract in u14_index): keyed by the row id alone, whatever the room; touches no mark
    #[verifier::external_body]
    pub fn delete(id: &Uid, conn: &Connection) -> (r: std::result::Result<(), rusqlite::Error>) { unimplemented!() }
}
/// the deletion record was handed to the deletion log by a successful write: facts only these contracts establish
pub uninterp spec fn node_tombstone_written(e: NodeDeletionEntry) -> bool;
pub uninterp spec fn edge_tombstone_written(e: EdgeDeletionEntry) -> bool;
impl NodeDeletionEntry {
    /// stores the tombstone (Writeable::write: SQL); the row is not altered
    #[verifier::external_body]
    pub fn write(&mut self, conn: &Connection) -> (r: std::result::Result<(), rusqlite::Error>) ensures *final(self) == *old(self), r is Ok ==> node_tombstone_written(*old(self)) { unimplemented!() }
}
impl EdgeDeletionEntry {
    #[verifier::external_body]
    pub fn write(&mut self, conn: &Connection) -> (r: std::result::Result<(), rusqlite::Error>) ensures *final(self) == *old(self), r is Ok ==> edge_tombstone_written(*old(self)) { unimplemented!() }
}

//@ extract src/database/node.rs :: impl NodeDeletionEntry / fn delete_all
//@ result r
//@ attr #[verifier::loop_isolation(false)]
//@ rewrite E17 "(?<=for node in )nodes(?= \{)" => "nodes.iter_mut()" x1
//@ loop "for node in" iter it
            invariant
                marks_superset(*old(daily_log), *daily_log),
                it.seq().len() == old(nodes)@.len(), forall|i: int| #![trigger it.seq()[i]] #![trigger old(nodes)@[i]] 0 <= i < it.seq().len() ==> *it.seq()[i] == old(nodes)@[i],
                forall|i: int| 0 <= i < it.index@ ==> marked(*daily_log, (#[trigger] old(nodes)@[i]).room_id, old(nodes)@[i].entity@, spec_day(old(nodes)@[i].deletion_date))
                    && marked(*daily_log, old(nodes)@[i].room_id, old(nodes)@[i].entity@, spec_day(old(nodes)@[i].mdate)),
                // [day_of_the_removed_version_marked_so_far]{C09}
                forall|i: int| 0 <= i < it.index@ ==> removed_version_day_marked(#[trigger] old(nodes)@[i], *daily_log),
                // [received_row_deletions_bound_so_far]{C02,C11}
                forall|i: int| 0 <= i < it.index@ ==> stmt_executed(((#[trigger] old(nodes)@[i]).room_id, old(nodes)@[i].id)),
                // [received_node_tombstones_recorded_so_far]{C11,C03}
                forall|i: int| 0 <= i < it.index@ ==> node_tombstone_written(#[trigger] old(nodes)@[i]),
//@ spec
        ensures
            // [received_node_tombstones_mark_both_days] every row tombstone applied from a peer marks, in the same batch, the day it enters (deletion date) and the day the deleted row leaves (its modification date)
            r is Ok ==> forall|i: int| 0 <= i < old(nodes)@.len() ==> marked(*final(daily_log), (#[trigger] old(nodes)@[i]).room_id, old(nodes)@[i].entity@, spec_day(old(nodes)@[i].deletion_date))
                    && marked(*final(daily_log), old(nodes)@[i].room_id, old(nodes)@[i].entity@, spec_day(old(nodes)@[i].mdate)),
            // [received_row_deletion_marks_the_day_of_the_version_it_removes]{C09} the deletion removes the row stored for (room, id) whatever its version: the day of THAT version - which may be another day than the one the record names, when a newer version is stored - loses a row and is marked too, in the same batch (F44)
            r is Ok ==> forall|i: int| 0 <= i < old(nodes)@.len() ==> removed_version_day_marked(#[trigger] old(nodes)@[i], *final(daily_log)),
            // [received_node_tombstones_keep_marks]
            marks_superset(*old(daily_log), *final(daily_log)),
            // [received_row_deletion_is_bound_to_the_record_room_and_id]{C02,C11} the statement that deletes the row of a received deletion record is bound to the room AND the id the record names - the room in which the author's right was checked: a record accepted for one room never removes a row stored in another (the statement text, `WHERE room_id=? AND id=?`, is SQL and is assumed)
            r is Ok ==> forall|i: int| 0 <= i < old(nodes)@.len() ==> stmt_executed(((#[trigger] old(nodes)@[i]).room_id, old(nodes)@[i].id)),
            // [received_node_deletion_always_recorded]{C11,C03} every deletion record received from a peer is written to the deletion log - whether or not the row it deletes is stored here: it is what keeps this peer from fetching the row back, later, from a peer that has not seen the deletion, and what this peer hands on
            r is Ok ==> forall|i: int| 0 <= i < old(nodes)@.len() ==> node_tombstone_written(#[trigger] old(nodes)@[i]),
//@ end

pub open spec fn edge_removal_executed(e: EdgeDeletionEntry) -> bool {
    stmt_executed::<(&Uid, &String, &String, &Uid, &i64)>((&e.src, &e.src_entity, &e.label, &e.dest, &e.cdate))
}
//@ extract src/database/edge.rs :: impl EdgeDeletionEntry / fn delete_all
//@ result r
//@ attr #[verifier::loop_isolation(false)]
//@ rewrite E17 "(?<=for e in )edges(?= \{)" => "edges.iter_mut()" x1
//@ loop "for e in" iter it
            invariant
                marks_superset(*old(daily_log), *daily_log),
                it.seq().len() == old(edges)@.len(), forall|i: int| #![trigger it.seq()[i]] #![trigger old(edges)@[i]] 0 <= i < it.seq().len() ==> *it.seq()[i] == old(edges)@[i],
                forall|i: int| 0 <= i < it.index@ ==> marked(*daily_log, (#[trigger] old(edges)@[i]).room_id, old(edges)@[i].src_entity@, spec_day(old(edges)@[i].deletion_date)),
                // [received_edge_tombstones_recorded_so_far]{C11,C03}
                forall|i: int| 0 <= i < it.index@ ==> edge_tombstone_written(#[trigger] old(edges)@[i]),
                // [received_reference_deletions_bound_so_far]{C02,C11}
                forall|i: int| 0 <= i < it.index@ ==> edge_removal_executed(#[trigger] old(edges)@[i]),
//@ spec
        ensures
            // [received_edge_tombstones_mark_their_day] every reference tombstone applied from a peer marks the day it enters
            r is Ok ==> forall|i: int| 0 <= i < old(edges)@.len() ==> marked(*final(daily_log), (#[trigger] old(edges)@[i]).room_id, old(edges)@[i].src_entity@, spec_day(old(edges)@[i].deletion_date)),
            // [received_edge_tombstones_keep_marks]
            marks_superset(*old(daily_log), *final(daily_log)),
            // [received_reference_deletion_removes_the_reference_the_record_names]{C02,C11} for every reference deletion record received, the statement that removes the reference was executed, bound to the source, source entity, label, destination and creation date the record names - the reference the author's right was checked for, and no other (the statement text is SQL and is assumed)
            r is Ok ==> forall|i: int| 0 <= i < old(edges)@.len() ==> edge_removal_executed(#[trigger] old(edges)@[i]),
            // [received_edge_deletion_always_recorded]{C11,C03} every reference deletion record received from a peer is written to the deletion log, whether or not the reference is stored here
            r is Ok ==> forall|i: int| 0 <= i < old(edges)@.len() ==> edge_tombstone_written(#[trigger] old(edges)@[i]),
//@ end

} // verus!
fn main() {}
