//@ unit u15b_versions props C15
// Unit U15b: "the storage identifiers of entities and fields never change" - the per-item rules of a data model update
// (src/database/query_language/data_model_parser.rs).  DataModel::update_with and Entity::update walk HashMaps with iter_mut /
// by value (no Verus model): what is under contract is the BODY of their loops over the items that already exist (rule E14,
// with `?` / `return Err`: the lifted body returns the function's Result and the loop shell is `for x in xs { body(x)?; }`):
//   an existing entity must be named again by the new version, under the identifier it already has;
//   an existing field must be named again, under the identifier and with the type it already has; its name, identifier and
//   type are never modified; a non-nullable redefinition of a nullable scalar needs a default.
// The loop shells, the numbering of NEW items and the index bookkeeping are not under contract here.
#![allow(unused_imports, unused_variables, dead_code, unused_mut, non_snake_case)]
use vstd::prelude::*;
use vstd::std_specs::hash::*;
use vstd::std_specs::iter::IteratorSpec;
use std::collections::{HashMap, HashSet, VecDeque};   // the std collections a change to the extracted code may reach for
verus! {
pub mod trusted_keys {
    use vstd::prelude::*;
    use vstd::std_specs::hash::*;
    // std's Hash/Eq for String are structural; vstd only ships this axiom for primitives
    #[verifier::external_body]
    pub broadcast proof fn axiom_string_key_model() ensures #[trigger] obeys_key_model::<String>() {}
}
broadcast use {vstd::std_specs::hash::group_hash_axioms, trusted_keys::axiom_string_key_model};
pub enum Error {
    MissingEntity(String), MissingField(String, String), MissingDefaultValue(String, String),
    CannotUpdateFieldType(String, String, String, String), InvalidFieldOrdering(String, String, usize, usize),
    InvalidEntityOrdering(String, String, String), ParseInt(ParseIntError),
}
pub struct ParseIntError { x: u8 }
impl From<ParseIntError> for Error { #[verifier::external_body] fn from(e: ParseIntError) -> Error { unimplemented!() } }
#[verifier::external_body]
pub fn fmt_stub() -> (r: String) { unimplemented!() }
/// `s.parse::<usize>()` (rule E25: the std call is replaced by this stub).  ASSUMED: a storage identifier that parses is not
/// smaller than RESERVED_SHORT_NAMES (identifiers are produced as RESERVED_SHORT_NAMES + position by the parser and insert_field)
#[verifier::external_body]
pub fn parse_usize(s: &String) -> (r: std::result::Result<usize, ParseIntError>) ensures r is Ok ==> r->Ok_0 >= RESERVED_SHORT_NAMES { unimplemented!() }
pub struct ParamValue { x: u8 }
pub struct Index { x: u8 }
pub struct DataModel { x: u8 }
//@ extract src/database/query_language/data_model_parser.rs :: const RESERVED_SHORT_NAMES
//@ end
//@ extract src/database/query_language/mod.rs :: enum FieldType
//@ end
//@ extract src/database/query_language/data_model_parser.rs :: struct Field
//@ end
//@ extract src/database/query_language/data_model_parser.rs :: struct Entity
//@ end
impl FieldType {
    /// #[derive(PartialEq)]
    #[verifier::external_body]
    pub fn eq(&self, other: &FieldType) -> (r: bool) ensures r == (*self == *other) { unimplemented!() }
}
/// the part of a field that identifies stored values: never modified by an update
pub open spec fn same_storage(a: Field, b: Field) -> bool { a.name == b.name && a.short_name == b.short_name && a.field_type == b.field_type && a.is_system == b.is_system && a.mutable == b.mutable }
pub open spec fn is_reference(t: FieldType) -> bool { t is Array || t is Entity }

impl Entity {
    /// the real Entity::update (its loop bodies are under contract below; the function as a whole is not: HashMap::iter_mut).
    /// ASSUMED of it here: it never touches the entity's own name and identifier (it assigns `deprecated`, fields and indexes only)
    #[verifier::external_body]
    pub fn update(&mut self, new_entity: Entity) -> (r: std::result::Result<(), Error>)
        ensures final(self).name == old(self).name, final(self).short_name == old(self).short_name
    { unimplemented!() }
}

//@ extract src/database/query_language/data_model_parser.rs :: impl Entity / fn update as Entity::update_field_body
//@ lift-loop "for field in &mut self.fields" :: fn update_field_body(&self, field: (&String, &mut Field), new_entity: &mut Entity) -> (r: std::result::Result<(), Error>) tail "Ok(())"
//@ rewrite E25 "(new_field|field)\.short_name\.parse\(\)" => "parse_usize(&\1.short_name)" x2
//@ rewrite E16 "String::from\(&(self|field)\.name\)" => "fmt_stub()" x*
//@ rewrite E16 "String::from\(field\.0\)" => "fmt_stub()" x*
//@ rewrite E16 "(new_field|field)\.field_type\.to_string\(\)" => "fmt_stub()" x*
//@ spec
        ensures
            // [existing_field_named_again_with_its_identifier_and_type] an accepted version names every existing field again, under the storage identifier and with the type the field already has
            r is Ok ==> old(new_entity).fields@.contains_key(*field.0)
                && old(new_entity).fields@[*field.0].short_name@ == old(field.1).short_name@
                && old(new_entity).fields@[*field.0].field_type == old(field.1).field_type,
            // [existing_field_identity_never_modified] whatever the outcome, the name, identifier and type of an existing field are not modified (only nullable / default / deprecated follow the new version)
            same_storage(*final(field.1), *old(field.1)),
            // [nullable_scalar_made_required_needs_a_default] a nullable scalar field is made non-nullable only with a default value (existing rows hold no value for it)
            r is Ok && old(field.1).nullable && !final(field.1).nullable && !is_reference(old(field.1).field_type) ==> final(field.1).default_value is Some,
            // [consumed_field_leaves_the_new_version] the field is taken out of the new version's list: what remains there afterwards are the fields that are new
            r is Ok ==> final(new_entity).fields@ == old(new_entity).fields@.remove(*field.0),
//@ end

//@ extract src/database/query_language/data_model_parser.rs :: impl DataModel / fn update_with as DataModel::update_entity_body
//@ lift-loop "for entity in ns.1.iter_mut()" :: fn update_entity_body(entity: (&String, &mut Entity), new_entity: &mut HashMap<String, Entity>) -> (r: std::result::Result<(), Error>) tail "Ok(())"
//@ rewrite E16 "String::from\(&old_entity\.name\)" => "fmt_stub()" x*
//@ rewrite E16 "String::from\(entity\.0\)" => "fmt_stub()" x*
//@ rewrite E16 "(old_entity|new_entity)\.short_name\.to_string\(\)" => "fmt_stub()" x*
//@ spec
        ensures
            // [existing_entity_named_again_under_its_identifier] an accepted version names every existing entity again (deprecated or not), under the storage identifier the entity already has: an identifier is never freed for another entity
            r is Ok ==> old(new_entity)@.contains_key(*entity.0) && old(new_entity)@[*entity.0].short_name@ == old(entity.1).short_name@,
            // [existing_entity_identity_never_modified]
            final(entity.1).name == old(entity.1).name && final(entity.1).short_name == old(entity.1).short_name,
            // [consumed_entity_leaves_the_new_version] what remains in the new version's namespace afterwards are the entities that are new
            r is Ok ==> final(new_entity)@ == old(new_entity)@.remove(*entity.0),
//@ end

// ---- the numbering of the fields that are NEW in a version (the statements of Entity::update between the loop over the existing
// fields and the index bookkeeping; rule E9, range form)
/// the decimal text of a number (`n.to_string()`): uninterpreted, injective is not needed here
pub uninterp spec fn num_string(n: int) -> String;
/// the position the parser gave a field: its storage identifier read as a number
pub uninterp spec fn spec_pos(short_name: Seq<char>) -> usize;
pub open spec fn numbered(f: Field, n: int) -> Field { Field { short_name: num_string(n), ..f } }
/// `s` lists every entry of `m` exactly once, each with the position of its field
pub open spec fn listing(s: Seq<(usize, (String, Field))>, m: Map<String, Field>) -> bool {
    s.len() == m.len()
    && (forall|i: int| 0 <= i < s.len() ==> m.contains_key((#[trigger] s[i]).1.0) && m[s[i].1.0] == s[i].1.1 && s[i].0 == spec_pos(s[i].1.1.short_name@))
    && (forall|i: int, j: int| 0 <= i < j < s.len() ==> (#[trigger] s[i]).1.0 != (#[trigger] s[j]).1.0)
}
pub open spec fn sorted_by_pos(s: Seq<(usize, (String, Field))>) -> bool { forall|i: int, j: int| 0 <= i < j < s.len() ==> (#[trigger] s[i]).0 <= (#[trigger] s[j]).0 }
pub open spec fn is_permutation_of<T>(a: Seq<T>, b: Seq<T>) -> bool {
    a.len() == b.len() && exists|p: Seq<int>| p.len() == a.len() && (forall|i: int| 0 <= i < p.len() ==> 0 <= #[trigger] p[i] < b.len())
        && (forall|i: int, j: int| 0 <= i < j < p.len() ==> #[trigger] p[i] != #[trigger] p[j]) && (forall|i: int| 0 <= i < a.len() ==> #[trigger] a[i] == b[p[i]])
}
// E8 cut: `for field in new_entity.fields { let pos: usize = field.1.short_name.parse()?; new_fields.push((pos, field)); }`
// (HashMap consumed by value: no Verus model).  ASSUMED: std semantics - every entry once, with its parsed position.
#[verifier::external_body]
pub fn cut_collect_new_fields(new_fields: &mut Vec<(usize, (String, Field))>, fields: HashMap<String, Field>) -> (r: std::result::Result<(), Error>)
    requires old(new_fields)@.len() == 0,
    ensures r is Ok ==> listing(final(new_fields)@, fields@)
{ unimplemented!() }
/// `v.sort_by_key(|f| f.0)` (rule E26: the std call is replaced by this stub): std semantics - a permutation of the input, ordered by the key
#[verifier::external_body]
pub fn sort_by_pos(v: &mut Vec<(usize, (String, Field))>)
    ensures is_permutation_of(final(v)@, old(v)@), sorted_by_pos(final(v)@)
{ unimplemented!() }
impl Entity {
    /// the real insert_field: `field.short_name = (RESERVED_SHORT_NAMES + self.fields.len()).to_string(); self.fields.insert(name, field)`
    /// (panics on an existing name: a precondition here).  Seen through this contract; its two lines are not verified.
    #[verifier::external_body]
    pub fn insert_field(&mut self, name: String, field: Field)
        requires !old(self).fields@.contains_key(name),
        ensures final(self).fields@ == old(self).fields@.insert(name, numbered(field, RESERVED_SHORT_NAMES + old(self).fields@.len())),
            final(self).name == old(self).name, final(self).short_name == old(self).short_name,
    { unimplemented!() }
}
pub proof fn lemma_permutation_keeps_listing(a: Seq<(usize, (String, Field))>, b: Seq<(usize, (String, Field))>, m: Map<String, Field>)
    requires is_permutation_of(a, b), listing(b, m)
    ensures listing(a, m)
{
    let p = choose|p: Seq<int>| p.len() == a.len() && (forall|i: int| 0 <= i < p.len() ==> 0 <= #[trigger] p[i] < b.len())
        && (forall|i: int, j: int| 0 <= i < j < p.len() ==> #[trigger] p[i] != #[trigger] p[j]) && (forall|i: int| 0 <= i < a.len() ==> #[trigger] a[i] == b[p[i]]);
    assert forall|i: int, j: int| 0 <= i < j < a.len() implies (#[trigger] a[i]).1.0 != (#[trigger] a[j]).1.0 by {
        assert(a[i] == b[p[i]] && a[j] == b[p[j]] && p[i] != p[j]);
        if p[i] < p[j] { assert(b[p[i]].1.0 != b[p[j]].1.0); } else { assert(b[p[j]].1.0 != b[p[i]].1.0); }
    }
    assert forall|i: int| 0 <= i < a.len() implies m.contains_key((#[trigger] a[i]).1.0) && m[a[i].1.0] == a[i].1.1 && a[i].0 == spec_pos(a[i].1.1.short_name@) by {
        assert(a[i] == b[p[i]]);
    }
}
/// what the new version's remaining fields become in the entity: numbered consecutively after the `n0` existing ones, in the order of `s`
pub open spec fn appended_in_order(before: Map<String, Field>, after: Map<String, Field>, s: Seq<(usize, (String, Field))>, upto: int) -> bool {
    after.len() == before.len() + upto
    && (forall|k: String| #[trigger] before.contains_key(k) ==> after.contains_key(k) && after[k] == before[k])
    && (forall|i: int| 0 <= i < upto ==> after.contains_key((#[trigger] s[i]).1.0) && after[s[i].1.0] == numbered(s[i].1.1, RESERVED_SHORT_NAMES + before.len() + i))
    && (forall|k: String| #[trigger] after.contains_key(k) ==> before.contains_key(k) || exists|i: int| 0 <= i < upto && (#[trigger] s[i]).1.0 == k)
}

//@ extract src/database/query_language/data_model_parser.rs :: impl Entity / fn update as Entity::number_new_fields
//@ lift-range "let mut new_fields: Vec<(usize, (String, Field))>" .. "let mut index_map = HashMap::new();" :: fn number_new_fields(&mut self, new_entity: Entity) -> (r: std::result::Result<(), Error>) tail "Ok(())"
//@ attr #[verifier::loop_isolation(false)]
//@ cut "for field in new_entity.fields" => "cut_collect_new_fields(&mut new_fields, new_entity.fields)?;"
//@ rewrite E26 "new_fields\.sort_by_key\(\|f\| f\.0\)" => "sort_by_pos(&mut new_fields)" x1
//@ rewrite E16 "String::from\(&(self|field\.1)\.name\)" => "fmt_stub()" x*
//@ insert body-start
        let ghost mut collected: Seq<(usize, (String, Field))> = Seq::empty();
//@ insert before-stmt "new_fields.sort_by_key("
        proof { collected = new_fields@; }
//@ insert before-stmt "for (_, field) in new_fields"
        let ghost sorted = new_fields@;
        let ghost before = self.fields@;
        proof {
            // [new_fields_walked_in_the_order_of_the_model_text] the vector that is walked to number the new fields is the collected fields, each once, ordered by the position the parser gave them
            assert(is_permutation_of(sorted, collected) && sorted_by_pos(sorted));
            lemma_permutation_keeps_listing(sorted, collected, new_entity.fields@);
        }
//@ loop "for (_, field) in new_fields" iter it
            invariant
                it.seq() == sorted, listing(sorted, new_entity.fields@),
                self.name == old(self).name, self.short_name == old(self).short_name,
                appended_in_order(before, self.fields@, sorted, it.index@ as int),
//@ spec
        requires
            // the fields left in the new version are the new ones: the existing names were taken out by the loop over the existing fields (update_field_body#consumed_field_leaves_the_new_version)
            forall|k: String| #[trigger] new_entity.fields@.contains_key(k) ==> !old(self).fields@.contains_key(k),
            old(self).fields@.len() + new_entity.fields@.len() + RESERVED_SHORT_NAMES <= usize::MAX,
        ensures
            // [new_fields_numbered_after_the_existing_ones_in_text_order] the fields a version adds are numbered consecutively after the existing ones in the order of their position in the model text - whatever order the HashMap of the new version is walked in -, the existing fields are untouched, and nothing else enters the entity: the identifiers depend only on the sequence of versions
            r is Ok ==> exists|s: Seq<(usize, (String, Field))>| listing(s, new_entity.fields@) && sorted_by_pos(s)
                && appended_in_order(old(self).fields@, final(self).fields@, s, s.len() as int),
            final(self).name == old(self).name && final(self).short_name == old(self).short_name,
//@ end
} // verus!
fn main() {}
