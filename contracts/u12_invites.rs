//@ unit u12_invites props C19
// Unit U12: the token table of the peer manager (src/network/peer_manager.rs): which token type a meeting token is answered
// with (get_token_type), how invitations enter the table (create_invite, accept_invite) and how a used invitation leaves it
// (invite_accepted).  "An invitation can be consumed once": after invite_accepted the invitation is no longer in the table
// get_token_type answers from, no other invitation was dropped and none was added.
// The database, the announce machinery, key derivation and bincode are stubs (TRUSTED, listed in evidence).
#![feature(allocator_api)]
#![allow(unused_imports, unused_variables, dead_code, unused_mut, non_snake_case)]
use vstd::prelude::*;
use vstd::std_specs::cmp::PartialEqSpec;
use vstd::std_specs::hash::EntrySpecFns;
use std::collections::{HashMap, HashSet};
verus! {
pub mod trusted {
    use vstd::prelude::*;
    use vstd::std_specs::hash::*;
    #[verifier::external_body]
    pub broadcast proof fn axiom_token_key_model() ensures #[trigger] obeys_key_model::<[u8; 7]>() {}
    #[verifier::external_body]
    pub broadcast proof fn axiom_circ_key_model() ensures #[trigger] obeys_key_model::<[u8; 32]>() {}
    pub uninterp spec fn spec_is_default<V>(v: V) -> bool;
    #[verifier::external_body]
    pub broadcast proof fn axiom_default_vec<T>(v: Vec<T>) ensures #[trigger] spec_is_default(v) ==> v@ == Seq::<T>::empty() {}
    pub uninterp spec fn key_of_borrowed<K, Q: ?Sized>(q: &Q) -> K;
    #[verifier::external_body]
    pub broadcast proof fn axiom_key_of_borrowed_same<K>(q: &K) ensures #[trigger] key_of_borrowed::<K, K>(q) == *q {}
    pub broadcast group group_trusted { axiom_token_key_model, axiom_circ_key_model, axiom_default_vec, axiom_key_of_borrowed_same }
}
pub use trusted::spec_is_default;
broadcast use {vstd::laws_eq::group_laws_eq, trusted::group_trusted};
pub assume_specification<'a, K, V: std::default::Default>[ std::collections::hash_map::Entry::<'a, K, V>::or_default ](entry: std::collections::hash_map::Entry<'a, K, V>) -> (value: &'a mut V)
    ensures
        match entry.value() { Some(v) => *value == v, None => spec_is_default(*value) },
        entry.final_value() == Some(*final(value));
// HashMap::get_mut: ASSUMED std semantics (the returned reference is the only way the map changes); `key_of_borrowed` is the
// owned key a borrowed key stands for (the identity when Q = K: trusted axiom)
pub assume_specification<'a, K, V, S, A, Q>[ std::collections::HashMap::<K, V, S, A>::get_mut ](m: &'a mut std::collections::HashMap<K, V, S, A>, k: &Q) -> (r: std::option::Option<&'a mut V>)
    where
        A: std::alloc::Allocator,
        K: std::cmp::Eq + std::hash::Hash + std::borrow::Borrow<Q>,
        Q: std::marker::MetaSized + std::hash::Hash + std::cmp::Eq + ?Sized,
        S: std::hash::BuildHasher
    ensures
        match r {
            Some(u) => old(m)@.contains_key(trusted::key_of_borrowed::<K, Q>(k)) && *u == old(m)@[trusted::key_of_borrowed::<K, Q>(k)] && final(m)@ == old(m)@.insert(trusted::key_of_borrowed::<K, Q>(k), *final(u)),
            None => !old(m)@.contains_key(trusted::key_of_borrowed::<K, Q>(k)) && final(m)@ == old(m)@,
        };

pub type Uid = [u8; 16];
pub type MeetingToken = [u8; 7];
pub mod crate_error { pub enum Error { InvalidConnection(String), InvalidInvite(String), Other() } }
use crate_error::Error;
pub struct BincodeError { x: u8 }
pub struct DbError { x: u8 }
pub struct SecError { x: u8 }
impl From<BincodeError> for crate_error::Error { #[verifier::external_body] fn from(e: BincodeError) -> crate_error::Error { unimplemented!() } }
impl From<DbError> for crate_error::Error { #[verifier::external_body] fn from(e: DbError) -> crate_error::Error { unimplemented!() } }
impl From<SecError> for crate_error::Error { #[verifier::external_body] fn from(e: SecError) -> crate_error::Error { unimplemented!() } }
#[verifier::external_body]
pub fn fmt_stub() -> (r: String) { unimplemented!() }

pub struct Node { pub verifying_key: Vec<u8>, pub x: u8 }
impl Node {
    #[verifier::external_body]
    pub fn clone(&self) -> (r: Node) ensures r == *self { unimplemented!() }
}
pub struct Peer { pub id: String, pub verifying_key: String }
impl Peer {
    #[verifier::external_body]
    pub fn pub_key(peer: &Node) -> (r: std::result::Result<Vec<u8>, DbError>) { unimplemented!() }
}
pub struct AllowedPeer { pub peer: Peer, pub meeting_token: String }
pub enum Status { Enabled, Pending }
impl AllowedPeer {
    #[verifier::external_body]
    pub fn clone(&self) -> (r: AllowedPeer) ensures r == *self { unimplemented!() }
    #[verifier::external_body]
    pub async fn add(room_id: &String, verifying_key: &String, meeting_token: &String, status: Status, db: &GraphDatabaseService) -> (r: std::result::Result<AllowedPeer, crate_error::Error>) { unimplemented!() }
}
//@ extract src/database/system_entities.rs :: struct OwnedInvite
//@ end
//@ extract src/database/system_entities.rs :: struct Invite
//@ end
impl OwnedInvite {
    #[verifier::external_body]
    pub fn clone(&self) -> (r: OwnedInvite) ensures r == *self { unimplemented!() }
    /// deletes the sys.OwnedInvite row `id`: the fact `invite_row_deleted` is established by this contract only
    #[verifier::external_body]
    pub async fn delete(id: Uid, db: &GraphDatabaseService) -> (r: std::result::Result<(), DbError>) ensures r is Ok ==> invite_row_deleted(id) { unimplemented!() }
    #[verifier::external_body]
    pub async fn list_valid(room_id: String, db: &GraphDatabaseService) -> (r: std::result::Result<Vec<OwnedInvite>, crate_error::Error>) { unimplemented!() }
}
/// the stored row of an own invitation has been deleted (so a restart does not bring the invitation back)
pub uninterp spec fn invite_row_deleted(id: Uid) -> bool;
pub uninterp spec fn accepted_invite_row_deleted(room: Seq<char>, id: Uid) -> bool;
pub struct DefaultRoom { pub room: String, pub authorisation: String }
impl Invite {
    #[verifier::external_body]
    pub fn clone(&self) -> (r: Invite) ensures r == *self { unimplemented!() }
    #[verifier::external_body]
    pub async fn create(room_id: String, default_room: Option<DefaultRoom>, application: String, db: &GraphDatabaseService) -> (r: std::result::Result<(Invite, OwnedInvite), DbError>)
        ensures r is Ok ==> r->Ok_0.0.invite_id == r->Ok_0.1.id && r->Ok_0.0.application@ == application@
    { unimplemented!() }
    #[verifier::external_body]
    /// deletes the sys.Invite row `invite_id` of the private room `room_id`: the fact is established by this contract only
    pub async fn delete(room_id: String, invite_id: Uid, db: &GraphDatabaseService) -> (r: std::result::Result<(), crate_error::Error>) ensures r is Ok ==> accepted_invite_row_deleted(room_id@, invite_id) { unimplemented!() }
    #[verifier::external_body]
    pub async fn list(room_id: String, db: &GraphDatabaseService) -> (r: std::result::Result<Vec<Invite>, crate_error::Error>) { unimplemented!() }
    #[verifier::external_body]
    pub async fn insert(&self, room_id: String, db: &GraphDatabaseService) -> (r: std::result::Result<(), crate_error::Error>) { unimplemented!() }
}
//@ extract src/network/peer_manager.rs :: enum TokenType
//@ end
impl TokenType {
    #[verifier::external_body]
    pub fn clone(&self) -> (r: TokenType) ensures r == *self { unimplemented!() }
}
pub struct GraphDatabaseService { x: u8 }
pub struct Parameters { x: u8 }
impl Parameters {
    #[verifier::external_body]
    pub fn new() -> (r: Parameters) { unimplemented!() }
    #[verifier::external_body]
    pub fn add(&mut self, k: &str, v: String) -> (r: std::result::Result<(), DbError>) { unimplemented!() }
}
impl GraphDatabaseService {
    #[verifier::external_body]
    pub async fn add_peer_nodes(&self, peers: Vec<Node>) -> (r: std::result::Result<(), crate_error::Error>) { unimplemented!() }
    #[verifier::external_body]
    pub async fn mutate(&self, q: &str, p: Option<Parameters>) -> (r: std::result::Result<String, crate_error::Error>) { unimplemented!() }
}
pub struct EventService { x: u8 }
pub struct SignatureVerificationService { x: u8 }
pub struct DiscretServices { pub events: EventService, pub database: GraphDatabaseService, pub signature_verification: SignatureVerificationService }
pub struct DiscretEndpoint { x: u8 }
pub struct PublicKey { x: u8 }
pub struct MeetingSecret { x: u8 }
/// the meeting token derived from an invitation id (blake3 key derivation, as mathematics)
pub uninterp spec fn spec_derive(context: Seq<char>, key_material: Seq<u8>) -> MeetingToken;
impl MeetingSecret {
    #[verifier::external_body]
    pub fn token(&self, their_public: &PublicKey) -> (r: MeetingToken) { unimplemented!() }
    #[verifier::external_body]
    pub fn derive_token(context: &str, key_material: &Uid) -> (r: MeetingToken) ensures r == spec_derive(context@, key_material@) { unimplemented!() }
}
pub closed spec fn invite_token(id: Uid) -> MeetingToken { spec_derive(DERIVE_STRING@, id@) }
pub mod bincode {
    use vstd::prelude::*;
    pub uninterp spec fn spec_deser<T>(b: Seq<u8>) -> T;
    #[verifier::external_body]
    pub fn deserialize<T>(b: &Vec<u8>) -> (r: std::result::Result<T, super::BincodeError>) ensures r is Ok ==> r->Ok_0 == spec_deser::<T>(b@) { unimplemented!() }
    #[verifier::external_body]
    pub fn deserialize_slice<T>(b: &[u8]) -> (r: std::result::Result<T, super::BincodeError>) ensures r is Ok ==> r->Ok_0 == spec_deser::<T>(b@) { unimplemented!() }
    #[verifier::external_body]
    pub uninterp spec fn spec_ser_inv<T>(b: Seq<u8>) -> T;
    #[verifier::external_body]
    pub fn serialize<T>(b: &T) -> (r: std::result::Result<Vec<u8>, super::BincodeError>) ensures r is Ok ==> spec_ser_inv::<T>(r->Ok_0@) == *b { unimplemented!() }
}
#[verifier::external_body]
pub fn base64_encode(data: &Vec<u8>) -> (r: String) { unimplemented!() }
#[verifier::external_body]
pub fn base64_encode_token(data: &MeetingToken) -> (r: String) { unimplemented!() }
pub uninterp spec fn spec_b64_decode(s: Seq<u8>) -> Seq<u8>;
pub uninterp spec fn str_bytes(s: Seq<char>) -> Seq<u8>;
pub assume_specification[ String::as_bytes ](s: &String) -> (r: &[u8]) ensures r@ == str_bytes(s@);
#[verifier::external_body]
pub fn base64_decode(data: &[u8]) -> (r: std::result::Result<Vec<u8>, SecError>) ensures r is Ok ==> r->Ok_0@ == spec_b64_decode(data@) { unimplemented!() }
#[verifier::external_body]
pub fn uid_encode(id: &Uid) -> (r: String) ensures r@ == spec_uid_text(*id) { unimplemented!() }
pub uninterp spec fn spec_uid_text(id: Uid) -> Seq<char>;
pub struct MulticastInfo { x: u8 }
pub struct Connection { x: u8 }
pub struct SocketAddr { x: u8 }
pub struct BeaconInfo { x: u8 }
pub struct Announce { x: u8 }
pub mod mpsc { pub struct Sender<T> { x: Option<T> } }
//@ extract src/network/peer_manager.rs :: const DERIVE_STRING
//@ end
//@ extract src/network/peer_manager.rs :: struct PeerManager
//@ end
impl PeerManager {
    pub closed spec fn table(&self) -> Map<MeetingToken, Vec<TokenType>> { self.allowed_token@ }
    pub closed spec fn app(&self) -> Seq<char> { self.app_key@ }
    pub closed spec fn peers(&self) -> Seq<AllowedPeer> { self.allowed_peers@ }
    pub closed spec fn private_room(&self) -> Uid { self.private_room_id }
    #[verifier::external_body]
    pub async fn send_annouces(&self) -> (r: std::result::Result<(), crate_error::Error>) { unimplemented!() }
}

/// `v.iter().position(f)` (rule E20): std semantics: the first index whose element the closure accepts
#[verifier::external_body]
pub fn vec_position<T, F: Fn(&T) -> bool>(v: &Vec<T>, f: F) -> (r: Option<usize>)
    requires forall|x: &T| #[trigger] f.requires((x,)),
    ensures
        match r {
            Some(i) => i < v@.len() && f.ensures((&v@[i as int],), true) && forall|k: int| 0 <= k < i ==> f.ensures((&#[trigger] v@[k],), false),
            None => forall|k: int| 0 <= k < v@.len() ==> f.ensures((&#[trigger] v@[k],), false),
        }
{ unimplemented!() }
pub open spec fn is_owned(t: TokenType, id: Uid) -> bool { t is OwnedInvite && t->OwnedInvite_0.id =~= id }
pub open spec fn is_accepted(t: TokenType, id: Uid) -> bool { t is Invite && t->Invite_0.invite_id =~= id }
/// the invitation `id` is (still) answered by the token table
pub open spec fn table_has_owned(t: Map<MeetingToken, Vec<TokenType>>, id: Uid) -> bool {
    t.contains_key(invite_token(id)) && exists|i: int| 0 <= i < t[invite_token(id)]@.len() && is_owned(#[trigger] t[invite_token(id)]@[i], id)
}
pub open spec fn table_has_accepted(t: Map<MeetingToken, Vec<TokenType>>, id: Uid) -> bool {
    t.contains_key(invite_token(id)) && exists|i: int| 0 <= i < t[invite_token(id)]@.len() && is_accepted(#[trigger] t[invite_token(id)]@[i], id)
}
/// the table lists the invitation `id` at most once
pub open spec fn owned_at_most_once(t: Map<MeetingToken, Vec<TokenType>>, id: Uid) -> bool {
    t.contains_key(invite_token(id)) ==> forall|i: int, j: int| 0 <= i < j < t[invite_token(id)]@.len() ==> !(is_owned(#[trigger] t[invite_token(id)]@[i], id) && is_owned(#[trigger] t[invite_token(id)]@[j], id))
}
pub open spec fn accepted_at_most_once(t: Map<MeetingToken, Vec<TokenType>>, id: Uid) -> bool {
    t.contains_key(invite_token(id)) ==> forall|i: int, j: int| 0 <= i < j < t[invite_token(id)]@.len() ==> !(is_accepted(#[trigger] t[invite_token(id)]@[i], id) && is_accepted(#[trigger] t[invite_token(id)]@[j], id))
}

pub open spec fn is_invitation(t: TokenType) -> bool { t is OwnedInvite || t is Invite }
pub open spec fn seq_has(s: Seq<TokenType>, x: TokenType) -> bool { exists|i: int| 0 <= i < s.len() && s[i] == x }
/// every invitation answered by `b` was already answered by `a` under the same token
pub open spec fn no_invitation_added(a: Map<MeetingToken, Vec<TokenType>>, b: Map<MeetingToken, Vec<TokenType>>) -> bool {
    forall|k: MeetingToken, j: int| b.contains_key(k) && 0 <= j < b[k]@.len() && is_invitation(#[trigger] b[k]@[j]) ==> a.contains_key(k) && seq_has(a[k]@, b[k]@[j])
}
/// every entry of `a` except the consumed invitation is still answered by `b` under the same token
pub open spec fn only_consumed_dropped(a: Map<MeetingToken, Vec<TokenType>>, b: Map<MeetingToken, Vec<TokenType>>, consumed: TokenType) -> bool {
    forall|k: MeetingToken, i: int| a.contains_key(k) && 0 <= i < a[k]@.len() && !same_invitation(#[trigger] a[k]@[i], consumed) ==> b.contains_key(k) && seq_has(b[k]@, a[k]@[i])
}
pub open spec fn same_invitation(t: TokenType, c: TokenType) -> bool {
    (c is OwnedInvite && is_owned(t, c->OwnedInvite_0.id)) || (c is Invite && is_accepted(t, c->Invite_0.invite_id))
}

pub open spec fn all_kept(a: Map<MeetingToken, Vec<TokenType>>, b: Map<MeetingToken, Vec<TokenType>>) -> bool {
    forall|k: MeetingToken, i: int| a.contains_key(k) && 0 <= i < a[k]@.len() ==> b.contains_key(k) && seq_has(b[k]@, #[trigger] a[k]@[i])
}
/// `b` is `a` with one entry pushed under token `k0`
pub open spec fn pushed_one(a: Map<MeetingToken, Vec<TokenType>>, b: Map<MeetingToken, Vec<TokenType>>, k0: MeetingToken, x: TokenType) -> bool {
    b.contains_key(k0) && b =~= a.insert(k0, b[k0]) && b[k0]@ =~= (if a.contains_key(k0) { a[k0]@ } else { Seq::<TokenType>::empty() }).push(x)
}
/// `b` is `a`, or `a` with one entry that is the consumed invitation removed under token `k0`
pub open spec fn removed_consumed(a: Map<MeetingToken, Vec<TokenType>>, b: Map<MeetingToken, Vec<TokenType>>, k0: MeetingToken, consumed: TokenType) -> bool {
    b =~= a || (a.contains_key(k0) && b.contains_key(k0) && b =~= a.insert(k0, b[k0])
        && exists|idx: int| 0 <= idx < a[k0]@.len() && same_invitation(a[k0]@[idx], consumed) && b[k0]@ == #[trigger] a[k0]@.remove(idx))
}
pub proof fn lemma_push_keeps(a: Map<MeetingToken, Vec<TokenType>>, b: Map<MeetingToken, Vec<TokenType>>, k0: MeetingToken, x: TokenType)
    requires pushed_one(a, b, k0, x), !is_invitation(x),
    ensures all_kept(a, b), no_invitation_added(a, b),
{
    assert forall|k: MeetingToken, i: int| a.contains_key(k) && 0 <= i < a[k]@.len() implies b.contains_key(k) && seq_has(b[k]@, #[trigger] a[k]@[i]) by {
        assert(b[k]@[i] == a[k]@[i]);
    }
    assert forall|k: MeetingToken, j: int| b.contains_key(k) && 0 <= j < b[k]@.len() && is_invitation(#[trigger] b[k]@[j]) implies a.contains_key(k) && seq_has(a[k]@, b[k]@[j]) by {
        if k == k0 {
            let base = if a.contains_key(k0) { a[k0]@ } else { Seq::<TokenType>::empty() };
            assert(b[k]@[j] == base.push(x)[j]);
            assert(j < base.len());
            assert(a[k]@[j] == b[k]@[j]);
        } else {
            assert(a[k]@[j] == b[k]@[j]);
        }
    }
}
pub proof fn lemma_remove_keeps(a: Map<MeetingToken, Vec<TokenType>>, b: Map<MeetingToken, Vec<TokenType>>, k0: MeetingToken, consumed: TokenType)
    requires removed_consumed(a, b, k0, consumed),
    ensures only_consumed_dropped(a, b, consumed), no_invitation_added(a, b),
{
    if b == a {
        assert forall|k: MeetingToken, i: int| a.contains_key(k) && 0 <= i < a[k]@.len() implies seq_has(b[k]@, #[trigger] a[k]@[i]) by { assert(b[k]@[i] == a[k]@[i]); }
    } else {
        let idx = choose|idx: int| 0 <= idx < a[k0]@.len() && same_invitation(a[k0]@[idx], consumed) && b[k0]@ == #[trigger] a[k0]@.remove(idx);
        assert forall|k: MeetingToken, i: int| a.contains_key(k) && 0 <= i < a[k]@.len() && !same_invitation(#[trigger] a[k]@[i], consumed) implies b.contains_key(k) && seq_has(b[k]@, a[k]@[i]) by {
            if k == k0 {
                if i < idx { assert(b[k]@[i] == a[k]@[i]); } else { assert(i > idx); assert(b[k]@[i - 1] == a[k]@[i]); }
            } else { assert(b[k]@[i] == a[k]@[i]); }
        }
        assert forall|k: MeetingToken, j: int| b.contains_key(k) && 0 <= j < b[k]@.len() && is_invitation(#[trigger] b[k]@[j]) implies a.contains_key(k) && seq_has(a[k]@, b[k]@[j]) by {
            if k == k0 {
                if j < idx { assert(a[k]@[j] == b[k]@[j]); } else { assert(a[k]@[j + 1] == b[k]@[j]); }
            } else { assert(a[k]@[j] == b[k]@[j]); }
        }
    }
}
pub proof fn lemma_kept_then_consumed(a: Map<MeetingToken, Vec<TokenType>>, b: Map<MeetingToken, Vec<TokenType>>, c: Map<MeetingToken, Vec<TokenType>>, consumed: TokenType)
    requires all_kept(a, b), no_invitation_added(a, b), only_consumed_dropped(b, c, consumed), no_invitation_added(b, c),
    ensures only_consumed_dropped(a, c, consumed), no_invitation_added(a, c),
{
    assert forall|k: MeetingToken, i: int| a.contains_key(k) && 0 <= i < a[k]@.len() && !same_invitation(#[trigger] a[k]@[i], consumed) implies c.contains_key(k) && seq_has(c[k]@, a[k]@[i]) by {
        assert(seq_has(b[k]@, a[k]@[i]));
        let j = choose|j: int| 0 <= j < b[k]@.len() && b[k]@[j] == a[k]@[i];
        assert(!same_invitation(b[k]@[j], consumed));
    }
    assert forall|k: MeetingToken, j: int| c.contains_key(k) && 0 <= j < c[k]@.len() && is_invitation(#[trigger] c[k]@[j]) implies a.contains_key(k) && seq_has(a[k]@, c[k]@[j]) by {
        assert(seq_has(b[k]@, c[k]@[j]));
        let i = choose|i: int| 0 <= i < b[k]@.len() && b[k]@[i] == c[k]@[j];
        assert(is_invitation(b[k]@[i]));
    }
}

//@ extract src/network/peer_manager.rs :: impl PeerManager / fn get_token_type
//@ result r
//@ rewrite E3 "crate::Error" => "crate_error::Error" x*
//@ rewrite E16 "\"connection token not found\"\.to_string\(\)" => "fmt_stub()" x1
//@ loop "for token_type in tokens" iter it
                    invariant tokens@ == self.table()[*token]@, self.table().contains_key(*token),
//@ spec
    ensures
        // [token_type_comes_from_the_table] a connection is only ever answered with an entry registered under the meeting token it used
        r is Ok ==> self.table().contains_key(*token) && exists|i: int| 0 <= i < self.table()[*token]@.len() && #[trigger] self.table()[*token]@[i] == r->Ok_0,
        // [allowed_peer_answer_matches_presented_key] an allowed-peer entry is only returned for the verifying key it was registered with
        r is Ok && r->Ok_0 is AllowedPeer ==> spec_b64_decode(str_bytes(r->Ok_0->AllowedPeer_0.peer.verifying_key@)) =~= key@,
        // [unknown_token_is_refused] a token with no table entry is refused
        !self.table().contains_key(*token) ==> r is Err,
//@ end

//@ extract src/network/peer_manager.rs :: impl PeerManager / fn invite_accepted
//@ result r
//@ rewrite E3 "crate::Error" => "crate_error::Error" x*
//@ rewrite E3 "&base64_encode\(&token\)" => "&base64_encode_token(&token)" x1
//@ rewrite E20 "tokens\.iter\(\)\.position\(" => "vec_position(tokens, " x2
//@ insert body-start
        let ghost t0 = self.allowed_token@;
        proof { lemma_remove_keeps(t0, t0, invite_token(self.private_room_id), token_type); }
//@ insert after-stmt "self.allowed_peers.push(allowed);"
        let ghost t1 = self.allowed_token@;
        proof {
            lemma_push_keeps(t0, t1, token, TokenType::AllowedPeer(self.allowed_peers@.last()));
            lemma_remove_keeps(t1, t1, token, token_type);
            lemma_kept_then_consumed(t0, t1, t1, token_type);
        }
//@ insert-each before-stmt "let index = "
                    let ghost toks0 = tokens@;
//@ insert-each after-stmt "tokens.remove(index);"
                        assert(same_invitation(toks0[index as int], token_type));
                        assert(tokens@ == toks0.remove(index as int));
//@ insert after-stmt "if let Some(tokens) = o {" #1
                proof {
                    // [at_most_the_used_invitation_removed_owned] the table changes by at most the removal of one entry, which is the used own invitation
                    assert(removed_consumed(t1, self.allowed_token@, invite_token, token_type));
                    lemma_remove_keeps(t1, self.allowed_token@, invite_token, token_type);
                    lemma_kept_then_consumed(t0, t1, self.allowed_token@, token_type);
                }
//@ insert after-stmt "if let Some(tokens) = o {" #2
                proof {
                    // [at_most_the_used_invitation_removed_accepted] the table changes by at most the removal of one entry, which is the used accepted invitation
                    assert(removed_consumed(t1, self.allowed_token@, invite_token, token_type));
                    lemma_remove_keeps(t1, self.allowed_token@, invite_token, token_type);
                    lemma_kept_then_consumed(t0, t1, self.allowed_token@, token_type);
                }
//@ insert before-stmt "owned.id.eq(&owned_tok.id)"
                            assert(<[u8; 16] as PartialEqSpec<[u8; 16]>>::obeys_eq_spec());
//@ insert before-stmt "i.invite_id.eq(&invite.invite_id)"
                            assert(<[u8; 16] as PartialEqSpec<[u8; 16]>>::obeys_eq_spec());
//@ insert before-stmt "let mut param = Parameters::new();"
                        // [invitation_row_deleted_before_the_fallible_room_grant] the stored row of a used invitation is deleted before the default-room grant, which may fail: a failed grant must not leave an invitation that a restart makes valid again
                        assert(invite_row_deleted(owned.id));
//@ closure "|tt|" #1 ret bool
        ensures b == is_owned(*tt, owned.id)
//@ closure "|tt|" #2 ret bool
        ensures b == is_accepted(*tt, invite.invite_id)
//@ spec
    requires
        // the caller (initialise_connection) consumes invitations only: the `_ => unreachable!()` arm
        !(token_type is AllowedPeer),
    ensures
        // [used_owned_invitation_leaves_the_token_table] once the owner has admitted the peer that used it, an own invitation is no longer answered
        r is Ok && token_type is OwnedInvite && owned_at_most_once(old(self).table(), token_type->OwnedInvite_0.id)
            ==> !table_has_owned(final(self).table(), token_type->OwnedInvite_0.id),
        // [used_accepted_invitation_leaves_the_token_table] the same on the invited side
        r is Ok && token_type is Invite && accepted_at_most_once(old(self).table(), token_type->Invite_0.invite_id)
            ==> !table_has_accepted(final(self).table(), token_type->Invite_0.invite_id),
        // [no_invitation_appears] whatever the outcome, the call adds no invitation to the token table
        no_invitation_added(old(self).table(), final(self).table()),
        // [only_the_used_invitation_disappears] whatever the outcome, every other entry (allowed peers, other invitations) is still answered
        only_consumed_dropped(old(self).table(), final(self).table(), token_type),
        // [used_owned_invitation_row_deleted] a successful consumption has deleted the stored row of the invitation
        r is Ok && token_type is OwnedInvite ==> invite_row_deleted(token_type->OwnedInvite_0.id),
        // [used_accepted_invitation_row_deleted] on the invited side too a successful consumption has deleted the stored row of the invitation, in the instance's private room: a restart does not make a used invitation usable again
        r is Ok && token_type is Invite ==> accepted_invite_row_deleted(spec_uid_text(old(self).private_room()), token_type->Invite_0.invite_id),
        // [invitation_consumed_whenever_peer_admitted] also when a later step fails: a peer is never admitted through an invitation that stays valid
        token_type is OwnedInvite && owned_at_most_once(old(self).table(), token_type->OwnedInvite_0.id) && final(self).peers().len() > old(self).peers().len()
            ==> !table_has_owned(final(self).table(), token_type->OwnedInvite_0.id),
//@ end

//@ extract src/network/peer_manager.rs :: impl PeerManager / fn create_invite
//@ result r
//@ rewrite E3 "crate::Error" => "crate_error::Error" x*
//@ rewrite E15 "self\.app_key\.to_string\(\)" => "self.app_key.clone()" x1
//@ insert after-stmt "entry.push(TokenType::OwnedInvite(owned.clone()));"
        assert(is_owned(entry@[entry@.len() - 1], owned.id));
        assert(self.allowed_token@[token]@.len() > 0);
        assert(table_has_owned(self.table(), owned.id));
//@ spec
    ensures
        // [own_invitation_registered_under_its_token] a created invitation is answered under the token derived from its id, for the application of this instance
        r is Ok ==> bincode::spec_ser_inv::<Invite>(r->Ok_0@).application@ == old(self).app() && table_has_owned(final(self).table(), bincode::spec_ser_inv::<Invite>(r->Ok_0@).invite_id),
//@ end

//@ extract src/network/peer_manager.rs :: impl PeerManager / fn accept_invite
//@ result r
//@ rewrite E3 "crate::Error" => "crate_error::Error" x*
//@ rewrite E3 "bincode::deserialize\(invite\)" => "bincode::deserialize_slice(invite)" x1
//@ rewrite E15 "format!\([^;]*\)\)\);" => "fmt_stub()));" x1
//@ insert before-stmt "inv.insert("
        // [only_an_invitation_for_this_application_is_stored] an invitation is written to the database only after the check that it names this application: a refused invitation leaves no row that a restart would load into the token table
        assert(inv.application@ == self.app());
//@ insert after-stmt "entry.push(TokenType::Invite(inv.clone()));"
        assert(is_accepted(entry@[entry@.len() - 1], inv.invite_id));
        assert(self.allowed_token@[token]@.len() > 0);
        assert(table_has_accepted(self.table(), inv.invite_id));
//@ spec
    ensures
        // [invitation_accepted_only_for_its_application] an invitation is accepted only by the application it names
        r is Ok ==> bincode::spec_deser::<Invite>(invite@).application@ == old(self).app(),
        // [refused_invitation_leaves_table_unchanged] an invitation for another application leaves no trace in the token table
        bincode::spec_deser::<Invite>(invite@).application@ != old(self).app() ==> r is Err && final(self).table() == old(self).table(),
        r is Ok ==> table_has_accepted(final(self).table(), bincode::spec_deser::<Invite>(invite@).invite_id),
//@ end

} // verus!
fn main() {}
