//@ unit u2b_ingest props C02 also C17 C11 C03
// Unit U2b: the first filter of rows received from a peer (src/database/graph_database.rs: GraphDatabase::add_nodes and
// add_edges), in front of the authorisation actor (unit u2_verdicts).  A received node goes on to authorisation only if it
// carries a row, that row is stored in the room being synchronised, it is of the same entity as the stored row it would replace, its entity is known to the data model and its content
// conforms to that entity; every other node is reported as rejected by id and goes nowhere.  A received reference goes on only
// if its source entity is known.  Exactly one of the two happens for every element (E14: loop bodies lifted; the loop shells
// `for x in xs { body(x) }` are not verified).
#![allow(unused_imports, unused_variables, dead_code, unused_mut, non_snake_case)]
use vstd::prelude::*;
use std::collections::{HashMap, HashSet, VecDeque};   // the std collections a change to the extracted code may reach for
use vstd::std_specs::cmp::PartialEqSpec;
verus! {
broadcast use vstd::laws_eq::group_laws_eq;
pub type Uid = [u8; 16];
pub struct DbError { x: u8 }
//@ extract src/database/node.rs :: struct Node
//@ end
//@ extract src/database/node.rs :: struct NodeToInsert
//@ end
//@ extract src/database/edge.rs :: struct Edge
//@ end
/// an entity of the data model: only what the filter reads of it
pub struct Entity { pub enable_full_text: bool, pub x: u8 }
/// the data model: which short entity identifiers are known and which full name they stand for
pub struct DataModel { x: u8 }
pub uninterp spec fn spec_name_for(dm: DataModel, short_name: Seq<char>) -> Option<String>;
pub uninterp spec fn spec_entity(dm: DataModel, name: Seq<char>) -> Option<Entity>;
/// the row content conforms to the entity (field types, required fields): data_model_parser::validate_json_for_entity
pub uninterp spec fn json_conforms(e: Entity, json: Option<String>) -> bool;
impl DataModel {
    #[verifier::external_body]
    pub fn name_for(&self, short_name: &String) -> (r: Option<String>) ensures r == spec_name_for(*self, short_name@) { unimplemented!() }
    #[verifier::external_body]
    pub fn get_entity(&self, name: &String) -> (r: std::result::Result<&Entity, DbError>)
        ensures r is Ok <==> spec_entity(*self, name@) is Some, r is Ok ==> *r->Ok_0 == spec_entity(*self, name@)->Some_0
    { unimplemented!() }
}
#[verifier::external_body]
pub fn validate_json_for_entity(entity: &Entity, json: &Option<String>) -> (r: std::result::Result<(), DbError>)
    ensures r is Ok <==> json_conforms(*entity, *json)
{ unimplemented!() }
/// the text the full-text index holds for a row: node::extract_json over the parsed JSON (the same extraction as the local mutation path)
pub uninterp spec fn fts_ok(json: Seq<char>) -> bool;
pub uninterp spec fn spec_fts(json: Seq<char>) -> Seq<char>;
#[verifier::external_body]
pub fn fts_string(json_str: &String) -> (r: std::result::Result<String, DbError>)
    ensures r is Ok <==> fts_ok(json_str@), r is Ok ==> r->Ok_0@ == spec_fts(json_str@)
{ unimplemented!() }
pub struct GraphDatabase { pub data_model: DataModel, pub x: u8 }
/// what the index must hold for a received row: its current text when the entity is indexed, nothing otherwise
pub open spec fn expected_fts(e: Entity, json: Option<String>) -> Option<Seq<char>> {
    if e.enable_full_text && json is Some { Some(spec_fts(json->Some_0@)) } else { None }
}
pub open spec fn ov_str(o: Option<String>) -> Option<Seq<char>> { match o { Some(s) => Some(s@), None => None } }

/// what the property asks of a received node before anything else looks at it
pub open spec fn node_admissible(dm: DataModel, room_id: Uid, n: NodeToInsert) -> bool {
    n.node is Some
    && n.node->Some_0.room_id is Some && n.node->Some_0.room_id->Some_0 =~= room_id
    // a stored row is replaced only by a version of the same entity: the rights (unit u2_verdicts) are decided on the entity of the incoming row
    && (n.old_entity is Some ==> n.old_entity->Some_0@ == n.node->Some_0._entity@)
    && spec_name_for(dm, n.node->Some_0._entity@) is Some
    && spec_entity(dm, spec_name_for(dm, n.node->Some_0._entity@)->Some_0@) is Some
    && json_conforms(spec_entity(dm, spec_name_for(dm, n.node->Some_0._entity@)->Some_0@)->Some_0, n.node->Some_0._json)
    // and, for an indexed entity, its text can be extracted
    && (spec_entity(dm, spec_name_for(dm, n.node->Some_0._entity@)->Some_0@)->Some_0.enable_full_text && n.node->Some_0._json is Some ==> fts_ok(n.node->Some_0._json->Some_0@))
}
pub open spec fn entity_of(dm: DataModel, n: NodeToInsert) -> Entity { spec_entity(dm, spec_name_for(dm, n.node->Some_0._entity@)->Some_0@)->Some_0 }

//@ extract src/database/graph_database.rs :: impl GraphDatabase / fn add_nodes as GraphDatabase::add_nodes_body
//@ lift-loop "for mut node_to_insert in nodes" :: fn add_nodes_body(&self, room_id: Uid, node_to_insert0: NodeToInsert, invalid_nodes: &mut Vec<Uid>, valid_nodes: &mut Vec<NodeToInsert>)
//@ insert body-start
            let mut node_to_insert = node_to_insert0;   // E14: `for mut node_to_insert in nodes`
            proof { assert(<[u8; 16] as PartialEqSpec<[u8; 16]>>::obeys_eq_spec()); }
//@ spec
        ensures
            // [received_node_passes_only_if_in_room_and_model]{C02} a node received from a peer goes on to authorisation only if it carries a row stored in the room being synchronised, of the same entity as the stored version it replaces, whose entity is known and whose content conforms to the data model
            node_admissible(self.data_model, room_id, node_to_insert0) ==> final(invalid_nodes)@ == old(invalid_nodes)@ && final(valid_nodes)@.len() == old(valid_nodes)@.len() + 1
                && final(valid_nodes)@.subrange(0, old(valid_nodes)@.len() as int) == old(valid_nodes)@
                && final(valid_nodes)@.last().node == node_to_insert0.node && final(valid_nodes)@.last().id == node_to_insert0.id
                && final(valid_nodes)@.last().entity_name == spec_name_for(self.data_model, node_to_insert0.node->Some_0._entity@),
            // [received_row_indexed_like_a_local_one]{C17} a received row of an entity with full-text indexing goes on with indexing on and its current text (the same extraction as a local mutation); the text of the version it replaces was recorded when the row was selected (Node::filter_existing)
            node_admissible(self.data_model, room_id, node_to_insert0) ==>
                final(valid_nodes)@.last().index == (entity_of(self.data_model, node_to_insert0).enable_full_text || node_to_insert0.index)
                && (entity_of(self.data_model, node_to_insert0).enable_full_text ==> ov_str(final(valid_nodes)@.last().node_fts_str) == expected_fts(entity_of(self.data_model, node_to_insert0), node_to_insert0.node->Some_0._json))
                && final(valid_nodes)@.last().old_fts_str == node_to_insert0.old_fts_str,
            // [inadmissible_node_rejected_by_id]{C02} every other node is reported as rejected and goes nowhere
            !node_admissible(self.data_model, room_id, node_to_insert0) ==> final(valid_nodes)@ == old(valid_nodes)@ && final(invalid_nodes)@ == old(invalid_nodes)@.push(node_to_insert0.id),
//@ end

//@ extract src/database/graph_database.rs :: impl GraphDatabase / fn add_edges as GraphDatabase::add_edges_body
//@ lift-loop "for edge in edges" :: fn add_edges_body(&self, edge: Edge, invalid_edges: &mut Vec<Uid>, valid_edges: &mut Vec<(Edge, String)>)
//@ spec
        ensures
            // [received_edge_passes_only_if_entity_known]{C02} a reference received from a peer goes on to authorisation, with the full name of its source entity, only if that entity is known; otherwise its source id is reported as rejected
            spec_name_for(self.data_model, edge.src_entity@) is Some ==> final(invalid_edges)@ == old(invalid_edges)@ && final(valid_edges)@ == old(valid_edges)@.push((edge, spec_name_for(self.data_model, edge.src_entity@)->Some_0)),
            spec_name_for(self.data_model, edge.src_entity@) is None ==> final(valid_edges)@ == old(valid_edges)@ && final(invalid_edges)@ == old(invalid_edges)@.push(edge.src),
//@ end
// ================================================================= deletion records received from a peer, on their way to the authorisation service (C11, C03)
//@ extract src/database/node.rs :: struct NodeDeletionEntry
//@ end
//@ extract src/database/edge.rs :: struct EdgeDeletionEntry
//@ end
pub struct Sender<T> { x: Option<T> }
pub type Result<T> = std::result::Result<T, DbError>;
/// the batch was handed to the reader thread (which attaches the stored authors and passes it to the authorisation service): facts
/// only the two stubs below establish
pub uninterp spec fn node_deletions_handed_on(batch: Seq<NodeDeletionEntry>) -> bool;
pub uninterp spec fn edge_deletions_handed_on(batch: Seq<EdgeDeletionEntry>) -> bool;
impl GraphDatabase {
    // E9: `let auth_service = ..; let _ = self.graph_database.reader.send_async(Box::new(move |conn| { .. })).await;` - the hand-over of the
    // batch to the reader thread (a boxed closure; what it does with the batch is under contract in units u2_verdicts / u5_marks)
    #[verifier::external_body]
    pub async fn hand_node_deletions_to_reader(&self, nodes: Vec<NodeDeletionEntry>, reply: Sender<Result<()>>) -> (r: bool) ensures node_deletions_handed_on(nodes@) { unimplemented!() }
    #[verifier::external_body]
    pub async fn hand_edge_deletions_to_reader(&self, edges: Vec<EdgeDeletionEntry>, reply: Sender<Result<()>>) -> (r: bool) ensures edge_deletions_handed_on(edges@) { unimplemented!() }
}
pub open spec fn node_record_named(dm: DataModel, r: NodeDeletionEntry, h: NodeDeletionEntry) -> bool { h == (NodeDeletionEntry { entity_name: spec_name_for(dm, r.entity@), ..r }) }
pub open spec fn edge_record_named(dm: DataModel, r: EdgeDeletionEntry, h: EdgeDeletionEntry) -> bool { h == (EdgeDeletionEntry { entity_name: spec_name_for(dm, r.src_entity@), ..r }) }

//@ extract src/database/graph_database.rs :: impl GraphDatabase / fn delete_nodes
//@ attr #[verifier::exec_allows_no_decreases_clause]
//@ rewrite E9 "(?s)let auth_service = self\.auth_service\.clone\(\);\s*let _ = self\s*\.graph_database\s*\.reader\s*\.send_async\(.*\)\s*\.await;" => "let _ = self.hand_node_deletions_to_reader(nodes, reply).await;" x1
//@ rewrite E17 "(?<=for node in )&mut nodes(?= \{)" => "nodes.iter_mut()" x1
//@ rewrite E9 "mut nodes: Vec<NodeDeletionEntry>" => "nodes0: Vec<NodeDeletionEntry>" x1
//@ insert body-start
        let mut nodes = nodes0;   // E9: `mut nodes` parameter of the async fn
//@ loop "for node in" iter it
            invariant it.seq().len() == nodes0@.len(), forall|i: int| 0 <= i < it.seq().len() ==> *(#[trigger] it.seq()[i]) == nodes0@[i],
                forall|i: int| 0 <= i < it.index@ ==> node_record_named(self.data_model, *(#[trigger] it.seq()[i]), *final(it.seq()[i])),
//@ insert after-stmt "for node in &mut nodes"
        assert(nodes@.len() == nodes0@.len() && forall|i: int| 0 <= i < nodes@.len() ==> node_record_named(self.data_model, #[trigger] nodes0@[i], nodes@[i]));
//@ spec
        ensures
            // [every_received_row_deletion_goes_on_to_authorisation]{C11,C03} every row deletion record of a received batch is handed on towards the authorisation service - none is dropped or altered on the way, whatever its dates: only the full entity name is filled in
            exists|h: Seq<NodeDeletionEntry>| #[trigger] node_deletions_handed_on(h) && h.len() == nodes0@.len()
                && forall|i: int| 0 <= i < h.len() ==> node_record_named(self.data_model, #[trigger] nodes0@[i], h[i]),
//@ end

//@ extract src/database/graph_database.rs :: impl GraphDatabase / fn delete_edges
//@ attr #[verifier::exec_allows_no_decreases_clause]
//@ rewrite E9 "(?s)let auth_service = self\.auth_service\.clone\(\);\s*let _ = self\s*\.graph_database\s*\.reader\s*\.send_async\(.*\)\s*\.await;" => "let _ = self.hand_edge_deletions_to_reader(edges, reply).await;" x1
//@ rewrite E17 "(?<=for edge in )&mut edges(?= \{)" => "edges.iter_mut()" x1
//@ rewrite E9 "mut edges: Vec<EdgeDeletionEntry>" => "edges0: Vec<EdgeDeletionEntry>" x1
//@ insert body-start
        let mut edges = edges0;   // E9: `mut edges` parameter of the async fn
//@ loop "for edge in" iter it
            invariant it.seq().len() == edges0@.len(), forall|i: int| 0 <= i < it.seq().len() ==> *(#[trigger] it.seq()[i]) == edges0@[i],
                forall|i: int| 0 <= i < it.index@ ==> edge_record_named(self.data_model, *(#[trigger] it.seq()[i]), *final(it.seq()[i])),
//@ insert after-stmt "for edge in &mut edges"
        assert(edges@.len() == edges0@.len() && forall|i: int| 0 <= i < edges@.len() ==> edge_record_named(self.data_model, #[trigger] edges0@[i], edges@[i]));
//@ spec
        ensures
            // [every_received_reference_deletion_goes_on_to_authorisation]{C11,C03} the same for reference deletion records
            exists|h: Seq<EdgeDeletionEntry>| #[trigger] edge_deletions_handed_on(h) && h.len() == edges0@.len()
                && forall|i: int| 0 <= i < h.len() ==> edge_record_named(self.data_model, #[trigger] edges0@[i], h[i]),
//@ end
} // verus!
fn main() {}
