//@ unit u3e_export props C10
// Unit U3e: how a stored group is read back for export to a peer (src/database/room_node.rs: AuthorisationNode::read, what
// get_room_node serves).  The importer replays the three entry lists into append-only, date-ordered histories (AuthorisationNode::parse,
// units u3b / u3c): what is decided here is that each entry list is read FOLLOWING the list of references that is exported with it -
// the references the function has sorted by creation date - entry for entry, in that order, nothing skipped but references whose
// row is missing.  The ordering produced by `sort_by` itself is std's (assumed: a permutation; vstd has no model of the comparator);
// the SQL of Edge::get_edges / UserNode::read / EntityRightNode::read is not modelled: a row read is an uninterpreted function of the id.
#![allow(unused_imports, unused_variables, dead_code, unused_mut, non_snake_case)]
use vstd::prelude::*;
use vstd::std_specs::iter::IteratorSpec;
use std::collections::{HashMap, HashSet, VecDeque};   // the std collections a change to the extracted code may reach for
verus! {
pub type Uid = [u8; 16];
pub mod rusqlite { pub struct Error { x: u8 } pub struct Connection { x: u8 } }
pub use rusqlite::Connection;
//@ extract src/database/node.rs :: struct Node
//@ end
//@ extract src/database/edge.rs :: struct Edge
//@ end
//@ extract src/database/room_node.rs :: struct UserNode
//@ end
//@ extract src/database/room_node.rs :: struct EntityRightNode
//@ end
//@ extract src/database/room_node.rs :: struct AuthorisationNode
//@ end
//@ extract src/database/system_entities.rs :: const AUTHORISATION_ENT_SHORT
//@ end
//@ extract src/database/system_entities.rs :: const AUTH_RIGHTS_FIELD_SHORT
//@ end
//@ extract src/database/system_entities.rs :: const AUTH_USER_FIELD_SHORT
//@ end
//@ extract src/database/system_entities.rs :: const AUTH_USER_ADMIN_FIELD_SHORT
//@ end
// slice::sort_by: the result is a permutation of the input (the ordering itself is std's)
pub assume_specification<T, F: FnMut(&T, &T) -> std::cmp::Ordering>[ <[T]>::sort_by ](s: &mut [T], compare: F)
    ensures final(s)@.to_multiset() == old(s)@.to_multiset();
// E3: std::cmp::max on i64
#[verifier::external_body]
pub fn max(a: i64, b: i64) -> (r: i64) ensures r == (if a >= b { a } else { b }) { unimplemented!() }
/// what the storage holds for an id while the function runs (it only reads): uninterpreted
pub uninterp spec fn stored_user_row(id: Uid) -> Option<UserNode>;
pub uninterp spec fn stored_right_row(id: Uid) -> Option<EntityRightNode>;
impl Node {
    #[verifier::external_body]
    pub fn get_with_entity(id: &Uid, entity: &str, conn: &Connection) -> (r: std::result::Result<Option<Box<Node>>, rusqlite::Error>) { unimplemented!() }
}
impl Edge {
    #[verifier::external_body]
    pub fn get_edges(id: &Uid, label: &str, conn: &Connection) -> (r: std::result::Result<Vec<Edge>, rusqlite::Error>) { unimplemented!() }
}
impl UserNode {
    #[verifier::external_body]
    pub fn read(conn: &Connection, id: &Uid) -> (r: std::result::Result<Option<UserNode>, rusqlite::Error>) ensures r is Ok ==> r->Ok_0 == stored_user_row(*id) { unimplemented!() }
}
impl EntityRightNode {
    #[verifier::external_body]
    pub fn read(conn: &Connection, id: &Uid) -> (r: std::result::Result<Option<EntityRightNode>, rusqlite::Error>) ensures r is Ok ==> r->Ok_0 == stored_right_row(*id) { unimplemented!() }
}
/// the entries read by following a list of references in its order (a reference whose row is missing contributes nothing)
pub open spec fn users_read(edges: Seq<Edge>) -> Seq<UserNode>
    decreases edges.len()
{
    if edges.len() == 0 { Seq::empty() } else {
        match stored_user_row(edges.last().dest) { Some(u) => users_read(edges.drop_last()).push(u), None => users_read(edges.drop_last()) }
    }
}
pub open spec fn rights_read(edges: Seq<Edge>) -> Seq<EntityRightNode>
    decreases edges.len()
{
    if edges.len() == 0 { Seq::empty() } else {
        match stored_right_row(edges.last().dest) { Some(u) => rights_read(edges.drop_last()).push(u), None => rights_read(edges.drop_last()) }
    }
}
pub proof fn lemma_users_read_step(edges: Seq<Edge>, j: int)
    requires 0 < j <= edges.len(),
    ensures users_read(edges.subrange(0, j)) == (match stored_user_row(edges[j - 1].dest) { Some(u) => users_read(edges.subrange(0, j - 1)).push(u), None => users_read(edges.subrange(0, j - 1)) }),
{
    assert(edges.subrange(0, j).drop_last() =~= edges.subrange(0, j - 1));
    assert(edges.subrange(0, j).last() == edges[j - 1]);
}
pub proof fn lemma_rights_read_step(edges: Seq<Edge>, j: int)
    requires 0 < j <= edges.len(),
    ensures rights_read(edges.subrange(0, j)) == (match stored_right_row(edges[j - 1].dest) { Some(u) => rights_read(edges.subrange(0, j - 1)).push(u), None => rights_read(edges.subrange(0, j - 1)) }),
{
    assert(edges.subrange(0, j).drop_last() =~= edges.subrange(0, j - 1));
    assert(edges.subrange(0, j).last() == edges[j - 1]);
}

//@ extract src/database/room_node.rs :: impl AuthorisationNode / fn read
//@ result r
//@ attr #[verifier::exec_allows_no_decreases_clause]
//@ attr #[verifier::loop_isolation(false)]
//@ loop "for edge in &right_edges" iter it
            invariant it.seq().len() == right_edges@.len(), forall|i: int| 0 <= i < it.seq().len() ==> *(#[trigger] it.seq()[i]) == right_edges@[i],
                // [rights_read_in_the_order_of_their_references_so_far]
                right_nodes@ == rights_read(right_edges@.subrange(0, it.index@ as int)),
//@ insert after-stmt "let right_opt = EntityRightNode::read(conn, &edge.dest)?;"
            proof { lemma_rights_read_step(right_edges@, it.index@ as int + 1); }
//@ loop "for edge in &user_edges" iter it
            invariant it.seq().len() == user_edges@.len(), forall|i: int| 0 <= i < it.seq().len() ==> *(#[trigger] it.seq()[i]) == user_edges@[i],
                // [users_read_in_the_order_of_their_references_so_far]
                user_nodes@ == users_read(user_edges@.subrange(0, it.index@ as int)),
//@ insert after-stmt "let user_opt = UserNode::read(conn, &edge.dest)?;" #1
            proof { lemma_users_read_step(user_edges@, it.index@ as int + 1); }
//@ loop "for edge in &user_admin_edges" iter it
            invariant it.seq().len() == user_admin_edges@.len(), forall|i: int| 0 <= i < it.seq().len() ==> *(#[trigger] it.seq()[i]) == user_admin_edges@[i],
                // [user_admins_read_in_the_order_of_their_references_so_far]
                user_admin_nodes@ == users_read(user_admin_edges@.subrange(0, it.index@ as int)),
//@ insert after-stmt "let user_opt = UserNode::read(conn, &edge.dest)?;" #2
            proof { lemma_users_read_step(user_admin_edges@, it.index@ as int + 1); }
//@ insert before-stmt "Ok(Some(Self {"
        proof {
            assert(right_edges@.subrange(0, right_edges@.len() as int) =~= right_edges@);
            assert(user_edges@.subrange(0, user_edges@.len() as int) =~= user_edges@);
            assert(user_admin_edges@.subrange(0, user_admin_edges@.len() as int) =~= user_admin_edges@);
        }
//@ spec
        ensures
            // [exported_entries_follow_the_exported_references] each entry list of an exported group is the rows read by following the exported (date-sorted) list of references, entry for entry, in that order: the importer replays the entries in the order the exporter sorted the references in
            r is Ok && r->Ok_0 is Some ==> r->Ok_0->Some_0.right_nodes@ == rights_read(r->Ok_0->Some_0.right_edges@)
                && r->Ok_0->Some_0.user_nodes@ == users_read(r->Ok_0->Some_0.user_edges@)
                && r->Ok_0->Some_0.user_admin_nodes@ == users_read(r->Ok_0->Some_0.user_admin_edges@),
            // [exported_group_is_always_marked_to_be_written] what is read for export carries the "to be written" flag
            r is Ok && r->Ok_0 is Some ==> r->Ok_0->Some_0.need_update,
//@ end
} // verus!
fn main() {}
