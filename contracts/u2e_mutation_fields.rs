//@ unit u2e_mutation_fields props C01 C12 also C02
// Unit U2e: what a mutation prepares for each field it names (src/database/mutation_query.rs: the body of the loop of
// MutationQuery::get_mutate_query over the fields of the request, rule E14; the loop has no `continue`, the body is lifted because the
// enclosing function mixes it with a mutable borrow into the JSON content).  validate_entity_mutation (unit u2_verdicts) treats a
// prepared entity whose row is NOT rewritten (`node == None`) as "no mutation occurs on this row" and checks nothing; the row is
// rewritten iff `field_updated` was raised.  So: every reference this body prepares for removal or insertion, and every scalar it
// writes, raises `field_updated` - a reference is never changed behind a row that is not re-validated and re-signed - and a new
// reference is a reference OF the mutated row (source, source entity, field, date of the request).
#![allow(unused_imports, unused_variables, dead_code, unused_mut, non_snake_case)]
use vstd::prelude::*;
use std::collections::{HashMap, HashSet, VecDeque};   // the std collections a change to the extracted code may reach for
verus! {
pub type Uid = [u8; 16];
pub struct Error { x: u8 }
pub type Result<T> = std::result::Result<T, Error>;
pub mod rusqlite { pub struct Error { x: u8 } pub struct Connection { x: u8 } }
pub use rusqlite::Connection;
impl From<rusqlite::Error> for Error { #[verifier::external_body] fn from(e: rusqlite::Error) -> Error { unimplemented!() } }
pub mod serde_json {
    use vstd::prelude::*;
    pub struct Error { x: u8 }
    #[derive(Clone)]
    pub enum Value { Null, Other(u8) }
    pub struct Map { x: u8 }
    impl Map {
        #[verifier::external_body]
        pub fn insert(&mut self, k: String, v: Value) -> (r: Option<Value>) { unimplemented!() }
    }
    #[verifier::external_body]
    pub fn from_str(s: &String) -> (r: Result<Value, Error>) { unimplemented!() }
}
impl From<serde_json::Error> for Error { #[verifier::external_body] fn from(e: serde_json::Error) -> Error { unimplemented!() } }
/// a literal or parameter value: opaque
pub struct ParamValue { x: u8 }
impl ParamValue {
    #[verifier::external_body]
    pub fn as_serde_json_value(&self) -> (r: Result<serde_json::Value>) { unimplemented!() }
    #[verifier::external_body]
    pub fn as_string(&self) -> (r: Option<&String>) { unimplemented!() }
}
/// query parameters: opaque.  E8 cut of an expression: `parameters.params.get(v).unwrap()` -> `param_value(parameters, v)`.
/// ASSUMED: `validate_params` guarantees that every variable the parsed mutation names is present.
pub struct Parameters { x: u8 }
#[verifier::external_body]
pub fn param_value<'a>(p: &'a Parameters, k: &String) -> (r: &'a ParamValue) { unimplemented!() }
#[verifier::external_body]
pub fn now() -> (r: i64) { unimplemented!() }
#[verifier::external_body]
pub fn default_uid() -> (r: Uid) { unimplemented!() }

// E33: `s.eq(CONST)` with `s: String`, `CONST: &str` (std's `impl PartialEq<&str> for String`: an assume_specification on it cannot be
// written, its signature is `for<'_0> for<..>`) -> this stub: the contents are compared
#[verifier::external_body]
pub fn str_is(a: &String, b: &str) -> (r: bool) ensures r == (a@ == b@) { unimplemented!() }
//@ extract src/database/system_entities.rs :: const ID_FIELD
//@ end
//@ extract src/database/system_entities.rs :: const ROOM_ID_FIELD
//@ end
//@ extract src/database/node.rs :: struct Node
//@ end
//@ extract src/database/edge.rs :: struct Edge
//@ end
//@ extract src/database/edge.rs :: struct EdgeDeletionEntry
//@ end
//@ extract src/database/mutation_query.rs :: struct NodeToMutate
//@ end
//@ extract src/database/mutation_query.rs :: struct InsertEntity
//@ end
//@ extract src/database/query_language/mod.rs :: enum FieldType
//@ end
//@ extract src/database/query_language/mutation_parser.rs :: enum MutationFieldValue
//@ end
//@ extract src/database/query_language/mutation_parser.rs :: struct MutationField
//@ end
//@ extract src/database/query_language/mutation_parser.rs :: struct EntityMutation
//@ end
impl Default for Edge {
    /// Edge::default (edge.rs): an unsigned reference; every field the callers here care about is overwritten
    #[verifier::external_body]
    fn default() -> (r: Edge) { unimplemented!() }
}
impl Edge {
    /// SQL reads: whatever the database answers
    #[verifier::external_body]
    pub fn exists(src: Uid, label: String, dest: Uid, conn: &Connection) -> (r: Result<bool>) { unimplemented!() }
    #[verifier::external_body]
    pub fn get_edges(src: &Uid, label: &String, conn: &Connection) -> (r: std::result::Result<Vec<Edge>, rusqlite::Error>) { unimplemented!() }
}
pub struct MutationQuery { x: u8 }
impl MutationQuery {
    /// the recursive call for a nested entity: any prepared entity (its own fields are covered by this same contract)
    #[verifier::external_body]
    fn get_mutate_query(entity: &EntityMutation, parameters: &Parameters, conn: &Connection, date: i64) -> (r: Result<InsertEntity>) { unimplemented!() }
}
/// E32: `unreachable!()` -> this function, which REQUIRES that the arm is not reached: what the parser guarantees about a field
/// (a reference field carries entities or a null; a scalar field a literal or a variable) is stated as the precondition `field_shape_ok`
#[verifier::external_body]
pub fn unreachable_arm<A>() -> (r: A) requires false { unimplemented!() }
pub open spec fn field_shape_ok(f: MutationField) -> bool {
    match f.field_type {
        FieldType::Array(_) => f.field_value is Array || f.field_value is Value,
        FieldType::Entity(_) => f.field_value is Entity || f.field_value is Value,
        _ => f.field_value is Variable || f.field_value is Value,
    }
}
pub open spec fn is_prefix<T>(a: Seq<T>, b: Seq<T>) -> bool { a.len() <= b.len() && b.subrange(0, a.len() as int) =~= a }
/// a reference prepared for insertion is a reference OF the mutated row, under the field it was written for, dated by the request
pub open spec fn edge_of_mutated_row(e: Edge, n: NodeToMutate, entity: EntityMutation, field: MutationField) -> bool {
    e.src == n.id && e.src_entity@ == entity.short_name@ && e.label@ == field.short_name@ && e.cdate == n.date
}

//@ extract src/database/mutation_query.rs :: impl MutationQuery / fn get_mutate_query as MutationQuery::mutate_field_body
//@ lift-loop "for field_entry in &entity.fields" :: fn mutate_field_body(field_entry: (&String, &MutationField), entity: &EntityMutation, parameters: &Parameters, conn: &Connection, date: i64, node_to_mutate: &NodeToMutate, query: &mut InsertEntity, obj: &mut serde_json::Map, is_update0: &mut bool, field_updated0: &mut bool) -> (r: Result<()>) tail "Ok(())"
//@ attr #[verifier::loop_isolation(false)]
//@ rewrite E8 "parameters\.params\.get\(v\)\.unwrap\(\)" => "param_value(parameters, v)" x2
//@ rewrite E27 "field\.short_name\.to_string\(\)" => "field.short_name.clone()" x*
//@ rewrite E27 "String::from\(&field\.(short_name|name)\)" => "field.\1.clone()" x*
//@ rewrite E33 "field\.name\.eq\((ID_FIELD|ROOM_ID_FIELD)\)" => "str_is(&field.name, \1)" x*
//@ rewrite E32 "unreachable!\(\)" => "unreachable_arm()" x*
//@ rewrite E9 "\bis_update = true" => "*is_update0 = true" x*
//@ rewrite E9 "\bfield_updated = true" => "*field_updated0 = true" x*
//@ loop "for mutation in mutations" iter itm
                                    invariant
                                        is_prefix(q0.edge_deletions@, query.edge_deletions@) && query.edge_deletions@.len() == q0.edge_deletions@.len(),
                                        is_prefix(q0.edge_insertions@, query.edge_insertions@),
                                        query.edge_insertions@.len() > q0.edge_insertions@.len() ==> *field_updated0,
                                        fu0 ==> *field_updated0, iu0 ==> *is_update0,
                                        forall|k: int| q0.edge_insertions@.len() <= k < query.edge_insertions@.len() ==> edge_of_mutated_row(#[trigger] query.edge_insertions@[k], *node_to_mutate, *entity, *field),
//@ loop "for e in edges" #1 iter ite
                                    invariant
                                        is_prefix(q0.edge_deletions@, query.edge_deletions@), query.edge_insertions@ == q0.edge_insertions@,
                                        query.edge_deletions@.len() > q0.edge_deletions@.len() ==> *field_updated0,
                                        fu0 ==> *field_updated0, iu0 ==> *is_update0,
//@ loop "for e in edges" #2 iter ite
                                        invariant
                                            is_prefix(q0.edge_deletions@, query.edge_deletions@), query.edge_insertions@ == q0.edge_insertions@,
                                            fu0 ==> *field_updated0, iu0 ==> *is_update0,
//@ loop "for e in edges" #3 iter ite
                                    invariant
                                        is_prefix(q0.edge_deletions@, query.edge_deletions@), query.edge_insertions@ == q0.edge_insertions@,
                                        query.edge_deletions@.len() > q0.edge_deletions@.len() ==> *field_updated0,
                                        fu0 ==> *field_updated0, iu0 ==> *is_update0,
//@ insert body-start
                let ghost q0 = *query;
                let ghost fu0 = *field_updated0;
                let ghost iu0 = *is_update0;
//@ spec
        requires
            // ASSUMED of the parser: a reference field carries entities or a null, a scalar field a literal or a variable (the arms the code marks unreachable)
            field_shape_ok(*field_entry.1),
        ensures
            // [reference_change_marks_the_row_updated]{C01,C12} every reference this field prepares for removal or insertion raises `field_updated`: the row is then rewritten, re-dated and re-signed, and validate_entity_mutation checks the caller's right on it - a reference is never changed behind a row that is treated as untouched
            r is Ok && (final(query).edge_deletions@.len() > old(query).edge_deletions@.len() || final(query).edge_insertions@.len() > old(query).edge_insertions@.len()) ==> *final(field_updated0),
            // [scalar_change_marks_the_row_updated]{C01,C12} a scalar or Json field that is written into the content raises it too
            r is Ok && !(field_entry.1.field_type is Array) && !(field_entry.1.field_type is Entity) && field_entry.1.name@ != ID_FIELD@ && field_entry.1.name@ != ROOM_ID_FIELD@ ==> *final(field_updated0),
            // [id_field_means_update]{C01,C12} naming the id makes the request an update of that row
            r is Ok && field_entry.1.name@ == ID_FIELD@ ==> *final(is_update0),
            // [flags_only_raised] nothing lowers the two flags
            (*old(field_updated0) ==> *final(field_updated0)) && (*old(is_update0) ==> *final(is_update0)),
            // [prepared_references_only_grow] nothing already prepared is dropped or altered
            r is Ok ==> is_prefix(old(query).edge_deletions@, final(query).edge_deletions@) && is_prefix(old(query).edge_insertions@, final(query).edge_insertions@)
                && final(query).edge_deletions_log == old(query).edge_deletions_log && final(query).node_to_mutate == old(query).node_to_mutate,
            // [new_reference_is_of_the_mutated_row]{C02,C12} a reference prepared for insertion has the mutated row as source, its entity as source entity, the field as label and the date of the request: what peers check the reference's author against
            r is Ok ==> forall|k: int| old(query).edge_insertions@.len() <= k < final(query).edge_insertions@.len() ==> edge_of_mutated_row(#[trigger] final(query).edge_insertions@[k], *node_to_mutate, *entity, *field_entry.1),
//@ end
} // verus!
fn main() {}
