//@ unit u2d_mutation_build props C01 C12 C09
// Unit U2d: how a mutation submitted through the API is prepared (src/database/mutation_query.rs:
// MutationQuery::create_node_to_mutate).  What validate_entity_mutation (unit u2_verdicts) decides - the right in the room a row
// LEAVES as well as in the room it enters, own-rows or all-rows according to the author of the stored version - and what
// InsertEntity::update_daily_logs (unit u5_marks) marks - the bucket the replaced version leaves - rest on what this function
// records in `old_node`: it must be the stored row, untouched.  The new version is the stored row in the room the mutation names
// (else in its own room), re-dated; a mutation without id creates a fresh row in the named room.
// The stored row comes from an SQL read (stub: whatever the database returns for that id and entity).
#![allow(unused_imports, unused_variables, dead_code, unused_mut, non_snake_case)]
use vstd::prelude::*;
use vstd::std_specs::hash::*;
use std::collections::{HashMap, HashSet, VecDeque};   // the std collections a change to the extracted code may reach for
verus! {
broadcast use {vstd::std_specs::hash::group_hash_axioms, trusted::group_trusted};
pub type Uid = [u8; 16];
pub enum Error {
    InvalidId(String),
    UnknownEntity(String, String),
    Other(u8),
}
pub type Result<T> = std::result::Result<T, Error>;
pub mod rusqlite { pub struct Error { x: u8 } pub struct Connection { x: u8 } }
pub use rusqlite::Connection;
pub struct SecError { x: u8 }
impl From<rusqlite::Error> for Error { #[verifier::external_body] fn from(e: rusqlite::Error) -> Error { unimplemented!() } }
impl From<SecError> for Error { #[verifier::external_body] fn from(e: SecError) -> Error { unimplemented!() } }
pub mod trusted {
    use vstd::prelude::*;
    use vstd::std_specs::hash::*;
    #[verifier::external_body]
    pub broadcast proof fn axiom_string_key_model() ensures #[trigger] obeys_key_model::<String>() {}
    /// the String with a given content (strings are determined by their content)
    pub uninterp spec fn string_of(s: Seq<char>) -> String;
    #[verifier::external_body]
    pub broadcast proof fn axiom_string_of(s: Seq<char>) ensures (#[trigger] string_of(s))@ == s {}
    #[verifier::external_body]
    pub broadcast proof fn axiom_string_of_view(x: String) ensures #[trigger] string_of(x@) == x {}
    // HashMap<String, V>::get(&str): `String: Borrow<str>` hashes and compares by content
    #[verifier::external_body]
    pub broadcast proof fn axiom_contains_str_key<V>(m: Map<String, V>, k: &str)
        ensures #[trigger] contains_borrowed_key::<String, V, str>(m, k) == m.contains_key(string_of(k@)) {}
    #[verifier::external_body]
    pub broadcast proof fn axiom_maps_str_key<V>(m: Map<String, V>, k: &str, v: V)
        ensures #[trigger] maps_borrowed_key_to_value::<String, V, str>(m, k, v) == (m.contains_key(string_of(k@)) && m[string_of(k@)] == v) {}
    pub broadcast group group_trusted { axiom_string_key_model, axiom_string_of, axiom_string_of_view, axiom_contains_str_key, axiom_maps_str_key }
}
pub use trusted::string_of;
#[verifier::external_body]
pub fn fmt_stub() -> (r: String) { unimplemented!() }
/// the clock and the identifier generator: arbitrary values (nothing is assumed about them)
#[verifier::external_body]
pub fn now() -> (r: i64) { unimplemented!() }
#[verifier::external_body]
pub fn new_uid() -> (r: Uid) { unimplemented!() }
#[verifier::external_body]
pub fn default_uid() -> (r: Uid) { unimplemented!() }
#[verifier::external_body]
pub fn base64_encode(data: &[u8]) -> (r: String) { unimplemented!() }
/// security::uid_from: `v.try_into()` - the identifier IS the 16 bytes given
#[verifier::external_body]
pub fn uid_from(v: Vec<u8>) -> (r: std::result::Result<Uid, SecError>) ensures r is Ok ==> r->Ok_0@ == v@ { unimplemented!() }

/// query parameters and parsed mutation fields: opaque.  `base64_field` (decoding of an `id` / `room_id` field given as a literal or a
/// variable) is not under contract here: whatever bytes it yields for a field are `field_bytes`
pub struct Parameters { x: u8 }
pub struct MutationField { x: u8 }
pub uninterp spec fn field_bytes(f: MutationField, p: Parameters) -> Option<Seq<u8>>;
pub open spec fn opt_bytes(o: Option<Vec<u8>>) -> Option<Seq<u8>> { match o { Some(v) => Some(v@), None => None } }

//@ extract src/database/system_entities.rs :: const ID_FIELD
//@ end
//@ extract src/database/system_entities.rs :: const ROOM_ID_FIELD
//@ end
//@ extract src/database/node.rs :: struct Node
//@ end
//@ extract src/database/mutation_query.rs :: struct NodeToMutate
//@ end
//@ extract src/database/query_language/mutation_parser.rs :: struct EntityMutation
//@ end
impl Clone for Node {
    #[verifier::external_body]
    fn clone(&self) -> (r: Node) ensures r == *self { unimplemented!() }   // #[derive(Clone)]
}
/// what the database holds: the row with this id and entity - whatever SQLite returns
pub uninterp spec fn stored_row(id: Uid, entity: Seq<char>) -> Option<Node>;
impl Node {
    #[verifier::external_body]
    pub fn get_with_entity(id: &Uid, entity: &String, conn: &Connection) -> (r: std::result::Result<Option<Box<Node>>, rusqlite::Error>)
        ensures r is Ok ==> (match r->Ok_0 { Some(n) => Some(*n), None => None }) == stored_row(*id, entity@),
    { unimplemented!() }
}
pub struct MutationQuery { x: u8 }
impl MutationQuery {
    #[verifier::external_body]
    fn base64_field(id_field: &MutationField, parameters: &Parameters) -> (r: Result<Option<Vec<u8>>>)
        ensures r is Ok ==> opt_bytes(r->Ok_0) == field_bytes(*id_field, *parameters)
    { unimplemented!() }
}

//@ extract src/database/node.rs :: impl Default for Node / fn default
//@ result r
//@ rewrite E16 "\"\"\.to_string\(\)" => "fmt_stub()" x1
//@ spec
        ensures
            // [fresh_row_has_no_room_and_no_storage_slot] a row created by Default belongs to no room and has no storage slot (it is not a stored row)
            r.room_id is None && r._local_id is None,
//@ end
//@ extract src/database/mutation_query.rs :: impl Default for NodeToMutate / fn default
//@ result r
//@ rewrite E16 "\"\"\.to_string\(\)" => "fmt_stub()" x1
//@ spec
        ensures
            // [default_mutation_has_no_version] nothing is a previous or a new version until create_node_to_mutate says so
            r.node is None && r.old_node is None && r.room_id is None && r.old_fts_str is None && r.node_fts_str is None,
//@ end

/// the identifier a mutation names in its field `name` (`id` / `room_id`), if it has that field
pub open spec fn named_uid(e: EntityMutation, p: Parameters, name: Seq<char>) -> Option<Seq<u8>> {
    if e.fields@.contains_key(string_of(name)) { field_bytes(e.fields@[string_of(name)], p) } else { None }
}
pub open spec fn has_field(e: EntityMutation, name: Seq<char>) -> bool { e.fields@.contains_key(string_of(name)) }

//@ extract src/database/mutation_query.rs :: impl MutationQuery / fn create_node_to_mutate
//@ result r
//@ rewrite E16 "String::from\(entity_name\)" => "fmt_stub()" x1
//@ rewrite E27 "String::from\(entity_short\)" => "entity_short.clone()" x1
//@ spec
        ensures
            // [prepared_row_carries_request_date_and_entity] the row is prepared under the entity name the rights are given on, at the date of the request
            r is Ok ==> r->Ok_0.date == date && r->Ok_0.entity@ == entity.name@ && r->Ok_0.enable_full_text == entity.enable_full_text
                && r->Ok_0.node is Some && r->Ok_0.room_id == r->Ok_0.node->Some_0.room_id && r->Ok_0.id == r->Ok_0.node->Some_0.id,
            // [old_version_is_the_stored_row]{C01,C12,C09} an update records, as the version it replaces, the stored row of that id and entity exactly as stored - its room (the room the row LEAVES), its author, its modification date: what the authorisation of the departing room, the own-rows / all-rows choice and the daily-log mark of the day left are decided on
            r is Ok && has_field(*entity, ID_FIELD@) ==> ({
                let id = named_uid(*entity, *parameters, ID_FIELD@);
                id is Some && exists|u: Uid| #![auto] u@ == id->Some_0 && stored_row(u, entity.short_name@) is Some
                    && r->Ok_0.old_node == stored_row(u, entity.short_name@)
            }),
            // [new_version_is_the_stored_row_in_the_named_room]{C01,C12} the new version is the stored row, re-dated, in the room the mutation names - in its own room when it names none; nothing else is changed here
            r is Ok && has_field(*entity, ID_FIELD@) ==> ({
                let old = r->Ok_0.old_node->Some_0;
                let room = named_uid(*entity, *parameters, ROOM_ID_FIELD@);
                r->Ok_0.node->Some_0 == (Node { mdate: date, room_id: r->Ok_0.room_id, ..old })
                && (match room { Some(b) => r->Ok_0.room_id is Some && r->Ok_0.room_id->Some_0@ == b, None => !has_field(*entity, ROOM_ID_FIELD@) && r->Ok_0.room_id == old.room_id })
            }),
            // [creation_has_no_old_version]{C01,C12} a mutation without id creates a row: no replaced version, the room is the one the mutation names (none: no room)
            r is Ok && !has_field(*entity, ID_FIELD@) ==> r->Ok_0.old_node is None && r->Ok_0.node->Some_0._entity@ == entity.short_name@
                && r->Ok_0.node->Some_0._local_id is None
                && (match named_uid(*entity, *parameters, ROOM_ID_FIELD@) { Some(b) => r->Ok_0.room_id is Some && r->Ok_0.room_id->Some_0@ == b, None => !has_field(*entity, ROOM_ID_FIELD@) && r->Ok_0.room_id is None }),
//@ end
} // verus!
fn main() {}
