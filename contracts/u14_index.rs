//@ unit u14_index props C17
// Unit U14: maintenance of the full-text index when a row is written (src/database/node.rs: Node::write, the one place that
// touches `_node_fts` for data rows).  The statements sent to SQLite are recorded by ghost code woven at the `execute` calls
// (rule E7); what is decided is WHICH index statements a write issues, for every combination of its inputs:
//   indexing on, row already stored: delete the previous text (when there is one) then insert the current text (when there is one);
//   indexing on, new row: insert the current text under the rowid SQLite assigned;
//   indexing off: the index is not touched.
// What fts5 does with these statements (contentless table, rowid reuse after a row deletion) is SQLite's and is NOT decided.
#![allow(unused_imports, unused_variables, dead_code, unused_mut, non_snake_case)]
use vstd::prelude::*;
use std::collections::{HashMap, HashSet, VecDeque};   // the std collections a change to the extracted code may reach for
verus! {
pub type Uid = [u8; 16];
pub mod rusqlite { pub struct Error { x: u8 } }
pub struct Statement { x: u8 }
impl Statement {
    /// any statement may fail
    #[verifier::external_body]
    pub fn execute<P>(&mut self, p: P) -> (r: std::result::Result<usize, rusqlite::Error>) { unimplemented!() }
    /// INSERT returning the rowid SQLite assigned
    #[verifier::external_body]
    pub fn insert<P>(&mut self, p: P) -> (r: std::result::Result<i64, rusqlite::Error>) { unimplemented!() }
}
pub struct Connection { x: u8 }
impl Connection {
    #[verifier::external_body]
    pub fn prepare_cached(&self, q: &str) -> (r: std::result::Result<Statement, rusqlite::Error>) { unimplemented!() }
}
/// sqlite_database::Writeable
pub trait Writeable { fn write(&mut self, conn: &Connection) -> std::result::Result<(), rusqlite::Error>; }
//@ extract src/database/node.rs :: struct Node
//@ end
//@ extract src/database/node.rs :: struct NodeToInsert
//@ end

/// an operation on the full-text index
pub enum FtsOp { Delete(i64, Seq<char>), Insert(i64, Seq<char>) }
pub open spec fn ov_str(o: Option<String>) -> Option<Seq<char>> { match o { Some(s) => Some(s@), None => None } }
/// what a write must do to the index, from the property: the previous text of the row is removed, its current text is added
pub open spec fn expected_ops(index: bool, stored_rowid: Option<i64>, new_rowid: i64, old_text: Option<Seq<char>>, new_text: Option<Seq<char>>) -> Seq<FtsOp> {
    if !index { Seq::<FtsOp>::empty() }
    else {
        let rowid = match stored_rowid { Some(id) => id, None => new_rowid };
        let del = if stored_rowid is Some && old_text is Some { seq![FtsOp::Delete(rowid, old_text->Some_0)] } else { Seq::<FtsOp>::empty() };
        let ins = if new_text is Some { seq![FtsOp::Insert(rowid, new_text->Some_0)] } else { Seq::<FtsOp>::empty() };
        del + ins
    }
}

//@ extract src/database/node.rs :: impl Node / fn write
//@ result r
//@ rewrite E10 "static UPDATE_FTS_QUERY: &str" => "const UPDATE_FTS_QUERY: &'static str" x1
//@ insert body-start
        let ghost mut ops: Seq<FtsOp> = Seq::empty();
        let ghost stored = self._local_id;
        let ghost mut assigned: i64 = 0;
//@ insert after-stmt "delete_fts_stmt.execute((id, previous))?;"
                    proof { ops = ops.push(FtsOp::Delete(id, previous@)); }
//@ insert after-stmt "insert_fts_stmt.execute((id, current))?;"
                    proof { ops = ops.push(FtsOp::Insert(id, current@)); }
//@ insert after-stmt "self._local_id = Some(rowid);"
            proof { assigned = rowid; }
//@ insert after-stmt "insert_fts_stmt.execute((rowid, current))?;"
                    proof { ops = ops.push(FtsOp::Insert(rowid, current@)); }
//@ insert before-stmt "Ok(())"
        // [index_holds_the_current_text_only] a successful write with indexing on removes the row's previous text from the index (when the row was stored and had one) and adds its current text (when it has one), under the row's storage slot; with indexing off the index is not touched
        assert(ops =~= expected_ops(index, stored, assigned, ov_str(*old_fts_str), ov_str(*node_fts_str)));
//@ end

//@ extract src/database/node.rs :: impl Writeable for NodeToInsert / fn write
//@ end

// ---- the local mutation path: what it hands to Node::write (src/database/mutation_query.rs, the block of get_mutate_query that
// finishes a row that IS written; lifted by rule E9).  The text of the previous version is recorded earlier in that function
// (not under contract); here: the row that is written carries its current content and the text of that content.
pub struct Error { x: u8 }
pub mod serde_json {
    use vstd::prelude::*;
    pub struct Error { x: u8 }
    pub struct Value { x: u8 }
    /// the serialisation of a JSON value (uninterpreted)
    pub uninterp spec fn spec_to_string(v: Value) -> Seq<char>;
    #[verifier::external_body]
    pub fn to_string(v: &Value) -> (r: Result<String, Error>) ensures r is Ok ==> r->Ok_0@ == spec_to_string(*v) { unimplemented!() }
}
impl From<serde_json::Error> for Error { #[verifier::external_body] fn from(e: serde_json::Error) -> Error { unimplemented!() } }
/// the text the full-text index holds for a JSON content (node::extract_json: appends it to the buffer)
pub uninterp spec fn spec_text(v: serde_json::Value) -> Seq<char>;
#[verifier::external_body]
pub fn extract_json(v: &serde_json::Value, buff: &mut String) -> (r: std::result::Result<(), Error>)
    ensures r is Ok ==> final(buff)@ == old(buff)@ + spec_text(*v)
{ unimplemented!() }
pub struct MutationQuery { x: u8 }

//@ extract src/database/mutation_query.rs :: struct NodeToMutate
//@ end
// `node` is `&mut node_to_mutate.node`'s content in the enclosing function: a field disjoint from every other field the block
// touches (the borrow checker guarantees it there); in the lifted function it is a separate parameter
//@ extract src/database/mutation_query.rs :: impl MutationQuery / fn get_mutate_query as MutationQuery::lifted_written_row
//@ lift "else if let Some(node) = &mut node_to_mutate.node {" :: fn lifted_written_row(node: &mut Node, node_to_mutate: &mut NodeToMutate, json: serde_json::Value, date: i64) -> (r: std::result::Result<(), Error>) tail "Ok(())"
//@ spec
        ensures
            // [written_row_is_handed_to_the_index_with_its_current_text] a row that the local mutation path writes carries its current content, the operation's date, and - whatever the previous text was - the text of that current content for the index (Node::write removes the previous text and adds this one)
            r is Ok ==> final(node)._json is Some && final(node)._json->Some_0@ == serde_json::spec_to_string(json)
                && final(node).mdate == date
                && final(node_to_mutate).node_fts_str is Some && final(node_to_mutate).node_fts_str->Some_0@ == spec_text(json),
            // [previous_text_and_index_flag_left_alone] the text recorded for the previous version and the entity's indexing flag are not touched here
            final(node_to_mutate).old_fts_str == old(node_to_mutate).old_fts_str && final(node_to_mutate).enable_full_text == old(node_to_mutate).enable_full_text,
//@ end
} // verus!
fn main() {}
