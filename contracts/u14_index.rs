//@ unit u14_index props C17
// Unit U14: maintenance of the full-text index when a row is written (src/database/node.rs: Node::write, the one place that
// touches `_node_fts` for data rows).  The statements sent to SQLite are recorded by ghost code woven at the `execute` calls
// (rule E7); what is decided is WHICH index statements a write issues, for every combination of its inputs:
//   indexing on, row already stored: delete the previous text (when there is one) then insert the current text (when there is one);
//   indexing on, new row: insert the current text under the rowid SQLite assigned;
//   indexing off: the index is not touched.
// What fts5 does with these statements (contentless table, rowid reuse after a row deletion) is SQLite's and is NOT decided.
#![allow(unused_imports, unused_variables, dead_code, unused_mut, non_snake_case)]
use vstd::prelude::*;
use std::collections::{HashMap, HashSet, VecDeque};   // the std collections a change to the extracted code may reach for
verus! {
pub type Uid = [u8; 16];
pub mod rusqlite { pub struct Error { x: u8 } }
pub struct Statement { x: u8 }
impl Statement {
    /// any statement may fail
    #[verifier::external_body]
    pub fn execute<P>(&mut self, p: P) -> (r: std::result::Result<usize, rusqlite::Error>) { unimplemented!() }
    /// INSERT returning the rowid SQLite assigned
    #[verifier::external_body]
    pub fn insert<P>(&mut self, p: P) -> (r: std::result::Result<i64, rusqlite::Error>) { unimplemented!() }
}
pub struct Connection { x: u8 }
impl Connection {
    #[verifier::external_body]
    pub fn prepare_cached(&self, q: &str) -> (r: std::result::Result<Statement, rusqlite::Error>) { unimplemented!() }
}
/// sqlite_database::Writeable
pub trait Writeable { fn write(&mut self, conn: &Connection) -> std::result::Result<(), rusqlite::Error>; }
//@ extract src/database/node.rs :: struct Node
//@ end
//@ extract src/database/node.rs :: struct NodeToInsert
//@ end

/// an operation on the full-text index
pub enum FtsOp { Delete(i64, Seq<char>), Insert(i64, Seq<char>) }
pub open spec fn ov_str(o: Option<String>) -> Option<Seq<char>> { match o { Some(s) => Some(s@), None => None } }
/// what a write must do to the index, from the property: the previous text of the row is removed, its current text is added
pub open spec fn expected_ops(index: bool, stored_rowid: Option<i64>, new_rowid: i64, old_text: Option<Seq<char>>, new_text: Option<Seq<char>>) -> Seq<FtsOp> {
    if !index { Seq::<FtsOp>::empty() }
    else {
        let rowid = match stored_rowid { Some(id) => id, None => new_rowid };
        let del = if stored_rowid is Some && old_text is Some { seq![FtsOp::Delete(rowid, old_text->Some_0)] } else { Seq::<FtsOp>::empty() };
        let ins = if new_text is Some { seq![FtsOp::Insert(rowid, new_text->Some_0)] } else { Seq::<FtsOp>::empty() };
        del + ins
    }
}

//@ extract src/database/node.rs :: impl Node / fn write
//@ result r
//@ rewrite E10 "static UPDATE_FTS_QUERY: &str" => "const UPDATE_FTS_QUERY: &'static str" x1
//@ insert body-start
        let ghost mut ops: Seq<FtsOp> = Seq::empty();
        let ghost stored = self._local_id;
        let ghost mut assigned: i64 = 0;
//@ insert after-stmt "delete_fts_stmt.execute((id, previous))?;"
                    proof { ops = ops.push(FtsOp::Delete(id, previous@)); }
//@ insert after-stmt "insert_fts_stmt.execute((id, current))?;"
                    proof { ops = ops.push(FtsOp::Insert(id, current@)); }
//@ insert after-stmt "self._local_id = Some(rowid);"
            proof { assigned = rowid; }
//@ insert after-stmt "insert_fts_stmt.execute((rowid, current))?;"
                    proof { ops = ops.push(FtsOp::Insert(rowid, current@)); }
//@ insert before-stmt "Ok(())"
        // [index_holds_the_current_text_only] a successful write with indexing on removes the row's previous text from the index (when the row was stored and had one) and adds its current text (when it has one), under the row's storage slot; with indexing off the index is not touched
        assert(ops =~= expected_ops(index, stored, assigned, ov_str(*old_fts_str), ov_str(*node_fts_str)));
//@ end

//@ extract src/database/node.rs :: impl Writeable for NodeToInsert / fn write
//@ end

// ---- the local mutation path: what it hands to Node::write (src/database/mutation_query.rs, the block of get_mutate_query that
// finishes a row that IS written; lifted by rule E9).  The text of the previous version is recorded earlier in that function
// (not under contract); here: the row that is written carries its current content and the text of that content.
pub struct Error { x: u8 }
pub mod serde_json {
    use vstd::prelude::*;
    pub struct Error { x: u8 }
    pub struct Value { x: u8 }
    /// the serialisation of a JSON value (uninterpreted)
    pub uninterp spec fn spec_to_string(v: Value) -> Seq<char>;
    #[verifier::external_body]
    pub fn to_string(v: &Value) -> (r: Result<String, Error>) ensures r is Ok ==> r->Ok_0@ == spec_to_string(*v) { unimplemented!() }
}
impl From<serde_json::Error> for Error { #[verifier::external_body] fn from(e: serde_json::Error) -> Error { unimplemented!() } }
/// the text the full-text index holds for a JSON content (node::extract_json: appends it to the buffer)
pub uninterp spec fn spec_text(v: serde_json::Value) -> Seq<char>;
#[verifier::external_body]
pub fn extract_json(v: &serde_json::Value, buff: &mut String) -> (r: std::result::Result<(), Error>)
    ensures r is Ok, final(buff)@ == old(buff)@ + spec_text(*v)      // ASSUMED (by inspection of node::extract_json: every arm returns Ok): it never fails; delete_from_index ignores its result
{ unimplemented!() }
pub struct MutationQuery { x: u8 }

//@ extract src/database/mutation_query.rs :: struct NodeToMutate
//@ end
// `node` is `&mut node_to_mutate.node`'s content in the enclosing function: a field disjoint from every other field the block
// touches (the borrow checker guarantees it there); in the lifted function it is a separate parameter
//@ extract src/database/mutation_query.rs :: impl MutationQuery / fn get_mutate_query as MutationQuery::lifted_written_row
//@ lift "else if let Some(node) = &mut node_to_mutate.node {" :: fn lifted_written_row(node: &mut Node, node_to_mutate: &mut NodeToMutate, json: serde_json::Value, date: i64) -> (r: std::result::Result<(), Error>) tail "Ok(())"
//@ spec
        ensures
            // [written_row_is_handed_to_the_index_with_its_current_text] a row that the local mutation path writes carries its current content, the operation's date, and - whatever the previous text was - the text of that current content for the index (Node::write removes the previous text and adds this one)
            r is Ok ==> final(node)._json is Some && final(node)._json->Some_0@ == serde_json::spec_to_string(json)
                && final(node).mdate == date
                && final(node_to_mutate).node_fts_str is Some && final(node_to_mutate).node_fts_str->Some_0@ == spec_text(json),
            // [previous_text_and_index_flag_left_alone] the text recorded for the previous version and the entity's indexing flag are not touched here
            final(node_to_mutate).old_fts_str == old(node_to_mutate).old_fts_str && final(node_to_mutate).enable_full_text == old(node_to_mutate).enable_full_text,
//@ end

// ---- deletions: the text of a deleted row leaves the index with the row (src/database/node.rs: Node::delete_from_index, called by
// Node::delete - local deletions - and NodeDeletionEntry::delete_all - deletion records received from a peer).  _node_fts is
// keyed by the storage slot (rowid), which SQLite reuses: postings left behind would match the next row stored in that slot.
// WHICH rows the SELECT returns (the rows about to be deleted that are in the index: `EXISTS (SELECT 1 FROM _node_fts ..)`) is SQL
// and is NOT decided; decided: for every row it returns, one 'delete' of exactly the text of the stored content, under that slot,
// and the callers do it before they delete the row.
pub mod rusqlite_rows {
    use vstd::prelude::*;
    /// one row of a result set: its columns are whatever `get` decodes (uninterpreted per column and type)
    pub struct RowData { x: u8 }
    pub uninterp spec fn spec_col<T>(d: RowData, idx: usize) -> T;
    pub struct Row { d: RowData }
    impl Row {
        pub closed spec fn data(&self) -> RowData { self.d }
        #[verifier::external_body]
        pub fn get<T>(&self, idx: usize) -> (r: std::result::Result<T, super::rusqlite::Error>) ensures r is Ok ==> r->Ok_0 == spec_col::<T>(self.data(), idx) { unimplemented!() }
    }
    /// a result set: an arbitrary finite sequence of rows, consumed from the front; reading may fail at any point
    pub struct Rows { x: u8 }
    impl Rows {
        pub uninterp spec fn rem(&self) -> Seq<RowData>;
        #[verifier::external_body]
        pub fn next(&mut self) -> (r: std::result::Result<Option<Row>, super::rusqlite::Error>)
            ensures match r {
                Ok(Some(row)) => old(self).rem().len() > 0 && row.data() == old(self).rem()[0] && final(self).rem() == old(self).rem().skip(1),
                Ok(None) => old(self).rem().len() == 0 && final(self).rem() == old(self).rem(),
                Err(_) => true,
            }
        { unimplemented!() }
    }
}
use rusqlite_rows::*;
impl Statement {
    #[verifier::external_body]
    pub fn query<P>(&mut self, p: P) -> (r: std::result::Result<Rows, rusqlite::Error>) { unimplemented!() }
}
pub type Value = serde_json::Value;
/// whether a stored content parses, and the tree it denotes (serde_json::from_str::<Value>: uninterpreted)
pub uninterp spec fn spec_json_ok(s: Seq<char>) -> bool;
pub uninterp spec fn spec_json_parse(s: Seq<char>) -> serde_json::Value;
#[verifier::external_body]
pub fn json_from_str(s: &String) -> (r: std::result::Result<serde_json::Value, serde_json::Error>)
    ensures r is Ok <==> spec_json_ok(s@), r is Ok ==> r->Ok_0 == spec_json_parse(s@)
{ unimplemented!() }
/// the 'delete' a selected row must get: under its slot, with the text of its stored content ("" when it has none); a content that does not parse (cannot happen for a stored row) is left alone
pub open spec fn delete_of(d: RowData) -> Option<FtsOp> {
    let json = spec_col::<Option<String>>(d, 1);
    let rowid = spec_col::<i64>(d, 0);
    match json {
        None => Some(FtsOp::Delete(rowid, Seq::<char>::empty())),
        Some(j) => if spec_json_ok(j@) { Some(FtsOp::Delete(rowid, spec_text(spec_json_parse(j@)))) } else { None },
    }
}
pub open spec fn deletes_of(s: Seq<RowData>) -> Seq<FtsOp> decreases s.len() {
    if s.len() == 0 { Seq::<FtsOp>::empty() } else {
        match delete_of(s[0]) { Some(op) => seq![op] + deletes_of(s.skip(1)), None => deletes_of(s.skip(1)) }
    }
}
pub open spec fn ops_of(v: Seq<(i64, String)>) -> Seq<FtsOp> { v.map_values(|e: (i64, String)| FtsOp::Delete(e.0, e.1@)) }

//@ extract src/database/node.rs :: impl Node / fn delete_from_index
//@ result r
//@ attr #[verifier::loop_isolation(false)]
//@ attr #[verifier::exec_allows_no_decreases_clause]
//@ rewrite E3 "impl rusqlite::Params" => "impl Sized" x1
//@ rewrite E3 "serde_json::from_str::<Value>\(&json\)" => "json_from_str(&json)" x1
//@ insert after-stmt "let mut rows = select_stmt.query(params)?;"
        let ghost rows0 = rows.rem();
        let ghost mut ops: Seq<FtsOp> = Seq::empty();
        let ghost mut cur = rows0;
//@ loop "while let Some(row) = rows.next()?"
            invariant cur == rows.rem(), ops_of(indexed@) + deletes_of(cur) =~= deletes_of(rows0),
//@ insert before-stmt "let json: Option<String> = row.get(1)?;"
            proof { assert(cur.len() > 0 && row.data() == cur[0] && rows.rem() == cur.skip(1)); }
//@ insert before-stmt "continue;"
                    proof { assert(delete_of(cur[0]) is None); cur = rows.rem(); }
//@ insert after-stmt "indexed.push((row.get(0)?, text));"
            proof {
                let n = indexed@.len() - 1;
                assert(indexed@.subrange(0, n as int) =~= indexed@.drop_last());
                assert(ops_of(indexed@) =~= ops_of(indexed@.drop_last()).push(FtsOp::Delete(indexed@[n as int].0, indexed@[n as int].1@)));
                assert(delete_of(cur[0]) == Some(FtsOp::Delete(indexed@[n as int].0, indexed@[n as int].1@)));
                cur = rows.rem();
            }
//@ insert before-stmt "let mut delete_fts_stmt = conn.prepare_cached("
        assert(ops_of(indexed@) =~= deletes_of(rows0));
        let ghost todo = indexed@;
//@ loop "for (rowid, text) in indexed" iter itd
            invariant itd.seq() == todo, ops =~= ops_of(todo.subrange(0, itd.index@ as int)),
//@ insert after-stmt "delete_fts_stmt.execute((rowid, text))?;"
            proof { ops = ops.push(FtsOp::Delete(rowid, text@)); }
//@ insert before-stmt "Ok(())"
        // [deleted_rows_text_leaves_the_index] for every row the selection returns (the rows about to be deleted that are in the index), exactly one 'delete' is issued, under the row's storage slot and with the text of its stored content: the same extraction that was used when the text was inserted
        assert(ops =~= deletes_of(rows0));
//@ end

//@ extract src/database/node.rs :: impl Node / fn delete
//@ result r
//@ insert body-start
        let ghost mut index_cleaned = false;
//@ insert after-stmt "Self::delete_from_index("
        proof { index_cleaned = true; }
//@ insert before-stmt "delete_stmt.execute([id])?;"
        // [local_deletion_cleans_the_index_first] a row deleted through the API leaves the index (delete_from_index: every stored row of that id that is indexed) before the row itself is deleted, in the same transaction
        assert(index_cleaned);
//@ end

//@ extract src/database/node.rs :: struct NodeDeletionEntry
//@ end
pub struct DailyMutations { x: u8 }
impl DailyMutations {
    #[verifier::external_body]
    pub fn set_need_update(&mut self, room: Uid, entity: &String, mut_date: i64) { unimplemented!() }   // under contract in u5_marks
}
impl NodeDeletionEntry {
    /// stores the deletion record (Writeable::write: SQL)
    #[verifier::external_body]
    pub fn write(&mut self, conn: &Connection) -> (r: std::result::Result<(), rusqlite::Error>) ensures *final(self) == *old(self) { unimplemented!() }
}
//@ extract src/database/node.rs :: impl NodeDeletionEntry / fn delete_all
//@ result r
//@ attr #[verifier::loop_isolation(false)]
//@ rewrite E17 "(?<=for node in )nodes(?= \{)" => "nodes.iter_mut()" x1
//@ insert body-start
        let ghost mut cleaned_upto: int = 0;
        let ghost mut deleted_upto: int = 0;
//@ loop "for node in" iter it
            invariant cleaned_upto == it.index@, deleted_upto == it.index@,
//@ insert after-stmt "Node::delete_from_index("
            proof { cleaned_upto = cleaned_upto + 1; }
//@ insert before-stmt "stmt.execute((node.room_id, node.id))?;"
            // [received_deletion_cleans_the_index_first] for every deletion record applied from a peer, the row it deletes leaves the index (delete_from_index, for that room and id) before the row itself is deleted, in the same transaction
            assert(cleaned_upto == deleted_upto + 1);
//@ insert after-stmt "stmt.execute((node.room_id, node.id))?;"
            proof { deleted_upto = deleted_upto + 1; }
//@ end
} // verus!
fn main() {}
