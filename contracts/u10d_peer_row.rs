//@ unit u10d_peer_row props C06 also C19
// Unit U10d: what makes a sys.Peer row acceptable (src/database/system_entities.rs: Peer::validate).  The handshake
// (LocalPeerService::initialise_connection, unit u10_handshake) stores the peer row of an identity answer on the strength of this
// function ALONE - no signature verification service runs between it and add_peer_nodes - so the check that the row's signature
// verifies belongs to the function's contract.  Node::verify (digest over every signed field, signature by the stated key) is under
// contract in unit u4_digests; "the signature verified" is a fact only its contract establishes.
#![allow(unused_imports, unused_variables, dead_code, unused_mut, non_snake_case)]
use vstd::prelude::*;
use std::collections::{HashMap, HashSet, VecDeque};   // the std collections a change to the extracted code may reach for
verus! {
pub type Uid = [u8; 16];
pub enum Error { InvalidPeerNode(String), InvalidJsonObject(String), Other(u8) }
#[verifier::external_body]
pub fn fmt_stub() -> (r: String) { unimplemented!() }
// E33: `s.eq(CONST)` with `s: String`, `CONST: &str` -> this stub with the semantics of std's `impl PartialEq<&str> for String`
#[verifier::external_body]
pub fn str_is(s: &String, c: &str) -> (r: bool) ensures r == (s@ == c@) { unimplemented!() }
//@ extract src/database/system_entities.rs :: const PEER_ENT_SHORT
//@ end
//@ extract src/database/node.rs :: struct Node
//@ end
/// the row's signature verified under the key the row states, over the digest of all its signed fields (Node::verify, unit u4_digests)
pub uninterp spec fn row_signature_verified(n: Node) -> bool;
impl Node {
    #[verifier::external_body]
    pub fn verify(&self) -> (r: std::result::Result<(), Error>) ensures r is Ok ==> row_signature_verified(*self) { unimplemented!() }
}
pub struct Peer { x: u8 }
impl Peer {
    /// decodes the meeting public key out of the row's JSON (serde_json: not modelled)
    #[verifier::external_body]
    pub fn pub_key(peer: &Node) -> (r: std::result::Result<Vec<u8>, Error>) { unimplemented!() }
}
//@ extract src/database/system_entities.rs :: impl Peer / fn validate
//@ result r
//@ rewrite E16 "\"[A-Za-z ]+\"\.to_string\(\)" => "fmt_stub()" x*
//@ rewrite E33 "peer\._entity\.eq\(PEER_ENT_SHORT\)" => "str_is(&peer._entity, PEER_ENT_SHORT)" x1
//@ spec
        ensures
            // [peer_row_accepted_only_with_a_verified_signature]{C06,C19} a peer row is accepted - and, in the handshake, stored and later served to other peers - only if it is a row of no room, of the peer entity, whose signature verifies under the key it states
            r is Ok ==> peer.room_id is None && peer._entity@ == PEER_ENT_SHORT@ && row_signature_verified(*peer),
//@ end
} // verus!
fn main() {}
