//@ unit u2c_deletion_build props C01 C12 also C09 C11
// Unit U2c: how a deletion submitted through the API is prepared (src/database/deletion.rs: DeletionQuery::build, the body of
// its loop over the entities of the request, rule E14).  What validate_deletion (unit u2_verdicts) decides rests on what this
// function records: for every reference it removes, the author and the room of the reference's SOURCE ROW and the date the row
// is re-dated to; and the source row is re-dated (and later re-signed) only when a reference is really removed.
// The rows and references themselves come from SQL reads (stubs: whatever the database returns for that id / entity).
#![allow(unused_imports, unused_variables, dead_code, unused_mut, non_snake_case)]
use vstd::prelude::*;
use std::collections::{HashMap, HashSet, VecDeque};   // the std collections a change to the extracted code may reach for
verus! {
pub type Uid = [u8; 16];
pub struct Error { x: u8 }
pub type Result<T> = std::result::Result<T, Error>;
pub mod rusqlite { pub struct Error { x: u8 } pub struct Connection { x: u8 } }
pub struct SecError { x: u8 }
impl From<rusqlite::Error> for Error { #[verifier::external_body] fn from(e: rusqlite::Error) -> Error { unimplemented!() } }
impl From<SecError> for Error { #[verifier::external_body] fn from(e: SecError) -> Error { unimplemented!() } }
pub uninterp spec fn spec_uid(base64: Seq<char>) -> Uid;
#[verifier::external_body]
pub fn uid_decode(base64: &String) -> (r: std::result::Result<Uid, SecError>) ensures r is Ok ==> r->Ok_0 == spec_uid(base64@) { unimplemented!() }
/// query parameters: opaque.  E8 cut of an expression: `parameters.params.get(&k).unwrap().as_string().unwrap()` -> `param_string(parameters, &k)`.
/// ASSUMED: `validate_params` (called first by build) guarantees that every parameter the parsed deletion names is present as a string.
pub struct Parameters { x: u8 }
pub uninterp spec fn spec_param(p: Parameters, k: Seq<char>) -> String;
#[verifier::external_body]
pub fn param_string<'a>(p: &'a Parameters, k: &String) -> (r: &'a String) ensures *r == spec_param(*p, k@) { unimplemented!() }

//@ extract src/database/node.rs :: struct Node
//@ end
//@ extract src/database/edge.rs :: struct Edge
//@ end
//@ extract src/database/node.rs :: struct NodeDeletionEntry
//@ end
//@ extract src/database/edge.rs :: struct EdgeDeletionEntry
//@ end
//@ extract src/database/deletion.rs :: struct NodeDelete
//@ end
//@ extract src/database/deletion.rs :: struct EdgeDelete
//@ end
//@ extract src/database/deletion.rs :: struct DeletionQuery
//@ end
//@ extract src/database/query_language/deletion_parser.rs :: struct EntityDeletion
//@ end
//@ extract src/database/query_language/deletion_parser.rs :: struct ReferenceDeletion
//@ end
impl Clone for Node {
    #[verifier::external_body]
    fn clone(&self) -> (r: Node) ensures r == *self { unimplemented!() }   // #[derive(Clone)]
}
/// what the database holds: the row with this id and entity, the reference (source, field, target) - whatever SQLite returns
pub uninterp spec fn stored_row(id: Uid, entity: Seq<char>) -> Option<Node>;
pub uninterp spec fn stored_edge(src: Uid, label: Seq<char>, dest: Uid) -> Option<Edge>;
impl Node {
    #[verifier::external_body]
    pub fn get_with_entity(id: &Uid, entity: &String, conn: &rusqlite::Connection) -> (r: std::result::Result<Option<Box<Node>>, rusqlite::Error>)
        ensures r is Ok ==> (match r->Ok_0 { Some(n) => Some(*n), None => None }) == stored_row(*id, entity@),
                // ASSUMED of the SELECT (`WHERE id = ? AND _entity = ?`): the row returned has the id asked for
                r is Ok && r->Ok_0 is Some ==> r->Ok_0->Some_0.id == *id
    { unimplemented!() }
}
impl Edge {
    #[verifier::external_body]
    pub fn get(src: &Uid, label: &String, dest: &Uid, conn: &rusqlite::Connection) -> (r: Result<Option<Box<Edge>>>)
        ensures r is Ok ==> (match r->Ok_0 { Some(e) => Some(*e), None => None }) == stored_edge(*src, label@, *dest),
                // ASSUMED of the SELECT (`WHERE src = ? AND label = ? AND dest = ?`)
                r is Ok && r->Ok_0 is Some ==> r->Ok_0->Some_0.src == *src && r->Ok_0->Some_0.dest == *dest
    { unimplemented!() }
}

//@ include common/deletion_spec.rs

pub open spec fn is_prefix<T>(a: Seq<T>, b: Seq<T>) -> bool { a.len() <= b.len() && b.subrange(0, a.len() as int) =~= a }
/// the id the request names for this entity
pub open spec fn src_of(del: EntityDeletion, p: Parameters) -> Uid { spec_uid(spec_param(p, del.id_param@)@) }

//@ extract src/database/deletion.rs :: impl DeletionQuery / fn build as DeletionQuery::build_body
//@ lift-loop "for del in &deletion.deletions" :: fn build_body(del: &EntityDeletion, parameters: &mut Parameters, date: i64, deletion_query: &mut DeletionQuery, conn: &rusqlite::Connection) -> (r: Result<()>) tail "Ok(())"
//@ attr #[verifier::loop_isolation(false)]
//@ rewrite E8 "(?s)parameters\s*\.params\s*\.get\(&([a-z_\.]+)\)\s*\.unwrap\(\)\s*\.as_string\(\)\s*\.unwrap\(\)" => "param_string(parameters, &\1)" x2
//@ insert body-start
            let ghost q0 = *deletion_query;
//@ loop "for edge_deletion in &del.references" iter ite
                        invariant
                            *parameters == *old(parameters),
                            src == src_of(*del, *parameters), stored_row(src, del.short_name@) == Some(*node), node.id == src,
                            deletion_query.nodes == q0.nodes, deletion_query.node_log == q0.node_log, deletion_query.edge_log == q0.edge_log,
                            deletion_query.updated_nodes == q0.updated_nodes, deletion_query.replaced_versions == q0.replaced_versions,
                            is_prefix(q0.edges@, deletion_query.edges@),
                            // [a_found_reference_is_remembered]{C01,C12,C11}
                            edge_found == (deletion_query.edges@.len() > q0.edges@.len()),
                            // [prepared_removals_record_the_source_row]{C01,C12}
                            forall|k: int| q0.edges@.len() <= k < deletion_query.edges@.len() ==> edge_of_row(#[trigger] deletion_query.edges@[k], *node, del.name@, date),
//@ spec
        ensures
            *final(parameters) == *old(parameters),
            // [prepared_deletion_only_grows] nothing already prepared is altered; no deletion record is produced here (validate_deletion signs them)
            final(deletion_query).node_log == old(deletion_query).node_log && final(deletion_query).edge_log == old(deletion_query).edge_log
                && is_prefix(old(deletion_query).nodes@, final(deletion_query).nodes@) && is_prefix(old(deletion_query).edges@, final(deletion_query).edges@)
                && is_prefix(old(deletion_query).updated_nodes@, final(deletion_query).updated_nodes@),
            // [removed_reference_records_its_source_row]{C01,C12} every reference removal prepared for this entity records the author and the room of the stored source row and the date the row is re-dated to: the fields on which validate_deletion decides the right to change that row
            r is Ok && final(deletion_query).edges@.len() > old(deletion_query).edges@.len() ==>
                stored_row(src_of(*del, *old(parameters)), del.short_name@) is Some
                && forall|k: int| old(deletion_query).edges@.len() <= k < final(deletion_query).edges@.len() ==>
                    edge_of_row(#[trigger] final(deletion_query).edges@[k], stored_row(src_of(*del, *old(parameters)), del.short_name@)->Some_0, del.name@, date),
            // [source_row_redated_only_with_a_removed_reference]{C01,C12} the source row is re-dated (and will be re-signed by the caller) only when a reference of it is really removed by this request, and it is that stored row, re-dated to the preparation date, nothing else changed
            r is Ok ==> final(deletion_query).updated_nodes@.len() <= old(deletion_query).updated_nodes@.len() + 1,
            r is Ok && final(deletion_query).updated_nodes@.len() > old(deletion_query).updated_nodes@.len() ==>
                final(deletion_query).edges@.len() > old(deletion_query).edges@.len()
                && stored_row(src_of(*del, *old(parameters)), del.short_name@) is Some
                && final(deletion_query).updated_nodes@.last() == (Node { mdate: date, ..stored_row(src_of(*del, *old(parameters)), del.short_name@)->Some_0 }),
            // [source_row_redated_whenever_a_reference_is_removed]{C11,C01} whenever a reference is prepared for removal - also when another reference named by the same request does not exist - the source row is re-dated (and re-signed): the re-dating is what keeps the deleted reference from being fetched again from a peer that has not seen the deletion (references travel with versions of their source row newer than the one stored)
            r is Ok && final(deletion_query).edges@.len() > old(deletion_query).edges@.len() ==> final(deletion_query).updated_nodes@.len() == old(deletion_query).updated_nodes@.len() + 1,
            // [no_replaced_version_without_a_redated_row]{C09} the bucket the re-dated source row LEAVES is recorded for the daily log: (room, entity, modification date) of the STORED version - not the date it is re-dated to -, exactly one record per re-dated row that belongs to a room, none otherwise
            r is Ok && final(deletion_query).updated_nodes@.len() == old(deletion_query).updated_nodes@.len() ==> final(deletion_query).replaced_versions@ == old(deletion_query).replaced_versions@,
            // [redated_row_records_the_day_it_leaves]{C09}
            r is Ok && final(deletion_query).updated_nodes@.len() > old(deletion_query).updated_nodes@.len() ==> ({
                let row = stored_row(src_of(*del, *old(parameters)), del.short_name@)->Some_0;
                match row.room_id {
                    Some(room) => final(deletion_query).replaced_versions@.len() == old(deletion_query).replaced_versions@.len() + 1
                        && is_prefix(old(deletion_query).replaced_versions@, final(deletion_query).replaced_versions@)
                        && final(deletion_query).replaced_versions@.last().0 == room
                        && final(deletion_query).replaced_versions@.last().1@ == row._entity@
                        && final(deletion_query).replaced_versions@.last().2 == row.mdate,
                    None => final(deletion_query).replaced_versions@ == old(deletion_query).replaced_versions@,
                }
            }),
            // [row_named_for_deletion_is_the_stored_row]{C01,C12} a row named for deletion is the stored row of that id and entity, under the entity name the rights are given on
            r is Ok && final(deletion_query).nodes@.len() > old(deletion_query).nodes@.len() ==>
                final(deletion_query).nodes@.len() == old(deletion_query).nodes@.len() + 1
                && Some(final(deletion_query).nodes@.last().node) == stored_row(src_of(*del, *old(parameters)), del.short_name@)
                && final(deletion_query).nodes@.last().name@ == del.name@,
//@ end
} // verus!
fn main() {}
