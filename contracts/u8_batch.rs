//@ unit u8_batch props C13 also C14 C18 C09
// Unit U8: the transaction protocol of the batch writer (src/database/sqlite_database.rs::process_batch_write).
// A ghost transaction state is woven at the BEGIN / ROLLBACK / COMMIT statements; every exit of the function is an
// obligation "no transaction is left open", and COMMIT is reached only after the daily-log marks were written.
// Durability after a crash, WAL behaviour and visibility to later readers are SQLite's and are NOT decided here.
#![allow(unused_imports, unused_variables, dead_code, unused_mut, non_snake_case)]
use vstd::prelude::*;
use std::collections::{HashMap, HashSet, VecDeque};   // the std collections a change to the extracted code may reach for
verus! {
pub type Uid = [u8; 16];
pub mod rusqlite {
    use vstd::prelude::*;
    pub struct Error { x: u8 }
    impl Error { #[verifier::external_body] pub fn to_string(&self) -> (r: String) { unimplemented!() } }
}
pub type Result<T> = std::result::Result<T, Error>;
pub enum Error { DatabaseWrite(String), ComputeDailyLog(String), Other() }
pub struct SendErr { x: u8 }
/// oneshot reply channel of a write request
pub struct Sender<T> { x: Option<T> }
impl<T> Sender<T> {
    #[verifier::external_body]
    pub fn send(self, t: T) -> (r: std::result::Result<(), SendErr>) { unimplemented!() }
}
pub mod mpsc {
    use vstd::prelude::*;
    pub struct Sender<T> { x: Option<T> }
    impl<T> Sender<T> {
        #[verifier::external_body]
        pub fn blocking_send(&self, t: T) -> (r: std::result::Result<(), super::SendErr>) { unimplemented!() }
    }
    pub struct Receiver<T> { x: Option<T> }
    impl<T> Receiver<T> {
        #[verifier::external_body]
        pub fn blocking_recv(&mut self) -> (r: Option<T>) { unimplemented!() }
    }
}
pub enum AuthorisationMessage {
    RoomMutationWrite(Result<()>, RoomMutationWriteQuery),
    RoomMutationStreamWrite(Result<()>, RoomMutationStreamWriteQuery),
    RoomNodeWrite(Result<()>, RoomNodeWriteQuery),
}
pub enum DbMessage { DailyLogComputed(Result<DailyLogsUpdate>) }

/// SQLite connection: opaque; execute may fail at any time
pub struct Connection { x: u8 }
impl Connection {
    #[verifier::external_body]
    pub fn execute(&self, sql: &str, params: [u8; 0]) -> (r: std::result::Result<usize, rusqlite::Error>) { unimplemented!() }
}
pub struct DailyMutations { x: u8 }
/// the (room, entity, day) buckets a request marks for recomputation (what they are is decided in unit u5_marks)
pub uninterp spec fn own_marks<T>(t: T) -> Set<int>;
impl DailyMutations {
    /// the buckets gathered so far
    pub uninterp spec fn marks(&self) -> Set<int>;
    #[verifier::external_body]
    pub fn default() -> (r: DailyMutations) { unimplemented!() }
    /// a successful write stored the marks gathered so far (a fact only this contract establishes)
    #[verifier::external_body]
    pub fn write(&self, conn: &Connection) -> (r: std::result::Result<(), rusqlite::Error>) ensures r is Ok ==> marks_stored(*self) { unimplemented!() }
}
pub uninterp spec fn marks_stored(d: DailyMutations) -> bool;
// payloads of a batch: every write may fail; marking never fails
macro_rules! payload {
    ($name:ident) => {
        verus! {
        pub struct $name { x: u8 }
        impl $name {
            #[verifier::external_body]
            pub fn write(&mut self, conn: &Connection) -> (r: std::result::Result<(), rusqlite::Error>) { unimplemented!() }
            #[verifier::external_body]
            pub fn update_daily_logs(&self, daily_log: &mut DailyMutations)
                ensures old(daily_log).marks().subset_of(final(daily_log).marks()), own_marks(*self).subset_of(final(daily_log).marks())
            { unimplemented!() }
        }
        }
    };
}
payload!(MutationQuery);
payload!(RoomMutationWriteQuery);
payload!(RoomMutationStreamWriteQuery);
payload!(RoomNodeWriteQuery);
payload!(NodeToInsert);
payload!(WriteStmt);
pub struct DeletionQuery { x: u8 }
impl DeletionQuery {
    #[verifier::external_body]
    pub fn delete(&mut self, conn: &Connection) -> (r: std::result::Result<(), rusqlite::Error>) { unimplemented!() }
    #[verifier::external_body]
    pub fn update_daily_logs(&self, daily_log: &mut DailyMutations)
        ensures old(daily_log).marks().subset_of(final(daily_log).marks()), own_marks(*self).subset_of(final(daily_log).marks())
    { unimplemented!() }
}
pub struct Edge { x: u8 }
impl Edge {
    #[verifier::external_body]
    pub fn write(&self, conn: &Connection) -> (r: std::result::Result<(), rusqlite::Error>) { unimplemented!() }
}
pub struct DailyLogsUpdate { x: u8 }
impl DailyLogsUpdate {
    #[verifier::external_body]
    pub fn compute(&mut self, conn: &Connection) -> (r: std::result::Result<(), rusqlite::Error>) { unimplemented!() }
}
pub struct EdgeDeletionEntry { x: u8 }
impl EdgeDeletionEntry {
    #[verifier::external_body]
    pub fn delete_all(edges: &mut Vec<EdgeDeletionEntry>, daily_log: &mut DailyMutations, conn: &Connection) -> (r: std::result::Result<(), rusqlite::Error>)
        ensures old(daily_log).marks().subset_of(final(daily_log).marks()), r is Ok ==> own_marks(*old(edges)).subset_of(final(daily_log).marks())
    { unimplemented!() }
}
pub struct NodeDeletionEntry { x: u8 }
impl NodeDeletionEntry {
    #[verifier::external_body]
    pub fn delete_all(nodes: &mut Vec<NodeDeletionEntry>, daily_log: &mut DailyMutations, conn: &Connection) -> (r: std::result::Result<(), rusqlite::Error>)
        ensures old(daily_log).marks().subset_of(final(daily_log).marks()), r is Ok ==> own_marks(*old(nodes)).subset_of(final(daily_log).marks())
    { unimplemented!() }
}

//@ extract src/database/sqlite_database.rs :: enum WriteMessage
//@ end

pub struct BufferedDatabaseWriter { x: u8 }

/// isolates an obligation: `if nondet(k) { assert(P); }` checks P without assuming it afterwards
pub uninterp spec fn nondet(k: int) -> bool;
/// ghost state of the connection's transaction, as driven by the statements of this function
pub struct Txn { pub open: bool, pub marks_written: bool, pub commits: nat, pub rollbacks: nat }

//@ extract src/database/sqlite_database.rs :: impl BufferedDatabaseWriter / fn process_batch_write
//@ attr #[verifier::loop_isolation(false)]
//@ rewrite E17 "(?<=for query in )buffer(?= \{)" => "buffer.iter_mut()" x1
//@ rewrite E17 "(?<=for nti in )node(?= \{)" => "node.iter_mut()" x1
//@ rewrite E17 "(?<=for edge in )edges(?= \{)" => "edges.iter_mut()" x1
//@ insert body-start
        let ghost mut txn = Txn { open: false, marks_written: false, commits: 0, rollbacks: 0 };
        let ghost mut needed: Set<int> = Set::empty();      // the buckets the requests of this batch have marked so far
// the buckets a request changes become NEEDED when its payload is written - not when it is marked: a request that is written and
// not marked afterwards leaves `needed` outside the gathered marks
//@ insert-each after-stmt "if let Err(e) = query.write(conn) {"
                    proof { needed = needed.union(own_marks(*query)); }
//@ insert after-stmt "if let Err(e) = query.delete(conn) {"
                    proof { needed = needed.union(own_marks(*query)); }
//@ insert after-stmt "if let Err(e) = nti.write(conn) {"
                        proof { needed = needed.union(own_marks(*nti)); }
//@ insert before-stmt "if let Err(e) = EdgeDeletionEntry::delete_all(edges, &mut daily_log, conn) {"
                    let ghost edges0 = *edges;
//@ insert after-stmt "if let Err(e) = EdgeDeletionEntry::delete_all(edges, &mut daily_log, conn) {"
                    proof { needed = needed.union(own_marks(edges0)); }
//@ insert before-stmt "if let Err(e) = NodeDeletionEntry::delete_all(nodes, &mut daily_log, conn) {"
                    let ghost nodes0 = *nodes;
//@ insert after-stmt "if let Err(e) = NodeDeletionEntry::delete_all(nodes, &mut daily_log, conn) {"
                    proof { needed = needed.union(own_marks(nodes0)); }
//@ insert-each before-stmt "daily_log.write(conn)"
        // [every_mark_of_the_batch_is_written]{C13,C18,C09} the marks written with the transaction include the buckets marked by every request of the batch: nothing gathered earlier in the batch is dropped on the way
        assert(needed.subset_of(daily_log.marks()));
//@ insert-each after-stmt "conn.execute(\"BEGIN TRANSACTION\", [])"
        proof { txn = Txn { open: true, ..txn }; }
//@ insert-each after-stmt "conn.execute(\"ROLLBACK\", [])"
                        proof { txn = Txn { open: false, rollbacks: txn.rollbacks + 1, ..txn }; }
//@ insert-each before-stmt "return Err(e);"
                        // [no_open_transaction_on_error_return]{C13,C14} every error return happens after the transaction was rolled back
                        assert(!txn.open && txn.commits == 0);
//@ insert-each before-stmt "?;" when-try unless "ROLLBACK"
        proof {
        // [no_exit_with_open_transaction]{C13,C14} a statement that can fail and return (`?`) is never executed while the transaction is open: the failure path would leave it open and every later batch would fail at BEGIN
        if nondet(1) { assert(!txn.open); }
        }
//@ insert after-stmt "daily_log.write(conn)"
        proof { txn = Txn { marks_written: true, ..txn }; }
//@ insert-each before-stmt "conn.execute(\"COMMIT\", [])"
        // [marks_before_commit] the marks that make the daily log recompute are written inside the transaction, before COMMIT
        assert(txn.open && txn.marks_written && txn.commits == 0 && txn.rollbacks == 0);
        // [marks_stored_before_commit]{C13,C18,C09} .. and their write SUCCEEDED: a failed write of the marks never leads to COMMIT
        assert(marks_stored(daily_log));
//@ insert-each after-stmt "conn.execute(\"COMMIT\", [])"
        proof { txn = Txn { open: false, commits: txn.commits + 1, ..txn }; }
//@ insert before-text "Ok(())"
        // [ok_means_exactly_one_commit] success is reported only after exactly one COMMIT, with no transaction left open
        assert(!txn.open && txn.commits == 1 && txn.rollbacks == 0 && txn.marks_written);
//@ loop "for query in buffer" iter itq
            invariant txn.open && !txn.marks_written && txn.commits == 0 && txn.rollbacks == 0, needed.subset_of(daily_log.marks()),
//@ loop "for nti in node" iter itn
                        invariant txn.open && !txn.marks_written && txn.commits == 0 && txn.rollbacks == 0, needed.subset_of(daily_log.marks()),
//@ loop "for edge in edges" iter ite
                        invariant txn.open && !txn.marks_written && txn.commits == 0 && txn.rollbacks == 0, needed.subset_of(daily_log.marks()),
//@ end

/// the verdict of the batch as the writer thread sees it
pub open spec fn is_ok<T>(r: std::result::Result<T, rusqlite::Error>) -> bool { r is Ok }

//@ extract src/database/sqlite_database.rs :: impl BufferedDatabaseWriter / fn start as BufferedDatabaseWriter::lifted_writer_thread
//@ lift "thread::spawn(move || {" :: fn lifted_writer_thread(receive_buffer0: mpsc::Receiver<Vec<WriteMessage>>, conn: Connection, send_ready: mpsc::Sender<bool>)
//@ attr #[verifier::exec_allows_no_decreases_clause]
//@ attr #[verifier::loop_isolation(false)]
//@ insert body-start
            let mut receive_buffer = receive_buffer0;   // E9: captured variable of the thread closure
//@ insert before-stmt "Self::process_batch_write("
                let ghost mut attempts: nat = 0;
//@ insert-each after-stmt "Self::process_batch_write("
                proof { attempts = attempts + 1; }
//@ insert before-stmt "match result {"
                // [batch_processed_exactly_once] a batch is handed to the transaction code exactly once: replaying it after a rollback is not idempotent (row ids assigned by the first attempt stay in the requests)
                assert(attempts == 1);
                let ghost committed = is_ok(result);
//@ insert-each before-stmt "r.send(Ok("
                                    // [ack_ok_only_after_commit] success is acknowledged only when the batch's transaction committed
                                    assert(committed);
//@ insert-each before-stmt "r.blocking_send(Ok("
                                    // [stream_ack_ok_only_after_commit]
                                    assert(committed);
//@ insert-each before-stmt "Ok(()),"
                                    // [room_ack_ok_only_after_commit]
                                    assert(committed);
//@ insert-each before-stmt "DbMessage::DailyLogComputed(Ok(q))"
                                    // [compute_ack_ok_only_after_commit]
                                    assert(committed);
//@ end
} // verus!
fn main() {}
