//@ unit u5b_recompute props C09 C03 also C18
// Unit U5b: the chained history digest (src/database/daily_log.rs, DailyLogsUpdate::compute).  "The daily log is a function of
// the stored content, nothing else": whatever rows the recomputation query returns, the history digest written for a day is the
// chain over the days of the SAME room and entity - started from the stored digest of the last clean day, or from the day's own
// digest when the room/entity has no earlier day - and does not depend on which other rooms, entities or days happen to be
// recomputed in the same pass; the entry count of a recomputed day is the number of rows the day's query returns and its digest is
// the hash over ALL their signatures, in the query's order; every day the first query returns is visited; what was computed is what
// the UPDATE statements are executed with, once per day.  The SQL (which rows are selected, what a day's rows are) is NOT modelled:
// the row streams are arbitrary sequences; blake3 is an uninterpreted function.
#![allow(unused_imports, unused_variables, dead_code, unused_mut, non_snake_case)]
use vstd::prelude::*;
use std::collections::{HashMap, HashSet, VecDeque};   // the std collections a change to the extracted code may reach for
use vstd::std_specs::cmp::PartialEqSpec;
verus! {
broadcast use vstd::laws_eq::group_laws_eq;
pub type Uid = [u8; 16];
pub mod rusqlite { pub struct Error { x: u8 } }
pub mod blake3 {
    use vstd::prelude::*;
    pub struct Hasher { buf: Vec<u8> }
    pub struct Hash { h: [u8; 32] }
    pub uninterp spec fn spec_h(s: Seq<u8>) -> Hash;
    pub uninterp spec fn hash_bytes(h: Hash) -> Seq<u8>;
    impl Hasher {
        pub uninterp spec fn fed(&self) -> Seq<u8>;
        #[verifier::external_body]
        pub fn new() -> (r: Hasher) ensures r.fed() == Seq::<u8>::empty() { unimplemented!() }
        #[verifier::external_body]
        pub fn update(&mut self, input: &Vec<u8>) -> (r: &mut Hasher)
            ensures final(self).fed() == old(self).fed() + input@
        { unimplemented!() }
        #[verifier::external_body]
        pub fn finalize(&self) -> (r: Hash) ensures r == spec_h(self.fed()) { unimplemented!() }
        /// number of bytes fed so far
        #[verifier::external_body]
        pub fn count(&self) -> (r: u64) ensures r == 0 <==> self.fed().len() == 0 { unimplemented!() }
    }
    impl Hash {
        #[verifier::external_body]
        pub fn as_bytes(&self) -> (r: &[u8; 32]) ensures r@ == hash_bytes(*self) { unimplemented!() }
    }
}
pub assume_specification<T: Clone>[ <[T]>::to_vec ](s: &[T]) -> (r: Vec<T>) ensures r@ == s@;
pub fn drop<T>(_x: T) {}
#[verifier::external_body]
pub fn fmt_stub() -> (r: String) { unimplemented!() }
#[verifier::external_body]
pub fn date_next_day(date: i64) -> (r: i64) { unimplemented!() }

/// one row of a result set: its columns are whatever `get` decodes (uninterpreted per column and type)
pub struct RowData { x: u8 }
pub uninterp spec fn spec_col<T>(d: RowData, idx: usize) -> T;
pub struct Row { d: RowData }
impl Row {
    pub closed spec fn data(&self) -> RowData { self.d }
    #[verifier::external_body]
    pub fn get<T>(&self, idx: usize) -> (r: std::result::Result<T, rusqlite::Error>) ensures r is Ok ==> r->Ok_0 == spec_col::<T>(self.data(), idx) { unimplemented!() }
}
/// a result set: an arbitrary finite sequence of rows, consumed from the front; reading may fail at any point
pub struct Rows { x: u8 }
impl Rows {
    pub uninterp spec fn rem(&self) -> Seq<RowData>;
    #[verifier::external_body]
    pub fn next(&mut self) -> (r: std::result::Result<Option<Row>, rusqlite::Error>)
        ensures match r {
            Ok(Some(row)) => old(self).rem().len() > 0 && row.data() == old(self).rem()[0] && final(self).rem() == old(self).rem().skip(1),
            Ok(None) => old(self).rem().len() == 0 && final(self).rem() == old(self).rem(),
            Err(_) => true,
        }
    { unimplemented!() }
}
/// what a statement was executed with: the bound parameter tuple, uninterpreted
pub struct PV { x: u8 }
pub uninterp spec fn pv<P>(p: P) -> PV;
pub struct Statement { x: u8 }
impl Statement {
    /// the parameter tuples this prepared statement was executed with so far, in order: a fact only `execute` adds to
    pub uninterp spec fn log(&self) -> Seq<PV>;
    /// machine arithmetic: a result set has fewer than 2^32 rows (entry_number is a u32 counter)
    #[verifier::external_body]
    pub fn query<P>(&mut self, p: P) -> (r: std::result::Result<Rows, rusqlite::Error>) ensures final(self).log() == old(self).log(), r is Ok ==> r->Ok_0.rem().len() < u32::MAX && no_zero_room(r->Ok_0.rem())     // ASSUMED: no room has the all-zero identifier (the loop's sentinel for "no previous row"; ids are 16 random bytes)
    { unimplemented!() }
    #[verifier::external_body]
    pub fn execute<P>(&mut self, p: P) -> (r: std::result::Result<usize, rusqlite::Error>) ensures r is Ok ==> final(self).log() == old(self).log().push(pv(p)) { unimplemented!() }
}
pub struct Connection { x: u8 }
impl Connection {
    #[verifier::external_body]
    pub fn prepare_cached(&self, q: &str) -> (r: std::result::Result<Statement, rusqlite::Error>) ensures r is Ok ==> r->Ok_0.log() == Seq::<PV>::empty() { unimplemented!() }
}
//@ extract src/database/daily_log.rs :: struct DailyLog
//@ end
pub struct DailyLogsUpdate { x: u8 }
impl DailyLogsUpdate {
    #[verifier::external_body]
    pub fn add_log(&mut self, log: DailyLog) { unimplemented!() }
}

// ---------------------------------------------------------------- the chain, from the property
pub open spec fn ov(o: Option<Vec<u8>>) -> Option<Seq<u8>> { match o { Some(v) => Some(v@), None => None } }
/// a day as the recomputation leaves it: its room, entity, whether it was recomputed in this pass, its digest after the pass,
/// and the history digest that was stored before the pass
pub struct Day { pub room: Uid, pub entity: Seq<char>, pub dirty: bool, pub daily: Option<Seq<u8>>, pub stored_hist: Option<Seq<u8>> }
pub open spec fn same_group(a: Day, b: Day) -> bool { a.room =~= b.room && a.entity =~= b.entity }
/// history(n) = H(history(n-1) ++ daily(n-1)); a day without rows contributes nothing
pub open spec fn link(prev_hist: Seq<u8>, prev_daily: Option<Seq<u8>>) -> Seq<u8> {
    blake3::hash_bytes(blake3::spec_h(prev_hist + (match prev_daily { Some(d) => d, None => Seq::<u8>::empty() })))
}
/// the history digest of day k of the pass: it looks at the days of the same room and entity only
pub open spec fn expected_hist(s: Seq<Day>, k: int) -> Option<Seq<u8>>
    decreases k
{
    if k < 0 || k >= s.len() { None }
    else if k == 0 || !same_group(s[k - 1], s[k]) {
        // first day of its room and entity in the pass: the last clean day keeps its stored digest; a recomputed first day starts the chain
        if s[k].dirty { s[k].daily } else { s[k].stored_hist }
    } else {
        match expected_hist(s, k - 1) {
            Some(p) => Some(link(p, s[k - 1].daily)),
            None => if s[k].dirty { None } else { s[k].stored_hist },
        }
    }
}
pub open spec fn is_zero(u: Uid) -> bool { forall|i: int| 0 <= i < 16 ==> u@[i] == 0u8 }
pub open spec fn no_zero_room(rows: Seq<RowData>) -> bool { forall|i: int| 0 <= i < rows.len() ==> !is_zero(spec_col::<Uid>(#[trigger] rows[i], 0)) }
pub open spec fn rooms_not_zero(logs: Seq<(Uid, String, i64, bool, Option<Vec<u8>>, Option<Vec<u8>>)>) -> bool { forall|i: int| 0 <= i < logs.len() ==> !is_zero((#[trigger] logs[i]).0) }
pub proof fn lemma_expected_prefix(s: Seq<Day>, x: Day, k: int)
    requires 0 <= k < s.len(),
    ensures expected_hist(s.push(x), k) == expected_hist(s, k),
    decreases k
{
    assert(s.push(x)[k] == s[k]);
    if k > 0 {
        assert(s.push(x)[k - 1] == s[k - 1]);
        lemma_expected_prefix(s, x, k - 1);
    }
}

/// the bytes a day's digest is taken over: the signatures of the rows the day's query returns, in the order it returns them
pub open spec fn sig_concat(rows: Seq<RowData>) -> Seq<u8>
    decreases rows.len()
{
    if rows.len() == 0 { Seq::<u8>::empty() } else { spec_col::<Vec<u8>>(rows[0], 0)@ + sig_concat(rows.skip(1)) }
}
/// the digest of a day, from the property: none for a day without rows, else the hash over every signature
pub open spec fn day_digest(rows: Seq<RowData>) -> Option<Seq<u8>> {
    if sig_concat(rows).len() == 0 { None } else { Some(blake3::hash_bytes(blake3::spec_h(sig_concat(rows)))) }
}
pub broadcast proof fn lemma_concat_assoc(a: Seq<u8>, b: Seq<u8>, c: Seq<u8>)
    ensures #[trigger] ((a + b) + c) == a + (b + c),
{ assert(((a + b) + c) =~= a + (b + c)); }
/// one line of the days to visit, as read from its row
pub open spec fn day_of_row(d: RowData) -> (Uid, String, i64, bool, Option<Vec<u8>>, Option<Vec<u8>>) {
    (spec_col::<Uid>(d, 0), spec_col::<String>(d, 1), spec_col::<i64>(d, 2), spec_col::<bool>(d, 3), spec_col::<Option<Vec<u8>>>(d, 4), spec_col::<Option<Vec<u8>>>(d, 5))
}

//@ extract src/database/daily_log.rs :: impl DailyLogsUpdate / fn compute
//@ result r
//@ attr #[verifier::exec_allows_no_decreases_clause]
//@ attr #[verifier::loop_isolation(false)]
//@ rewrite E22 "daily_log_stmt\.query\(\[\]\)" => "daily_log_stmt.query(())" x1
//@ rewrite E16 "\"-\"\.to_string\(\)" => "fmt_stub()" x1
//@ insert body-start
        let ghost mut seen: Seq<Day> = Seq::empty();
        let ghost mut reported: Seq<(Uid, Seq<char>, i64)> = Seq::empty();
        let ghost mut computed_writes: Seq<PV> = Seq::empty();
        let ghost mut history_writes: Seq<PV> = Seq::empty();
        broadcast use lemma_concat_assoc;
//@ insert after-stmt "self.add_log(DailyLog {"
                proof { reported = reported.push((room, entity@, date)); }
        proof { assert(<[u8; 16] as PartialEqSpec<[u8; 16]>>::obeys_eq_spec()); }
//@ insert before-stmt "while let Some(row) = rows.next()?"
        let ghost all_days = rows.rem();
//@ loop "while let Some(row) = rows.next()?"
            invariant no_zero_room(rows.rem()), rooms_not_zero(logs@),
                // [every_day_the_query_returns_is_visited_so_far]{C09} the days to visit are the lines the query returned, all of them, in order
                logs@.len() + rows.rem().len() == all_days.len(),
                rows.rem() =~= all_days.skip(logs@.len() as int),
                forall|i: int| 0 <= i < logs@.len() ==> #[trigger] logs@[i] == day_of_row(all_days[i]),
//@ insert after-stmt "let mut previous_room: Uid = [0; 16];"
        assert(is_zero(previous_room));
//@ loop "for (room, entity, date, need_recompute, daily_hash, history_hash) in logs" iter it
            invariant
                rooms_not_zero(it.seq()),
                seen.len() == it.index@,
                // [every_day_the_query_returns_is_visited]{C09} the pass visits one day per line of the query, none dropped
                it.seq().len() == all_days.len(),
                // [every_recomputed_day_is_written_so_far]{C09} the statement that stores a recomputed day was executed once per recomputed day, with what was computed for it
                update_computed_stmt.log() == computed_writes,
                // [every_rechained_day_is_written_so_far]{C09} the statement that stores a re-chained history was executed once per re-chained day
                update_history_stmt.log() == history_writes,
                seen.len() == 0 ==> is_zero(previous_room),
                seen.len() > 0 ==> previous_room == seen.last().room && previous_entity@ == seen.last().entity
                    && ov(previous_hash) == seen.last().daily && ov(previous_history) == expected_hist(seen, seen.len() - 1),
//@ insert after-stmt "let mut comp_rows ="
                let ghost day_rows = comp_rows.rem();
//@ insert after-stmt "let signature: Vec<u8> = comp.get(0)?;"
                    proof { assert(sig_concat(rem_before) == signature@ + sig_concat(comp_rows.rem())); }
//@ insert before-stmt "let signature: Vec<u8> = comp.get(0)?;"
                    let ghost rem_before = seq![comp.data()] + comp_rows.rem();
                    proof { assert(rem_before.skip(1) =~= comp_rows.rem()); }
//@ loop "while let Some(comp) = comp_rows.next()?"
                    invariant entry_number + comp_rows.rem().len() < u32::MAX,
                        update_computed_stmt.log() == computed_writes, update_history_stmt.log() == history_writes,
                        // [every_row_of_the_day_is_counted_so_far]{C09}
                        entry_number + comp_rows.rem().len() == day_rows.len(),
                        // [every_signature_of_the_day_is_hashed_so_far]{C09} the digest is fed the signature of every row the day's query returns, in order
                        hasher.fed() + sig_concat(comp_rows.rem()) == sig_concat(day_rows),
//@ insert before-stmt "if !need_recompute {"
            let ghost k = seen.len() as int;
            let ghost g_room = room;
            let ghost g_entity = entity@;
            let ghost clean_day = Day { room: room, entity: entity@, dirty: false, daily: ov(daily_hash), stored_hist: ov(history_hash) };
            proof { if k > 0 { lemma_expected_prefix(seen, clean_day, k - 1); } }
//@ insert-each after-stmt "hasher.update(previous);"
                        proof { assert(previous@ + Seq::<u8>::empty() =~= previous@); }
//@ insert after-stmt "let hash = hasher.finalize().as_bytes().to_vec();" #1
                        // [rechained_history_is_the_chain_of_its_own_room_and_entity] a clean day that follows a recomputed one gets the chain over the days of its own room and entity
                        assert(Some(hash@) == expected_hist(seen.push(clean_day), k));
                        proof { history_writes = history_writes.push(pv((&hash, &room, &entity, date))); }
//@ insert after-stmt "previous_entity = entity;" #1
                proof {
                    // [history_carried_from_the_last_clean_day] after a day that is not recomputed, the chain continues from that day's history - its stored one when it is the first day of its room and entity in the pass
                    assert(ov(previous_history) == expected_hist(seen.push(clean_day), k));
                    seen = seen.push(clean_day);
                }
//@ insert after-stmt "let daily_hash = if hasher.count() == 0 {"
                let ghost dirty_day = Day { room: g_room, entity: g_entity, dirty: true, daily: ov(daily_hash), stored_hist: clean_day.stored_hist };
                proof { if k > 0 { lemma_expected_prefix(seen, dirty_day, k - 1); } }
//@ insert after-stmt "let history_hash = if previous_room.eq(&room) && previous_entity.eq(&entity) {"
                // [recomputed_history_is_the_chain_of_its_own_room_and_entity] the history digest written for a recomputed day is the chain over the days of the same room and entity (started by the day's own digest when there is no earlier day), whatever other rooms and entities are in the pass
                assert(ov(history_hash) == expected_hist(seen.push(dirty_day), k));
                // [recomputed_day_counts_and_hashes_every_stored_row_of_the_day]{C09} what is computed for a day is a function of the rows the day's query returns, nothing else: the entry count is their number and the digest is the hash over all their signatures (none for a day without rows)
                assert(entry_number == day_rows.len() && ov(daily_hash) == day_digest(day_rows));
                proof { computed_writes = computed_writes.push(pv((entry_number, &daily_hash, &history_hash, &room, &entity, date))); }
//@ insert after-stmt "previous_entity = entity;" #2
                proof { seen = seen.push(dirty_day); }
                // [every_recomputed_day_is_reported_for_the_data_changed_event]{C18} every (room, entity, day) that was recomputed - also a day that became empty - is handed to the log update from which the data-changed event is built
                assert(reported.len() > 0 && reported.last() == (g_room, g_entity, date));
//@ end
} // verus!
fn main() {}
