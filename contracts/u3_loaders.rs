//@ unit u3_loaders props C10
// Unit U3a: the reload path of room definitions (src/database/room.rs load_*_from_json, *_from_json).
// The three construction paths of a room (live mutation, reload after restart, import from a peer) all fold the same
// add_* mutators (unit u1_room) over entry lists; what is decided here is that the reload / live JSON decoders hand those
// mutators exactly the decoded entries, in array order, with rights normalised the same way on every path, so that every
// group they build satisfies the representation invariant the decision functions are specified on.
#![feature(allocator_api)]
#![allow(unused_imports, unused_variables, dead_code, unused_mut, non_snake_case)]
use vstd::prelude::*;
use vstd::std_specs::iter::IteratorSpec;
use vstd::std_specs::hash::*;
use vstd::std_specs::cmp::PartialEqSpec;
use std::alloc::Allocator;
use std::collections::{HashMap, HashSet};
verus! {
broadcast use {vstd::laws_eq::group_laws_eq, vstd::std_specs::hash::group_hash_axioms, trusted_keys::group_trusted_keys, trusted_b64::axiom_key_of_chars};
pub type Uid = [u8; 16];
pub struct SecError { x: u8 }
pub enum Error {
    AuthorisationExists(), InvalidUserDate(), InvalidRightDate(),
    InvalidJsonObject(String), MissingJsonField(String), InvalidNode(String), Json(serde_json::Error), Cryptography(SecError),
}
pub type Result<T> = std::result::Result<T, Error>;
impl From<serde_json::Error> for Error {
    #[verifier::external_body]
    fn from(e: serde_json::Error) -> Error { unimplemented!() }
}
impl From<SecError> for Error {
    #[verifier::external_body]
    fn from(e: SecError) -> Error { unimplemented!() }
}
#[verifier::external_body]
pub fn fmt_stub() -> (r: String) { unimplemented!() }
#[verifier::external_body]
pub fn uid_decode(base64: &str) -> (r: std::result::Result<Uid, SecError>) ensures r is Ok ==> r->Ok_0 == spec_uid(base64@) { unimplemented!() }
pub uninterp spec fn spec_uid(base64: Seq<char>) -> Uid;
#[verifier::external_body]
pub fn base64_decode(data: &[u8]) -> (r: std::result::Result<Vec<u8>, SecError>) ensures r is Ok ==> r->Ok_0@ == spec_b64(data@) { unimplemented!() }
pub mod trusted_b64 {
    use vstd::prelude::*;
    use vstd::string::StringSliceAdditionalSpecFns;
    pub uninterp spec fn spec_b64(data: Seq<u8>) -> Seq<u8>;
        /// the key bytes a base64 text denotes (the UTF-8 bytes of a str are determined by its characters)
    pub uninterp spec fn key_of_chars(c: Seq<char>) -> Seq<u8>;
    #[verifier::external_body]
    pub broadcast proof fn axiom_key_of_chars(s: &str) ensures #[trigger] spec_b64(s.spec_bytes()) == key_of_chars(s@) {}
}
pub use trusted_b64::{spec_b64, key_of_chars};

// ---------------------------------------------------------------- serde_json: an uninterpreted JSON tree
pub mod serde_json {
    use vstd::prelude::*;
    pub struct Error { x: u8 }
    pub struct Value { x: u8 }
    pub struct JsonMap { x: u8 }
    impl Value {
        pub uninterp spec fn s_obj(&self) -> Option<JsonMap>;
        pub uninterp spec fn s_str(&self) -> Option<Seq<char>>;
        pub uninterp spec fn s_i64(&self) -> Option<i64>;
        pub uninterp spec fn s_bool(&self) -> Option<bool>;
        pub uninterp spec fn s_arr(&self) -> Option<Seq<Value>>;
        #[verifier::external_body]
        pub fn as_object(&self) -> (r: Option<&JsonMap>) ensures (match r { Some(m) => Some(*m), None => None }) == self.s_obj() { unimplemented!() }
        #[verifier::external_body]
        pub fn as_str(&self) -> (r: Option<&str>) ensures (match r { Some(s) => Some(s@), None => None }) == self.s_str() { unimplemented!() }
        #[verifier::external_body]
        pub fn as_i64(&self) -> (r: Option<i64>) ensures r == self.s_i64() { unimplemented!() }
        #[verifier::external_body]
        pub fn as_bool(&self) -> (r: Option<bool>) ensures r == self.s_bool() { unimplemented!() }
        #[verifier::external_body]
        pub fn as_array(&self) -> (r: Option<&Vec<Value>>) ensures (match r { Some(v) => Some(v@), None => None }) == self.s_arr() { unimplemented!() }
    }
    impl JsonMap {
        pub uninterp spec fn s_get(&self, k: Seq<char>) -> Option<Value>;
        #[verifier::external_body]
        pub fn get(&self, k: &str) -> (r: Option<&Value>) ensures (match r { Some(v) => Some(*v), None => None }) == self.s_get(k@) { unimplemented!() }
    }
    /// the JSON tree denoted by a text (uninterpreted: the same function on every path that decodes a stored row)
    pub uninterp spec fn spec_json_parse(s: Seq<char>) -> Value;
    #[verifier::external_body]
    pub fn from_str(s: &str) -> (r: Result<Value, Error>) ensures r is Ok ==> r->Ok_0 == spec_json_parse(s@) { unimplemented!() }
}
pub mod system_entities {
//@ extract src/database/system_entities.rs :: const ID_FIELD
//@ end
//@ extract src/database/system_entities.rs :: const MODIFICATION_DATE_FIELD
//@ end
//@ extract src/database/system_entities.rs :: const AUTH_RIGHTS_FIELD
//@ end
//@ extract src/database/system_entities.rs :: const AUTH_USER_FIELD
//@ end
//@ extract src/database/system_entities.rs :: const AUTH_USER_ADMIN_FIELD
//@ end
//@ extract src/database/system_entities.rs :: const USER_VERIFYING_KEY_SHORT
//@ end
//@ extract src/database/system_entities.rs :: const USER_ENABLED_SHORT
//@ end
//@ extract src/database/system_entities.rs :: const RIGHT_ENTITY_SHORT
//@ end
//@ extract src/database/system_entities.rs :: const RIGHT_MUTATE_SELF_SHORT
//@ end
//@ extract src/database/system_entities.rs :: const RIGHT_MUTATE_ALL_SHORT
//@ end
//@ extract src/database/system_entities.rs :: const ROOM_ENT
//@ end
//@ extract src/database/system_entities.rs :: const ROOM_ADMIN_FIELD
//@ end
//@ extract src/database/system_entities.rs :: const ROOM_AUTHORISATION_FIELD
//@ end
}
use system_entities::*;

//@ extract src/database/room.rs :: const WILDCARD_ENTITY
//@ end
//@ extract src/database/room.rs :: struct Room
//@ end
//@ extract src/database/room.rs :: struct Authorisation
//@ end
//@ extract src/database/room.rs :: struct User
//@ end
//@ extract src/database/room.rs :: struct EntityRight
//@ end
//@ extract src/database/room.rs :: enum RightType
//@ end
//@ include common/room_spec.rs

// unit u1_room, by contract only
//@ use-contract u1_room.rs :: EntityRight::new
//@ use-contract u1_room.rs :: Authorisation::add_user
//@ use-contract u1_room.rs :: Authorisation::add_user_admin
//@ use-contract u1_room.rs :: Authorisation::add_right
//@ use-contract u1_room.rs :: Room::add_admin_user
//@ use-contract u1_room.rs :: Room::add_auth

// ---------------------------------------------------------------- representation invariant of a group
pub closed spec fn users_wf(m: Map<Vec<u8>, Vec<User>>) -> bool { forall|k: Vec<u8>| #[trigger] m.contains_key(k) ==> users_sorted(m[k]@) }
pub closed spec fn rights_wf(m: Map<String, Vec<EntityRight>>) -> bool {
    forall|k: String| #[trigger] m.contains_key(k) ==> rights_sorted(m[k]@) && (forall|i: int| 0 <= i < m[k]@.len() ==> right_normalised(#[trigger] m[k]@[i]))
}
/// every history list of the group is date-ordered and every right is normalised (all-rows implies own-rows)
pub closed spec fn auth_wf(a: Authorisation) -> bool { users_wf(a.users@) && users_wf(a.user_admins@) && rights_wf(a.rights@) }

/// the entry is in the history of its key / of its entity
pub closed spec fn listed_user(m: Map<Vec<u8>, Vec<User>>, u: User) -> bool { m.contains_key(u.verifying_key) && m[u.verifying_key]@.contains(u) }
pub closed spec fn listed_right(m: Map<String, Vec<EntityRight>>, e: EntityRight) -> bool { m.contains_key(e.entity) && m[e.entity]@.contains(e) }
/// what load_user_from_json decodes from one element of the stored array (its postcondition)
pub open spec fn reloaded_user(v: serde_json::Value, u: User) -> bool {
    Some(u.date) == v.s_obj()->Some_0.s_get(MODIFICATION_DATE_FIELD@)->Some_0.s_i64() && Some(u.enabled) == v.s_obj()->Some_0.s_get("enabled"@)->Some_0.s_bool()
}
/// the stored array element was decoded and its entry is in the map (the `exists` is hidden in a spec function: nested under a
/// `forall` in a loop invariant it is not re-established at loop exit, DESIGN section 10)
pub open spec fn entry_reloaded(v: serde_json::Value, m: Map<Vec<u8>, Vec<User>>) -> bool { exists|u: User| reloaded_user(v, u) && listed_user(m, u) }
/// the first `n` stored entries are reloaded into `m`
pub open spec fn prefix_reloaded(arr: Seq<serde_json::Value>, n: int, m: Map<Vec<u8>, Vec<User>>) -> bool {
    forall|i: int| 0 <= i < n ==> #[trigger] entry_reloaded(arr[i], m)
}
/// what the reload decodes from one element of the stored rights array: date, entity and flags of the stored right, normalised
pub open spec fn reloaded_right(v: serde_json::Value, e: EntityRight) -> bool {
    let m = v.s_obj()->Some_0;
    Some(er_valid_from(e)) == m.s_get("mdate"@)->Some_0.s_i64() && Some(er_entity(e)@) == m.s_get("entity"@)->Some_0.s_str()
    && Some(er_all(e)) == m.s_get("mutate_all"@)->Some_0.s_bool()
    && m.s_get("mutate_self"@)->Some_0.s_bool() is Some && er_self(e) == (m.s_get("mutate_self"@)->Some_0.s_bool()->Some_0 || er_all(e))
}
pub open spec fn right_reloaded(v: serde_json::Value, m: Map<String, Vec<EntityRight>>) -> bool { exists|e: EntityRight| reloaded_right(v, e) && listed_right(m, e) }
pub open spec fn prefix_rights_reloaded(arr: Seq<serde_json::Value>, n: int, m: Map<String, Vec<EntityRight>>) -> bool { forall|i: int| 0 <= i < n ==> #[trigger] right_reloaded(arr[i], m) }
broadcast proof fn lemma_prefix_rights_reloaded_step(arr: Seq<serde_json::Value>, n: int, old_m: Map<String, Vec<EntityRight>>, new_m: Map<String, Vec<EntityRight>>, right: EntityRight)
    requires #[trigger] rights_appended(old_m, new_m, right), #[trigger] prefix_rights_reloaded(arr, n, old_m), reloaded_right(arr[n], right),
    ensures prefix_rights_reloaded(arr, n + 1, new_m),
{
    lemma_rights_append_lists(old_m, new_m, right);
    assert forall|i: int| 0 <= i < n + 1 implies #[trigger] right_reloaded(arr[i], new_m) by {
        if i < n {
            assert(right_reloaded(arr[i], old_m));
            let e = choose|e: EntityRight| reloaded_right(arr[i], e) && listed_right(old_m, e);
            assert(listed_right(new_m, e));
        }
    }
}
/// no anchor in the loop bodies: this lemma fires on the loop invariant and on the postconditions of load_user_from_json and of the add_* mutators
broadcast proof fn lemma_prefix_reloaded_step(arr: Seq<serde_json::Value>, n: int, old_m: Map<Vec<u8>, Vec<User>>, new_m: Map<Vec<u8>, Vec<User>>, user: User)
    requires #[trigger] users_appended(old_m, new_m, user), #[trigger] prefix_reloaded(arr, n, old_m), reloaded_user(arr[n], user),
    ensures prefix_reloaded(arr, n + 1, new_m),
{
    lemma_users_append_lists(old_m, new_m, user);
    assert forall|i: int| 0 <= i < n + 1 implies #[trigger] entry_reloaded(arr[i], new_m) by {
        if i < n {
            assert(entry_reloaded(arr[i], old_m));
            let u = choose|u: User| reloaded_user(arr[i], u) && listed_user(old_m, u);
            assert(listed_user(new_m, u));
        }
    }
}
broadcast proof fn lemma_users_append_lists(old_m: Map<Vec<u8>, Vec<User>>, new_m: Map<Vec<u8>, Vec<User>>, user: User)
    requires #[trigger] users_appended(old_m, new_m, user),
    ensures listed_user(new_m, user), forall|v: User| #[trigger] listed_user(old_m, v) ==> listed_user(new_m, v),
{
    let n = new_m[user.verifying_key]@;
    let o = user_list(old_m, user.verifying_key);
    assert(n == o.push(user));
    assert(n[o.len() as int] == user);
    assert forall|v: User| #[trigger] listed_user(old_m, v) implies listed_user(new_m, v) by {
        if v.verifying_key == user.verifying_key {
            let j = choose|j: int| 0 <= j < o.len() && o[j] == v; assert(n[j] == v);
        } else { assert(old_m.contains_key(v.verifying_key)); }
    }
}
broadcast proof fn lemma_rights_append_lists(old_m: Map<String, Vec<EntityRight>>, new_m: Map<String, Vec<EntityRight>>, right: EntityRight)
    requires #[trigger] rights_appended(old_m, new_m, right),
    ensures listed_right(new_m, right), forall|v: EntityRight| #[trigger] listed_right(old_m, v) ==> listed_right(new_m, v),
{
    let n = new_m[right.entity]@;
    let o = right_list(old_m, right.entity);
    assert(n == o.push(right));
    assert(n[o.len() as int] == right);
    assert forall|v: EntityRight| #[trigger] listed_right(old_m, v) implies listed_right(new_m, v) by {
        if v.entity == right.entity {
            let j = choose|j: int| 0 <= j < o.len() && o[j] == v; assert(n[j] == v);
        } else { assert(old_m.contains_key(v.entity)); }
    }
}
broadcast proof fn lemma_users_append_wf(old_m: Map<Vec<u8>, Vec<User>>, new_m: Map<Vec<u8>, Vec<User>>, user: User)
    requires users_wf(old_m), #[trigger] users_appended(old_m, new_m, user), last_date_le(user_list(old_m, user.verifying_key), user.date),
    ensures users_wf(new_m),
{
    assert forall|k: Vec<u8>| #[trigger] new_m.contains_key(k) implies users_sorted(new_m[k]@) by {
        if k == user.verifying_key {
            let o = user_list(old_m, k);
            if old_m.contains_key(k) { assert(users_sorted(o)); }
            let n = new_m[k]@;
            assert(n == o.push(user));
            assert forall|i: int, j: int| 0 <= i <= j < n.len() implies n[i].date <= n[j].date by {
                if j < o.len() { assert(n[i] == o[i] && n[j] == o[j]); }
                else if i < o.len() { assert(n[i] == o[i]); assert(o[i].date <= o.last().date); }
            }
        } else {
            assert(old_m.contains_key(k) == new_m.contains_key(k));
            assert(old_m.contains_key(k) && old_m[k] == new_m[k]);
        }
    }
}
broadcast proof fn lemma_rights_append_wf(old_m: Map<String, Vec<EntityRight>>, new_m: Map<String, Vec<EntityRight>>, right: EntityRight)
    requires rights_wf(old_m), #[trigger] rights_appended(old_m, new_m, right), last_from_le(right_list(old_m, right.entity), right.valid_from), right_normalised(right),
    ensures rights_wf(new_m),
{
    assert forall|k: String| #[trigger] new_m.contains_key(k) implies rights_sorted(new_m[k]@) && (forall|i: int| 0 <= i < new_m[k]@.len() ==> right_normalised(#[trigger] new_m[k]@[i])) by {
        if k == right.entity {
            let o = right_list(old_m, k);
            if old_m.contains_key(k) { assert(rights_sorted(o)); }
            let n = new_m[k]@;
            assert(n == o.push(right));
            assert forall|i: int, j: int| 0 <= i <= j < n.len() implies n[i].valid_from <= n[j].valid_from by {
                if j < o.len() { assert(n[i] == o[i] && n[j] == o[j]); }
                else if i < o.len() { assert(n[i] == o[i]); assert(o[i].valid_from <= o.last().valid_from); }
            }
            assert forall|i: int| 0 <= i < n.len() implies right_normalised(#[trigger] n[i]) by {
                if i < o.len() { assert(n[i] == o[i]); }
            }
        } else {
            assert(old_m.contains_key(k) == new_m.contains_key(k));
            assert(old_m.contains_key(k) && old_m[k] == new_m[k]);
        }
    }
}

// ---------------------------------------------------------------- the JSON shape LOAD_QUERY produces (precondition of the reload path)
pub closed spec fn has_i64(m: serde_json::JsonMap, k: Seq<char>) -> bool { m.s_get(k) is Some && m.s_get(k)->Some_0.s_i64() is Some }
pub closed spec fn has_bool(m: serde_json::JsonMap, k: Seq<char>) -> bool { m.s_get(k) is Some && m.s_get(k)->Some_0.s_bool() is Some }
pub closed spec fn has_str(m: serde_json::JsonMap, k: Seq<char>) -> bool { m.s_get(k) is Some && m.s_get(k)->Some_0.s_str() is Some }
pub closed spec fn user_shape(v: serde_json::Value) -> bool {
    v.s_obj() is Some && has_i64(v.s_obj()->Some_0, MODIFICATION_DATE_FIELD@) && has_bool(v.s_obj()->Some_0, "enabled"@) && has_str(v.s_obj()->Some_0, "verif_key"@)
}
pub closed spec fn right_shape(v: serde_json::Value) -> bool {
    v.s_obj() is Some && has_i64(v.s_obj()->Some_0, "mdate"@) && has_str(v.s_obj()->Some_0, "entity"@)
    && has_bool(v.s_obj()->Some_0, "mutate_self"@) && has_bool(v.s_obj()->Some_0, "mutate_all"@)
}
pub closed spec fn all_user_shape(s: Seq<serde_json::Value>) -> bool { forall|i: int| 0 <= i < s.len() ==> user_shape(#[trigger] s[i]) }
pub closed spec fn all_right_shape(s: Seq<serde_json::Value>) -> bool { forall|i: int| 0 <= i < s.len() ==> right_shape(#[trigger] s[i]) }
pub closed spec fn arr_users(v: serde_json::Value) -> bool { v.s_arr() is Some ==> all_user_shape(v.s_arr()->Some_0) }
pub closed spec fn arr_rights(v: serde_json::Value) -> bool { v.s_arr() is Some ==> all_right_shape(v.s_arr()->Some_0) }
pub closed spec fn auth_shape(v: serde_json::Value) -> bool {
    v.s_obj() is Some ==> {
        let m = v.s_obj()->Some_0;
        has_str(m, ID_FIELD@) && has_i64(m, MODIFICATION_DATE_FIELD@)
        && m.s_get(AUTH_USER_FIELD@) is Some && arr_users(m.s_get(AUTH_USER_FIELD@)->Some_0)
        && m.s_get(AUTH_USER_ADMIN_FIELD@) is Some && arr_users(m.s_get(AUTH_USER_ADMIN_FIELD@)->Some_0)
        && m.s_get(AUTH_RIGHTS_FIELD@) is Some && arr_rights(m.s_get(AUTH_RIGHTS_FIELD@)->Some_0)
    }
}

//@ extract src/database/room.rs :: fn load_user_from_json
//@ result r
//@ spec
        requires user_shape(*user_value),
        ensures
            // [reload_user_fields] the reloaded entry carries the stored date and enabled flag
            r is Ok ==> reloaded_user(*user_value, r->Ok_0),
//@ end

//@ extract src/database/room.rs :: fn load_auth_from_json
//@ result r
//@ attr #[verifier::loop_isolation(false)]
//@ insert body-start
    broadcast use {lemma_users_append_wf, lemma_rights_append_wf, lemma_users_append_lists, lemma_rights_append_lists, lemma_prefix_reloaded_step, lemma_prefix_rights_reloaded_step};   // the representation invariant follows every add_* call, whatever the code around the call looks like
//@ insert before-stmt "let user_admin_array"
    let ghost users1 = authorisation.users;
    let ghost m0 = value.s_obj()->Some_0;
    assert(m0.s_get(AUTH_USER_FIELD@)->Some_0.s_arr() is Some ==> forall|i: int| 0 <= i < m0.s_get(AUTH_USER_FIELD@)->Some_0.s_arr()->Some_0.len() ==>
        #[trigger] entry_reloaded(m0.s_get(AUTH_USER_FIELD@)->Some_0.s_arr()->Some_0[i], users1@));
//@ insert before-stmt "let right_array"
    let ghost admins2 = authorisation.user_admins;
    assert(m0.s_get(AUTH_USER_ADMIN_FIELD@)->Some_0.s_arr() is Some ==> forall|i: int| 0 <= i < m0.s_get(AUTH_USER_ADMIN_FIELD@)->Some_0.s_arr()->Some_0.len() ==>
        #[trigger] entry_reloaded(m0.s_get(AUTH_USER_ADMIN_FIELD@)->Some_0.s_arr()->Some_0[i], admins2@));
//@ rewrite E16 "\"authorisation\"\.to_string\(\)" => "fmt_stub()" x1
//@ rewrite E16 "(?s)\.as_str\(\)\s*\.unwrap\(\)\s*\.to_string\(\);" => ".as_str().unwrap().to_string();" x1
//@ loop "for user_value in user_array" #1 iter it
            invariant auth_wf(authorisation), authorisation.id == id,
                all_user_shape(user_array@),
                it.seq().len() == user_array@.len(), forall|i: int| 0 <= i < it.seq().len() ==> *(#[trigger] it.seq()[i]) == user_array@[i],
                // [every_stored_user_entry_is_reloaded]{C10}
                prefix_reloaded(user_array@, it.index@ as int, authorisation.users@),
//@ loop "for user_value in user_admin_array" iter it
            invariant auth_wf(authorisation), authorisation.id == id,
                all_user_shape(user_admin_array@), authorisation.users == users1,
                it.seq().len() == user_admin_array@.len(), forall|i: int| 0 <= i < it.seq().len() ==> *(#[trigger] it.seq()[i]) == user_admin_array@[i],
                // [every_stored_user_admin_entry_is_reloaded]{C10}
                prefix_reloaded(user_admin_array@, it.index@ as int, authorisation.user_admins@),
//@ loop "for right_value in right_array" iter it
            invariant auth_wf(authorisation), authorisation.id == id,
                all_right_shape(right_array@), authorisation.users == users1, authorisation.user_admins == admins2,
                it.seq().len() == right_array@.len(), forall|i: int| 0 <= i < it.seq().len() ==> *(#[trigger] it.seq()[i]) == right_array@[i],
                // [every_stored_right_entry_is_reloaded]{C10}
                prefix_rights_reloaded(right_array@, it.index@ as int, authorisation.rights@),
//@ spec
        requires auth_shape(*value),
        ensures
            // [reloaded_group_well_formed]{C10} a group reloaded from storage satisfies the same representation invariant as one built live: every history list is date-ordered (entries are fed to add_* in stored order and refused otherwise) and every right is normalised
            r is Ok ==> auth_wf(r->Ok_0),
            // [every_stored_entry_is_in_the_reloaded_group]{C10} every user and user-admin entry of the stored arrays is in the reloaded group, under its key, as decoded: the reload feeds every stored entry to the same mutators the live path uses - none is skipped (the mutators keep the order)
            r is Ok ==> ({
                let m = value.s_obj()->Some_0;
                (m.s_get(AUTH_USER_FIELD@)->Some_0.s_arr() is Some ==> forall|i: int| 0 <= i < m.s_get(AUTH_USER_FIELD@)->Some_0.s_arr()->Some_0.len() ==>
                    #[trigger] entry_reloaded(m.s_get(AUTH_USER_FIELD@)->Some_0.s_arr()->Some_0[i], r->Ok_0.users@))
                && (m.s_get(AUTH_USER_ADMIN_FIELD@)->Some_0.s_arr() is Some ==> forall|i: int| 0 <= i < m.s_get(AUTH_USER_ADMIN_FIELD@)->Some_0.s_arr()->Some_0.len() ==>
                    #[trigger] entry_reloaded(m.s_get(AUTH_USER_ADMIN_FIELD@)->Some_0.s_arr()->Some_0[i], r->Ok_0.user_admins@))
                && (m.s_get(AUTH_RIGHTS_FIELD@)->Some_0.s_arr() is Some ==> forall|i: int| 0 <= i < m.s_get(AUTH_RIGHTS_FIELD@)->Some_0.s_arr()->Some_0.len() ==>
                    #[trigger] right_reloaded(m.s_get(AUTH_RIGHTS_FIELD@)->Some_0.s_arr()->Some_0[i], r->Ok_0.rights@))
            }),
//@ end

// ---------------------------------------------------------------- what a stored entry row (its JSON object, short field ids) denotes
pub closed spec fn row_obj(json: Seq<char>) -> Option<serde_json::JsonMap> { serde_json::spec_json_parse(json).s_obj() }
pub closed spec fn get_str(m: serde_json::JsonMap, k: Seq<char>) -> Option<Seq<char>> { match m.s_get(k) { Some(v) => v.s_str(), None => None } }
pub closed spec fn get_bool(m: serde_json::JsonMap, k: Seq<char>) -> Option<bool> { match m.s_get(k) { Some(v) => v.s_bool(), None => None } }
/// the right a stored sys.EntityRight row denotes, dated `valid_from`: entity, own-rows flag, all-rows flag - normalised (all-rows implies own-rows)
pub closed spec fn right_of_row(r: EntityRight, valid_from: i64, json: Seq<char>) -> bool {
    row_obj(json) is Some && ({
        let m = row_obj(json)->Some_0;
        get_str(m, RIGHT_ENTITY_SHORT@) is Some && get_bool(m, RIGHT_MUTATE_SELF_SHORT@) is Some && get_bool(m, RIGHT_MUTATE_ALL_SHORT@) is Some
        && er_valid_from(r) == valid_from && er_entity(r)@ == get_str(m, RIGHT_ENTITY_SHORT@)->Some_0
        && er_all(r) == get_bool(m, RIGHT_MUTATE_ALL_SHORT@)->Some_0
        && er_self(r) == (get_bool(m, RIGHT_MUTATE_SELF_SHORT@)->Some_0 || get_bool(m, RIGHT_MUTATE_ALL_SHORT@)->Some_0)
    })
}
/// the user entry a stored sys.UserAuth row denotes, dated `date`
pub closed spec fn user_of_row(u: User, date: i64, json: Seq<char>) -> bool {
    row_obj(json) is Some && ({
        let m = row_obj(json)->Some_0;
        get_str(m, USER_VERIFYING_KEY_SHORT@) is Some
        && u.date == date && u.verifying_key@ == key_of_chars(get_str(m, USER_VERIFYING_KEY_SHORT@)->Some_0)
        && u.enabled == (match m.s_get(USER_ENABLED_SHORT@) { Some(v) => match v.s_bool() { Some(b) => b, None => true }, None => true })
    })
}

//@ extract src/database/room.rs :: fn entity_right_from_json
//@ result r
//@ rewrite E16 "\"sys\.EntityRight[A-Za-z_.]*\"\.to_string\(\)" => "fmt_stub()" x*
//@ rewrite E3 "system_entities::" => "" x*
//@ spec
        ensures
            // [live_right_normalised]{C10} a right decoded on the live path is normalised and dated as given
            r is Ok ==> right_normalised(r->Ok_0) && er_valid_from(r->Ok_0) == valid_from,
            // [live_right_is_right_of_row]{C10} and is exactly the right the stored row denotes
            r is Ok ==> right_of_row(r->Ok_0, valid_from, json@),
//@ end

//@ extract src/database/room.rs :: fn user_from_json
//@ result r
//@ rewrite E16 "\"sys\.UserAuth[A-Za-z_.]*\"\.to_string\(\)" => "fmt_stub()" x*
//@ rewrite E3 "system_entities::" => "" x*
//@ spec
        ensures
            // [live_user_dated_as_given]{C10}
            r is Ok ==> r->Ok_0.date == date,
            // [live_user_is_user_of_row]{C10} the user entry decoded on the live path is exactly the one the stored row denotes
            r is Ok ==> user_of_row(r->Ok_0, date, json@),
//@ end

// ================================================================= import path: the same stored rows decoded by the room-definition importer
//@ extract src/database/node.rs :: struct Node
//@ end
//@ extract src/database/edge.rs :: struct Edge
//@ end
//@ extract src/database/room_node.rs :: struct UserNode
//@ end
//@ extract src/database/room_node.rs :: struct EntityRightNode
//@ end
//@ extract src/database/room_node.rs :: struct AuthorisationNode
//@ end
//@ extract src/database/room_node.rs :: struct RoomNode
//@ end
pub closed spec fn opt_json(o: Option<String>) -> Seq<char> { match o { Some(s) => s@, None => Seq::<char>::empty() } }

//@ extract src/database/room_node.rs :: impl EntityRightNode / fn parse
//@ result r
//@ rewrite E16 "(?s)\"Invalid EntityRight node[A-Za-z_: ]*\"\s*\.to_string\(\)" => "fmt_stub()" x*
//@ spec
        ensures
            // [import_right_is_right_of_row]{C10} the importer decodes a stored right row to exactly the right the live path decodes from it (same date, entity, flags, same normalisation)
            r is Ok ==> self.node._json is Some && right_of_row(r->Ok_0, self.node.mdate, opt_json(self.node._json)),
            r is Ok ==> right_normalised(r->Ok_0),
//@ end

//@ extract src/database/room_node.rs :: impl UserNode / fn parse
//@ result r
//@ rewrite E16 "(?s)\"Invalid UserNode[A-Za-z_:' ]*\"\s*\.to_string\(\)" => "fmt_stub()" x*
//@ spec
        ensures
            // [import_user_is_user_of_row]{C10} the importer decodes a stored user row to exactly the user entry the live path decodes from it
            r is Ok ==> self.node._json is Some && user_of_row(r->Ok_0, self.node.mdate, opt_json(self.node._json)),
//@ end


impl Authorisation {
    #[verifier::external_body]
    pub fn default() -> (r: Authorisation)
        ensures r.users@ == Map::<Vec<u8>, Vec<User>>::empty(), r.user_admins@ == Map::<Vec<u8>, Vec<User>>::empty(), r.rights@ == Map::<String, Vec<EntityRight>>::empty()
    { unimplemented!() }
}
impl Room {
    #[verifier::external_body]
    pub fn default() -> (r: Room) ensures r.admins@ == Map::<Vec<u8>, Vec<User>>::empty(), r.authorisations@ == Map::<Uid, Authorisation>::empty() { unimplemented!() }
}
/// every group of the room satisfies the group invariant and the admin list is date-ordered
pub closed spec fn room_wf(r: Room) -> bool {
    users_wf(r.admins@) && forall|id: Uid| #[trigger] r.authorisations@.contains_key(id) ==> auth_wf(r.authorisations@[id])
}


// ---- import path: every entry row of a received definition is in the parsed group / room (same anchor-free scheme as the reload path)
pub open spec fn user_node_imported(n: UserNode, m: Map<Vec<u8>, Vec<User>>) -> bool {
    exists|u: User| user_of_row(u, n.node.mdate, opt_json(n.node._json)) && listed_user(m, u)
}
pub open spec fn right_node_imported(n: EntityRightNode, m: Map<String, Vec<EntityRight>>) -> bool {
    exists|e: EntityRight| right_of_row(e, n.node.mdate, opt_json(n.node._json)) && listed_right(m, e)
}
pub open spec fn user_nodes_imported(nodes: Seq<UserNode>, n: int, m: Map<Vec<u8>, Vec<User>>) -> bool { forall|i: int| 0 <= i < n ==> #[trigger] user_node_imported(nodes[i], m) }
pub open spec fn right_nodes_imported(nodes: Seq<EntityRightNode>, n: int, m: Map<String, Vec<EntityRight>>) -> bool { forall|i: int| 0 <= i < n ==> #[trigger] right_node_imported(nodes[i], m) }
broadcast proof fn lemma_user_nodes_imported_step(nodes: Seq<UserNode>, n: int, old_m: Map<Vec<u8>, Vec<User>>, new_m: Map<Vec<u8>, Vec<User>>, user: User)
    requires #[trigger] users_appended(old_m, new_m, user), #[trigger] user_nodes_imported(nodes, n, old_m), user_of_row(user, nodes[n].node.mdate, opt_json(nodes[n].node._json)),
    ensures user_nodes_imported(nodes, n + 1, new_m),
{
    lemma_users_append_lists(old_m, new_m, user);
    assert forall|i: int| 0 <= i < n + 1 implies #[trigger] user_node_imported(nodes[i], new_m) by {
        if i < n {
            assert(user_node_imported(nodes[i], old_m));
            let u = choose|u: User| user_of_row(u, nodes[i].node.mdate, opt_json(nodes[i].node._json)) && listed_user(old_m, u);
            assert(listed_user(new_m, u));
        }
    }
}
broadcast proof fn lemma_right_nodes_imported_step(nodes: Seq<EntityRightNode>, n: int, old_m: Map<String, Vec<EntityRight>>, new_m: Map<String, Vec<EntityRight>>, right: EntityRight)
    requires #[trigger] rights_appended(old_m, new_m, right), #[trigger] right_nodes_imported(nodes, n, old_m), right_of_row(right, nodes[n].node.mdate, opt_json(nodes[n].node._json)),
    ensures right_nodes_imported(nodes, n + 1, new_m),
{
    lemma_rights_append_lists(old_m, new_m, right);
    assert forall|i: int| 0 <= i < n + 1 implies #[trigger] right_node_imported(nodes[i], new_m) by {
        if i < n {
            assert(right_node_imported(nodes[i], old_m));
            let e = choose|e: EntityRight| right_of_row(e, nodes[i].node.mdate, opt_json(nodes[i].node._json)) && listed_right(old_m, e);
            assert(listed_right(new_m, e));
        }
    }
}
//@ extract src/database/room_node.rs :: impl AuthorisationNode / fn parse
//@ result r
//@ attr #[verifier::loop_isolation(false)]
//@ rewrite E3 "\.\.Default::default\(\)" => "..Authorisation::default()" x1
//@ insert body-start
    broadcast use {lemma_users_append_wf, lemma_rights_append_wf, lemma_user_nodes_imported_step, lemma_right_nodes_imported_step};   // the representation invariant follows every add_* call, whatever the code around the call looks like
//@ loop "for right_node in &self.right_nodes" iter it
            invariant auth_wf(authorisation), authorisation.id == self.node.id,
                it.seq().len() == self.right_nodes@.len(), forall|i: int| 0 <= i < it.seq().len() ==> *(#[trigger] it.seq()[i]) == self.right_nodes@[i],
                // [every_right_row_is_imported]{C10,C07}
                right_nodes_imported(self.right_nodes@, it.index@ as int, authorisation.rights@),
//@ loop "for user_node in &self.user_nodes" iter it
            invariant auth_wf(authorisation), authorisation.id == self.node.id, authorisation.rights == rights1,
                it.seq().len() == self.user_nodes@.len(), forall|i: int| 0 <= i < it.seq().len() ==> *(#[trigger] it.seq()[i]) == self.user_nodes@[i],
                // [every_user_row_is_imported]{C10,C07}
                user_nodes_imported(self.user_nodes@, it.index@ as int, authorisation.users@),
//@ loop "for user in &self.user_admin_nodes" iter it
            invariant auth_wf(authorisation), authorisation.id == self.node.id, authorisation.rights == rights1, authorisation.users == users2,
                it.seq().len() == self.user_admin_nodes@.len(), forall|i: int| 0 <= i < it.seq().len() ==> *(#[trigger] it.seq()[i]) == self.user_admin_nodes@[i],
                // [every_user_admin_row_is_imported]{C10,C07}
                user_nodes_imported(self.user_admin_nodes@, it.index@ as int, authorisation.user_admins@),
//@ insert before-stmt "for user_node in &self.user_nodes"
        let ghost rights1 = authorisation.rights;
//@ insert before-stmt "for user in &self.user_admin_nodes"
        let ghost users2 = authorisation.users;
//@ spec
        ensures
            // [imported_group_well_formed]{C10} a group imported from a peer's definition satisfies the same representation invariant as one built live or reloaded: entries are fed to the same add_* mutators in list order, their refusal is propagated
            r is Ok ==> auth_wf(r->Ok_0) && r->Ok_0.id == self.node.id,
            // [every_entry_row_of_a_received_group_is_in_the_parsed_group]{C10,C07} every right, user and user-admin row of the received group is in the parsed group, under its entity / key, as the row decoder reads it: none is skipped, none lands in another list
            r is Ok ==> right_nodes_imported(self.right_nodes@, self.right_nodes@.len() as int, r->Ok_0.rights@)
                && user_nodes_imported(self.user_nodes@, self.user_nodes@.len() as int, r->Ok_0.users@)
                && user_nodes_imported(self.user_admin_nodes@, self.user_admin_nodes@.len() as int, r->Ok_0.user_admins@),
//@ end


/// the received group `n` is in the room's table under its id, with every one of its entry rows
pub open spec fn group_imported(n: AuthorisationNode, m: Map<Uid, Authorisation>) -> bool {
    m.contains_key(n.node.id)
    && right_nodes_imported(n.right_nodes@, n.right_nodes@.len() as int, m[n.node.id].rights@)
    && user_nodes_imported(n.user_nodes@, n.user_nodes@.len() as int, m[n.node.id].users@)
    && user_nodes_imported(n.user_admin_nodes@, n.user_admin_nodes@.len() as int, m[n.node.id].user_admins@)
}
pub open spec fn groups_imported(nodes: Seq<AuthorisationNode>, n: int, m: Map<Uid, Authorisation>) -> bool { forall|i: int| 0 <= i < n ==> #[trigger] group_imported(nodes[i], m) }
broadcast proof fn lemma_groups_imported_step(nodes: Seq<AuthorisationNode>, n: int, old_m: Map<Uid, Authorisation>, a: Authorisation)
    requires
        #[trigger] groups_imported(nodes, n, old_m), !old_m.contains_key(a.id), a.id == nodes[n].node.id,
        right_nodes_imported(nodes[n].right_nodes@, nodes[n].right_nodes@.len() as int, a.rights@),
        user_nodes_imported(nodes[n].user_nodes@, nodes[n].user_nodes@.len() as int, a.users@),
        user_nodes_imported(nodes[n].user_admin_nodes@, nodes[n].user_admin_nodes@.len() as int, a.user_admins@),
    ensures groups_imported(nodes, n + 1, #[trigger] old_m.insert(a.id, a)),
{
    let new_m = old_m.insert(a.id, a);
    assert forall|i: int| 0 <= i < n + 1 implies #[trigger] group_imported(nodes[i], new_m) by {
        if i < n { assert(group_imported(nodes[i], old_m)); assert(nodes[i].node.id != a.id); assert(new_m[nodes[i].node.id] == old_m[nodes[i].node.id]); }
        else { assert(new_m[a.id] == a); }
    }
}
//@ extract src/database/room_node.rs :: impl RoomNode / fn parse
//@ result r
//@ attr #[verifier::loop_isolation(false)]
//@ rewrite E3 "\.\.Default::default\(\)" => "..Room::default()" x1
//@ insert body-start
    broadcast use {lemma_users_append_wf, lemma_rights_append_wf, lemma_user_nodes_imported_step, lemma_groups_imported_step};   // the representation invariant follows every add_* call, whatever the code around the call looks like
//@ loop "for user in &self.admin_nodes" iter it
            invariant users_wf(room.admins@), room.id == self.node.id, room.authorisations@ == Map::<Uid, Authorisation>::empty(),
                it.seq().len() == self.admin_nodes@.len(), forall|i: int| 0 <= i < it.seq().len() ==> *(#[trigger] it.seq()[i]) == self.admin_nodes@[i],
                // [every_admin_row_is_imported]{C10,C07}
                user_nodes_imported(self.admin_nodes@, it.index@ as int, room.admins@),
//@ loop "for auth in &self.auth_nodes" iter it
            invariant room_wf(room), room.id == self.node.id, room.admins == admins1,
                it.seq().len() == self.auth_nodes@.len(), forall|i: int| 0 <= i < it.seq().len() ==> *(#[trigger] it.seq()[i]) == self.auth_nodes@[i],
                // [every_group_is_imported]{C10,C07}
                groups_imported(self.auth_nodes@, it.index@ as int, room.authorisations@),
//@ insert before-stmt "for auth in &self.auth_nodes"
        let ghost admins1 = room.admins;
//@ spec
        ensures
            // [imported_room_well_formed]{C10}
            r is Ok ==> room_wf(r->Ok_0) && r->Ok_0.id == self.node.id,
            // [every_entry_row_of_a_received_room_is_in_the_parsed_room]{C10,C07} every admin row is in the parsed room's admin history and every group, with every one of its entry rows, is in its table under the group's id
            r is Ok ==> user_nodes_imported(self.admin_nodes@, self.admin_nodes@.len() as int, r->Ok_0.admins@)
                && groups_imported(self.auth_nodes@, self.auth_nodes@.len() as int, r->Ok_0.authorisations@),
//@ end

//@ obligation L_live_and_import_decode_alike props C10 : the live decoder and the importer, applied to the same stored row and date, produce rights (user entries) with the same date, entity (key), flags: the decisions that depend on them are the same
pub proof fn L_live_and_import_decode_alike(a: EntityRight, b: EntityRight, d: i64, json: Seq<char>)
    requires right_of_row(a, d, json), right_of_row(b, d, json),
    ensures er_valid_from(a) == er_valid_from(b), er_entity(a)@ == er_entity(b)@, er_self(a) == er_self(b), er_all(a) == er_all(b),
{
}
// ================================================================= the room-level loop of the reload path (load_json)
//@ include common/keys.rs
//@ extract src/database/authorisation_service.rs :: struct RoomAuthorisations
//@ end
//@ use-contract u2_verdicts.rs :: RoomAuthorisations::add_room only add_room_view
/// each group of the room is stored under its own id
pub closed spec fn groups_keyed(r: Room) -> bool { forall|k: Uid| #[trigger] r.authorisations@.contains_key(k) ==> r.authorisations@[k].id == k }
/// representation invariant of the room table
pub closed spec fn table_wf(t: Map<Uid, Room>) -> bool { forall|k: Uid| #[trigger] t.contains_key(k) ==> room_wf(t[k]) && groups_keyed(t[k]) && t[k].id == k }
pub closed spec fn all_auth_shape(s: Seq<serde_json::Value>) -> bool { forall|i: int| 0 <= i < s.len() ==> auth_shape(#[trigger] s[i]) }
pub closed spec fn room_shape(v: serde_json::Value) -> bool {
    v.s_obj() is Some && ({
        let m = v.s_obj()->Some_0;
        has_str(m, ID_FIELD@) && has_i64(m, MODIFICATION_DATE_FIELD@)
        && m.s_get(ROOM_AUTHORISATION_FIELD@) is Some && m.s_get(ROOM_AUTHORISATION_FIELD@)->Some_0.s_arr() is Some && all_auth_shape(m.s_get(ROOM_AUTHORISATION_FIELD@)->Some_0.s_arr()->Some_0)
        && m.s_get(ROOM_ADMIN_FIELD@) is Some && m.s_get(ROOM_ADMIN_FIELD@)->Some_0.s_arr() is Some && all_user_shape(m.s_get(ROOM_ADMIN_FIELD@)->Some_0.s_arr()->Some_0)
    })
}
pub closed spec fn all_room_shape(s: Seq<serde_json::Value>) -> bool { forall|i: int| 0 <= i < s.len() ==> room_shape(#[trigger] s[i]) }
/// the JSON text LOAD_QUERY returns: an object whose sys.Room member is an array of rooms of the shape above
pub closed spec fn load_shape(text: Seq<char>) -> bool {
    let v = serde_json::spec_json_parse(text);
    v.s_obj() is Some && v.s_obj()->Some_0.s_get(ROOM_ENT@) is Some && v.s_obj()->Some_0.s_get(ROOM_ENT@)->Some_0.s_arr() is Some
        && all_room_shape(v.s_obj()->Some_0.s_get(ROOM_ENT@)->Some_0.s_arr()->Some_0)
}
pub closed spec fn stored_rooms(text: Seq<char>) -> Seq<serde_json::Value> { serde_json::spec_json_parse(text).s_obj()->Some_0.s_get(ROOM_ENT@)->Some_0.s_arr()->Some_0 }
pub closed spec fn stored_room_id(v: serde_json::Value) -> Uid { spec_uid(v.s_obj()->Some_0.s_get(ID_FIELD@)->Some_0.s_str()->Some_0) }

//@ extract src/database/authorisation_service.rs :: impl RoomAuthorisations / fn load_json
//@ result r
//@ attr #[verifier::loop_isolation(false)]
//@ insert body-start
    broadcast use {lemma_users_append_wf, lemma_rights_append_wf};   // the representation invariant follows every add_* call, whatever the code around the call looks like
//@ loop "for room_value in rooms" iter itr
            invariant
                table_wf(self.rooms@),
                forall|j: int| 0 <= j < itr.index@ ==> self.rooms@.contains_key(stored_room_id(#[trigger] rooms@[j])),
//@ loop "for auth_value in auth_array" iter ita
                invariant forall|k: Uid| #[trigger] authorisations@.contains_key(k) ==> auth_wf(authorisations@[k]) && authorisations@[k].id == k,
//@ insert before-stmt "let mut room = Room {"
            let ghost auths = authorisations@;
//@ loop "for value in admin_array" iter itu
                invariant room.id == id, room.authorisations@ == auths, users_wf(room.admins@),
//@ spec
        requires load_shape(result@), table_wf(old(self).rooms@),
        ensures
            // [reload_keeps_the_table_well_formed]{C10} every room installed by the reload satisfies the representation invariant the decision functions are specified on (date-ordered histories, normalised rights, each room and group under its own id)
            r is Ok ==> table_wf(final(self).rooms@),
            // [every_stored_room_is_reloaded]{C10} a successful reload installs every room of the stored definition
            r is Ok ==> forall|j: int| 0 <= j < stored_rooms(result@).len() ==> final(self).rooms@.contains_key(stored_room_id(#[trigger] stored_rooms(result@)[j])),
//@ end

} // verus!
fn main() {}
