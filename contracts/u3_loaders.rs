//@ unit u3_loaders props C10
// Unit U3a: the reload path of room definitions (src/database/room.rs load_*_from_json, *_from_json).
// The three construction paths of a room (live mutation, reload after restart, import from a peer) all fold the same
// add_* mutators (unit u1_room) over entry lists; what is decided here is that the reload / live JSON decoders hand those
// mutators exactly the decoded entries, in array order, with rights normalised the same way on every path, so that every
// group they build satisfies the representation invariant the decision functions are specified on.
#![feature(allocator_api)]
#![allow(unused_imports, unused_variables, dead_code, unused_mut, non_snake_case)]
use vstd::prelude::*;
use vstd::std_specs::iter::IteratorSpec;
use vstd::std_specs::hash::*;
use vstd::std_specs::cmp::PartialEqSpec;
use std::alloc::Allocator;
use std::collections::{HashMap, HashSet};
verus! {
broadcast use {vstd::laws_eq::group_laws_eq, vstd::std_specs::hash::group_hash_axioms, trusted_keys::group_trusted_keys};
pub type Uid = [u8; 16];
pub struct SecError { x: u8 }
pub enum Error {
    AuthorisationExists(), InvalidUserDate(), InvalidRightDate(),
    InvalidJsonObject(String), MissingJsonField(String), Json(serde_json::Error), Cryptography(SecError),
}
pub type Result<T> = std::result::Result<T, Error>;
impl From<serde_json::Error> for Error {
    #[verifier::external_body]
    fn from(e: serde_json::Error) -> Error { unimplemented!() }
}
impl From<SecError> for Error {
    #[verifier::external_body]
    fn from(e: SecError) -> Error { unimplemented!() }
}
#[verifier::external_body]
pub fn fmt_stub() -> (r: String) { unimplemented!() }
#[verifier::external_body]
pub fn uid_decode(base64: &str) -> (r: std::result::Result<Uid, SecError>) { unimplemented!() }
#[verifier::external_body]
pub fn base64_decode(data: &[u8]) -> (r: std::result::Result<Vec<u8>, SecError>) { unimplemented!() }

// ---------------------------------------------------------------- serde_json: an uninterpreted JSON tree
pub mod serde_json {
    use vstd::prelude::*;
    pub struct Error { x: u8 }
    pub struct Value { x: u8 }
    pub struct JsonMap { x: u8 }
    impl Value {
        pub uninterp spec fn s_obj(&self) -> Option<JsonMap>;
        pub uninterp spec fn s_str(&self) -> Option<Seq<char>>;
        pub uninterp spec fn s_i64(&self) -> Option<i64>;
        pub uninterp spec fn s_bool(&self) -> Option<bool>;
        pub uninterp spec fn s_arr(&self) -> Option<Seq<Value>>;
        #[verifier::external_body]
        pub fn as_object(&self) -> (r: Option<&JsonMap>) ensures (match r { Some(m) => Some(*m), None => None }) == self.s_obj() { unimplemented!() }
        #[verifier::external_body]
        pub fn as_str(&self) -> (r: Option<&str>) ensures (match r { Some(s) => Some(s@), None => None }) == self.s_str() { unimplemented!() }
        #[verifier::external_body]
        pub fn as_i64(&self) -> (r: Option<i64>) ensures r == self.s_i64() { unimplemented!() }
        #[verifier::external_body]
        pub fn as_bool(&self) -> (r: Option<bool>) ensures r == self.s_bool() { unimplemented!() }
        #[verifier::external_body]
        pub fn as_array(&self) -> (r: Option<&Vec<Value>>) ensures (match r { Some(v) => Some(v@), None => None }) == self.s_arr() { unimplemented!() }
    }
    impl JsonMap {
        pub uninterp spec fn s_get(&self, k: Seq<char>) -> Option<Value>;
        #[verifier::external_body]
        pub fn get(&self, k: &str) -> (r: Option<&Value>) ensures (match r { Some(v) => Some(*v), None => None }) == self.s_get(k@) { unimplemented!() }
    }
    #[verifier::external_body]
    pub fn from_str(s: &str) -> (r: Result<Value, Error>) { unimplemented!() }
}
pub mod system_entities {
//@ extract src/database/system_entities.rs :: const ID_FIELD
//@ end
//@ extract src/database/system_entities.rs :: const MODIFICATION_DATE_FIELD
//@ end
//@ extract src/database/system_entities.rs :: const AUTH_RIGHTS_FIELD
//@ end
//@ extract src/database/system_entities.rs :: const AUTH_USER_FIELD
//@ end
//@ extract src/database/system_entities.rs :: const AUTH_USER_ADMIN_FIELD
//@ end
//@ extract src/database/system_entities.rs :: const USER_VERIFYING_KEY_SHORT
//@ end
//@ extract src/database/system_entities.rs :: const USER_ENABLED_SHORT
//@ end
//@ extract src/database/system_entities.rs :: const RIGHT_ENTITY_SHORT
//@ end
//@ extract src/database/system_entities.rs :: const RIGHT_MUTATE_SELF_SHORT
//@ end
//@ extract src/database/system_entities.rs :: const RIGHT_MUTATE_ALL_SHORT
//@ end
}
use system_entities::*;

//@ extract src/database/room.rs :: const WILDCARD_ENTITY
//@ end
//@ extract src/database/room.rs :: struct Room
//@ end
//@ extract src/database/room.rs :: struct Authorisation
//@ end
//@ extract src/database/room.rs :: struct User
//@ end
//@ extract src/database/room.rs :: struct EntityRight
//@ end
//@ extract src/database/room.rs :: enum RightType
//@ end
//@ include common/room_spec.rs

// unit u1_room, by contract only
//@ use-contract u1_room.rs :: EntityRight::new
//@ use-contract u1_room.rs :: Authorisation::add_user
//@ use-contract u1_room.rs :: Authorisation::add_user_admin
//@ use-contract u1_room.rs :: Authorisation::add_right

// ---------------------------------------------------------------- representation invariant of a group
pub closed spec fn users_wf(m: Map<Vec<u8>, Vec<User>>) -> bool { forall|k: Vec<u8>| #[trigger] m.contains_key(k) ==> users_sorted(m[k]@) }
pub closed spec fn rights_wf(m: Map<String, Vec<EntityRight>>) -> bool {
    forall|k: String| #[trigger] m.contains_key(k) ==> rights_sorted(m[k]@) && (forall|i: int| 0 <= i < m[k]@.len() ==> right_normalised(#[trigger] m[k]@[i]))
}
/// every history list of the group is date-ordered and every right is normalised (all-rows implies own-rows)
pub closed spec fn auth_wf(a: Authorisation) -> bool { users_wf(a.users@) && users_wf(a.user_admins@) && rights_wf(a.rights@) }

proof fn lemma_users_append_wf(old_m: Map<Vec<u8>, Vec<User>>, new_m: Map<Vec<u8>, Vec<User>>, user: User)
    requires users_wf(old_m), users_appended(old_m, new_m, user), last_date_le(user_list(old_m, user.verifying_key), user.date),
    ensures users_wf(new_m),
{
    assert forall|k: Vec<u8>| #[trigger] new_m.contains_key(k) implies users_sorted(new_m[k]@) by {
        if k == user.verifying_key {
            let o = user_list(old_m, k);
            if old_m.contains_key(k) { assert(users_sorted(o)); }
            let n = new_m[k]@;
            assert(n == o.push(user));
            assert forall|i: int, j: int| 0 <= i <= j < n.len() implies n[i].date <= n[j].date by {
                if j < o.len() { assert(n[i] == o[i] && n[j] == o[j]); }
                else if i < o.len() { assert(n[i] == o[i]); assert(o[i].date <= o.last().date); }
            }
        } else {
            assert(old_m.contains_key(k) == new_m.contains_key(k));
            assert(old_m.contains_key(k) && old_m[k] == new_m[k]);
        }
    }
}
proof fn lemma_rights_append_wf(old_m: Map<String, Vec<EntityRight>>, new_m: Map<String, Vec<EntityRight>>, right: EntityRight)
    requires rights_wf(old_m), rights_appended(old_m, new_m, right), last_from_le(right_list(old_m, right.entity), right.valid_from), right_normalised(right),
    ensures rights_wf(new_m),
{
    assert forall|k: String| #[trigger] new_m.contains_key(k) implies rights_sorted(new_m[k]@) && (forall|i: int| 0 <= i < new_m[k]@.len() ==> right_normalised(#[trigger] new_m[k]@[i])) by {
        if k == right.entity {
            let o = right_list(old_m, k);
            if old_m.contains_key(k) { assert(rights_sorted(o)); }
            let n = new_m[k]@;
            assert(n == o.push(right));
            assert forall|i: int, j: int| 0 <= i <= j < n.len() implies n[i].valid_from <= n[j].valid_from by {
                if j < o.len() { assert(n[i] == o[i] && n[j] == o[j]); }
                else if i < o.len() { assert(n[i] == o[i]); assert(o[i].valid_from <= o.last().valid_from); }
            }
            assert forall|i: int| 0 <= i < n.len() implies right_normalised(#[trigger] n[i]) by {
                if i < o.len() { assert(n[i] == o[i]); }
            }
        } else {
            assert(old_m.contains_key(k) == new_m.contains_key(k));
            assert(old_m.contains_key(k) && old_m[k] == new_m[k]);
        }
    }
}

// ---------------------------------------------------------------- the JSON shape LOAD_QUERY produces (precondition of the reload path)
pub closed spec fn has_i64(m: serde_json::JsonMap, k: Seq<char>) -> bool { m.s_get(k) is Some && m.s_get(k)->Some_0.s_i64() is Some }
pub closed spec fn has_bool(m: serde_json::JsonMap, k: Seq<char>) -> bool { m.s_get(k) is Some && m.s_get(k)->Some_0.s_bool() is Some }
pub closed spec fn has_str(m: serde_json::JsonMap, k: Seq<char>) -> bool { m.s_get(k) is Some && m.s_get(k)->Some_0.s_str() is Some }
pub closed spec fn user_shape(v: serde_json::Value) -> bool {
    v.s_obj() is Some && has_i64(v.s_obj()->Some_0, MODIFICATION_DATE_FIELD@) && has_bool(v.s_obj()->Some_0, "enabled"@) && has_str(v.s_obj()->Some_0, "verif_key"@)
}
pub closed spec fn right_shape(v: serde_json::Value) -> bool {
    v.s_obj() is Some && has_i64(v.s_obj()->Some_0, "mdate"@) && has_str(v.s_obj()->Some_0, "entity"@)
    && has_bool(v.s_obj()->Some_0, "mutate_self"@) && has_bool(v.s_obj()->Some_0, "mutate_all"@)
}
pub closed spec fn all_user_shape(s: Seq<serde_json::Value>) -> bool { forall|i: int| 0 <= i < s.len() ==> user_shape(#[trigger] s[i]) }
pub closed spec fn all_right_shape(s: Seq<serde_json::Value>) -> bool { forall|i: int| 0 <= i < s.len() ==> right_shape(#[trigger] s[i]) }
pub closed spec fn arr_users(v: serde_json::Value) -> bool { v.s_arr() is Some ==> all_user_shape(v.s_arr()->Some_0) }
pub closed spec fn arr_rights(v: serde_json::Value) -> bool { v.s_arr() is Some ==> all_right_shape(v.s_arr()->Some_0) }
pub closed spec fn auth_shape(v: serde_json::Value) -> bool {
    v.s_obj() is Some ==> {
        let m = v.s_obj()->Some_0;
        has_str(m, ID_FIELD@) && has_i64(m, MODIFICATION_DATE_FIELD@)
        && m.s_get(AUTH_USER_FIELD@) is Some && arr_users(m.s_get(AUTH_USER_FIELD@)->Some_0)
        && m.s_get(AUTH_USER_ADMIN_FIELD@) is Some && arr_users(m.s_get(AUTH_USER_ADMIN_FIELD@)->Some_0)
        && m.s_get(AUTH_RIGHTS_FIELD@) is Some && arr_rights(m.s_get(AUTH_RIGHTS_FIELD@)->Some_0)
    }
}

//@ extract src/database/room.rs :: fn load_user_from_json
//@ result r
//@ spec
        requires user_shape(*user_value),
        ensures
            // [reload_user_fields] the reloaded entry carries the stored date and enabled flag
            r is Ok ==> Some(r->Ok_0.date) == user_value.s_obj()->Some_0.s_get(MODIFICATION_DATE_FIELD@)->Some_0.s_i64()
                && Some(r->Ok_0.enabled) == user_value.s_obj()->Some_0.s_get("enabled"@)->Some_0.s_bool(),
//@ end

//@ extract src/database/room.rs :: fn load_auth_from_json
//@ result r
//@ attr #[verifier::loop_isolation(false)]
//@ rewrite E16 "\"authorisation\"\.to_string\(\)" => "fmt_stub()" x1
//@ rewrite E16 "(?s)\.as_str\(\)\s*\.unwrap\(\)\s*\.to_string\(\);" => ".as_str().unwrap().to_string();" x1
//@ loop "for user_value in user_array" #1 iter it
            invariant auth_wf(authorisation), authorisation.id == id,
                all_user_shape(user_array@),
//@ loop "for user_value in user_admin_array" iter it
            invariant auth_wf(authorisation), authorisation.id == id,
                all_user_shape(user_admin_array@),
//@ loop "for right_value in right_array" iter it
            invariant auth_wf(authorisation), authorisation.id == id,
                all_right_shape(right_array@),
//@ insert after-stmt "authorisation.add_user(user)"
            proof { lemma_users_append_wf(auth_before.users@, authorisation.users@, user_copy); }
//@ insert before-stmt "authorisation.add_user(user)"
            let ghost auth_before = authorisation; let ghost user_copy = user;
//@ insert after-stmt "authorisation.add_user_admin(user)"
            proof { lemma_users_append_wf(auth_before.user_admins@, authorisation.user_admins@, user_copy); }
//@ insert before-stmt "authorisation.add_user_admin(user)"
            let ghost auth_before = authorisation; let ghost user_copy = user;
//@ insert after-stmt "authorisation.add_right(right)"
            proof { lemma_rights_append_wf(auth_before.rights@, authorisation.rights@, right_copy); }
//@ insert before-stmt "authorisation.add_right(right)"
            let ghost auth_before = authorisation; let ghost right_copy = right;
//@ spec
        requires auth_shape(*value),
        ensures
            // [reloaded_group_well_formed]{C10} a group reloaded from storage satisfies the same representation invariant as one built live: every history list is date-ordered (entries are fed to add_* in stored order and refused otherwise) and every right is normalised
            r is Ok ==> auth_wf(r->Ok_0),
//@ end

//@ extract src/database/room.rs :: fn entity_right_from_json
//@ result r
//@ rewrite E16 "\"sys\.EntityRight[A-Za-z_.]*\"\.to_string\(\)" => "fmt_stub()" x*
//@ rewrite E3 "system_entities::" => "" x*
//@ spec
        ensures
            // [live_right_normalised]{C10} a right decoded on the live path is normalised and dated as given
            r is Ok ==> right_normalised(r->Ok_0) && er_valid_from(r->Ok_0) == valid_from,
//@ end

//@ extract src/database/room.rs :: fn user_from_json
//@ result r
//@ rewrite E16 "\"sys\.UserAuth[A-Za-z_.]*\"\.to_string\(\)" => "fmt_stub()" x*
//@ rewrite E3 "system_entities::" => "" x*
//@ spec
        ensures
            // [live_user_dated_as_given]{C10}
            r is Ok ==> r->Ok_0.date == date,
//@ end
} // verus!
fn main() {}
