//@ unit u15_model props C15
// Unit U15: "a refused version [of the data model] has no effect on the running instance" - the in-memory half.
// DataModel::update / update_system (src/database/query_language/data_model_parser.rs) apply a new version to a COPY of the
// running model and replace the running model only when the whole version was accepted.  What the compatibility rules are
// (update_with / Entity::update: loops over HashMap::iter_mut / drain, format!, short-name parsing) is NOT under contract: here
// `update_with` may do anything to the model it is given; the obligation is that a refusal leaves the running model untouched.
#![allow(unused_imports, unused_variables, dead_code, unused_mut, non_snake_case)]
use vstd::prelude::*;
use std::collections::{HashMap, HashSet, VecDeque};   // the std collections a change to the extracted code may reach for
verus! {
pub struct Error { x: u8 }
/// the data model: opaque (namespaces, entities, short identifiers)
pub struct DataModel { x: u8 }
/// the model a text denotes, parsed with a namespace-id offset
pub uninterp spec fn spec_parse(model: Seq<char>, decal: usize) -> DataModel;
/// `after` is what the compatibility rules make of `before` when given the accepted version `new` (only update_with's contract establishes it)
pub uninterp spec fn accepted(before: DataModel, new: DataModel, system: bool, after: DataModel) -> bool;
impl Clone for DataModel {
    #[verifier::external_body]
    fn clone(&self) -> (r: DataModel) ensures r == *self { unimplemented!() }   // #[derive(Clone)]
}
impl DataModel {
    #[verifier::external_body]
    pub fn parse_internal(model: &str, decal: usize) -> (r: std::result::Result<DataModel, Error>) ensures r is Ok ==> r->Ok_0 == spec_parse(model@, decal) { unimplemented!() }
    /// applies the compatibility rules IN PLACE: on a refusal the model it was given is left in an arbitrary state
    #[verifier::external_body]
    pub fn update_with(&mut self, new_data_model: DataModel, system: bool) -> (r: std::result::Result<(), Error>)
        ensures r is Ok ==> accepted(*old(self), new_data_model, system, *final(self))
    { unimplemented!() }
}

//@ extract src/database/query_language/data_model_parser.rs :: impl DataModel / fn update
//@ result r
//@ spec
        ensures
            // [refused_version_leaves_the_running_model_untouched] a version that is refused - at parsing or by any compatibility rule - changes nothing in the running model
            r is Err ==> *final(self) == *old(self),
            // [accepted_version_is_applied_whole] an accepted version is applied as a whole, by the compatibility rules, to the model that was running
            r is Ok ==> accepted(*old(self), spec_parse(model@, 1), false, *final(self)),
//@ end

//@ extract src/database/query_language/data_model_parser.rs :: impl DataModel / fn update_system
//@ result r
//@ spec
        ensures
            // [refused_system_version_leaves_the_running_model_untouched]
            r is Err ==> *final(self) == *old(self),
            // [accepted_system_version_is_applied_whole]
            r is Ok ==> accepted(*old(self), spec_parse(model@, 0), true, *final(self)),
//@ end

// ---- the running instance: GraphDatabase::update_data_model (src/database/graph_database.rs), the statements that write an accepted
// version and make it the running model (E9 range form, after the local `impl Writeable for Serialized`).  The version handed over
// was accepted on a COPY (fix 8a49818); the write (configuration row + index maintenance, one transaction) can still fail.
/// the version was written by a successful write of the batch writer: a fact only that contract establishes
pub uninterp spec fn model_written(text: Seq<char>, m: DataModel) -> bool;
pub struct Serialized(pub String, pub DataModel);
pub struct BufferedDatabaseWriter { x: u8 }
impl BufferedDatabaseWriter {
    #[verifier::external_body]
    pub async fn write(&self, w: Box<Serialized>) -> (r: std::result::Result<(), Error>) ensures r is Ok ==> model_written(w.0@, w.1) { unimplemented!() }
}
pub struct Database { pub writer: BufferedDatabaseWriter }
pub struct GraphDatabase { pub data_model: DataModel, pub graph_database: Database }
//@ extract src/database/graph_database.rs :: impl GraphDatabase / fn update_data_model as GraphDatabase::lifted_publish_model
//@ lift-range after "impl Writeable for Serialized" .. "Ok(str)" :: async fn lifted_publish_model(&mut self, str: String, data_model: DataModel) -> (r: std::result::Result<String, Error>) tail "Ok(str)"
//@ spec
        ensures
            // [version_refused_by_the_write_leaves_the_running_model_untouched] a version whose write fails (the transaction is rolled back: nothing is stored) has no effect on the running instance either: the running model is replaced only after the write succeeded
            r is Err ==> final(self).data_model == old(self).data_model,
            // [accepted_version_is_written_then_made_the_running_model] success: the version was written, as given, and is the running model
            r is Ok ==> model_written(str@, data_model) && final(self).data_model == data_model && r->Ok_0@ == str@,
//@ end
} // verus!
fn main() {}
