//@ unit u15_model props C15
// Unit U15: "a refused version [of the data model] has no effect on the running instance" - the in-memory half.
// DataModel::update / update_system (src/database/query_language/data_model_parser.rs) apply a new version to a COPY of the
// running model and replace the running model only when the whole version was accepted.  What the compatibility rules are
// (update_with / Entity::update: loops over HashMap::iter_mut / drain, format!, short-name parsing) is NOT under contract: here
// `update_with` may do anything to the model it is given; the obligation is that a refusal leaves the running model untouched.
#![allow(unused_imports, unused_variables, dead_code, unused_mut, non_snake_case)]
use vstd::prelude::*;
use std::collections::{HashMap, HashSet, VecDeque};   // the std collections a change to the extracted code may reach for
verus! {
pub struct Error { x: u8 }
/// the data model: opaque (namespaces, entities, short identifiers)
pub struct DataModel { x: u8 }
/// the model a text denotes, parsed with a namespace-id offset
pub uninterp spec fn spec_parse(model: Seq<char>, decal: usize) -> DataModel;
/// `after` is what the compatibility rules make of `before` when given the accepted version `new` (only update_with's contract establishes it)
pub uninterp spec fn accepted(before: DataModel, new: DataModel, system: bool, after: DataModel) -> bool;
impl Clone for DataModel {
    #[verifier::external_body]
    fn clone(&self) -> (r: DataModel) ensures r == *self { unimplemented!() }   // #[derive(Clone)]
}
impl DataModel {
    #[verifier::external_body]
    pub fn parse_internal(model: &str, decal: usize) -> (r: std::result::Result<DataModel, Error>) ensures r is Ok ==> r->Ok_0 == spec_parse(model@, decal) { unimplemented!() }
    /// applies the compatibility rules IN PLACE: on a refusal the model it was given is left in an arbitrary state
    #[verifier::external_body]
    pub fn update_with(&mut self, new_data_model: DataModel, system: bool) -> (r: std::result::Result<(), Error>)
        ensures r is Ok ==> accepted(*old(self), new_data_model, system, *final(self))
    { unimplemented!() }
}

//@ extract src/database/query_language/data_model_parser.rs :: impl DataModel / fn update
//@ result r
//@ spec
        ensures
            // [refused_version_leaves_the_running_model_untouched] a version that is refused - at parsing or by any compatibility rule - changes nothing in the running model
            r is Err ==> *final(self) == *old(self),
            // [accepted_version_is_applied_whole] an accepted version is applied as a whole, by the compatibility rules, to the model that was running
            r is Ok ==> accepted(*old(self), spec_parse(model@, 1), false, *final(self)),
//@ end

//@ extract src/database/query_language/data_model_parser.rs :: impl DataModel / fn update_system
//@ result r
//@ spec
        ensures
            // [refused_system_version_leaves_the_running_model_untouched]
            r is Err ==> *final(self) == *old(self),
            // [accepted_system_version_is_applied_whole]
            r is Ok ==> accepted(*old(self), spec_parse(model@, 0), true, *final(self)),
//@ end
} // verus!
fn main() {}
