// ---- signing keys as mathematics (DESIGN.md section 7): the exported verifying key and the signature
// of a message are spec functions of the key; nothing else is assumed about ed25519 here.
pub trait SigningKey {
    spec fn spec_vk(&self) -> Seq<u8>;
    spec fn spec_sign(&self, msg: Seq<u8>) -> Seq<u8>;
    fn export_verifying_key(&self) -> (r: Vec<u8>) ensures r@ == self.spec_vk();
    fn sign(&self, message: &[u8]) -> (r: Vec<u8>) ensures r@ == self.spec_sign(message@);
}
pub struct Ed25519SigningKey { k: [u8; 32] }
impl SigningKey for Ed25519SigningKey {
    uninterp spec fn spec_vk(&self) -> Seq<u8>;
    uninterp spec fn spec_sign(&self, msg: Seq<u8>) -> Seq<u8>;
    #[verifier::external_body]
    fn export_verifying_key(&self) -> (r: Vec<u8>) { unimplemented!() }
    #[verifier::external_body]
    fn sign(&self, message: &[u8]) -> (r: Vec<u8>) { unimplemented!() }
}
