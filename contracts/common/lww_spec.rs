// ---- shared by u11_lww (Node::filter_existing, NodeToInsert::is_older_than_announced) and u9_pipeline (synchronise_day): the order on
// versions of a row used by the last-writer-wins rule: modification date, then signature
/// byte-wise lexicographic order of signatures (std's Ord for Vec<u8>): a total order
pub mod trusted_order {
    use vstd::prelude::*;
    pub uninterp spec fn sig_le(a: Seq<u8>, b: Seq<u8>) -> bool;
    #[verifier::external_body]
    pub proof fn axiom_sig_le_total_order(a: Seq<u8>, b: Seq<u8>, c: Seq<u8>)
        ensures sig_le(a, a), sig_le(a, b) || sig_le(b, a), sig_le(a, b) && sig_le(b, a) ==> a == b, sig_le(a, b) && sig_le(b, c) ==> sig_le(a, c) {}
}
pub use trusted_order::*;
/// version (d1, s1) of a row is newer than version (d2, s2): later modification date, or same date and greater signature
pub open spec fn newer_v(d1: i64, s1: Seq<u8>, d2: i64, s2: Seq<u8>) -> bool {
    d1 > d2 || (d1 == d2 && !sig_le(s1, s2))
}
/// the row delivered for a request is the version that was announced for it, or a newer one
pub open spec fn delivered_not_older(nti: NodeToInsert) -> bool {
    nti.node is Some ==> !newer_v(nti.announced_mdate, nti.announced_signature@, nti.node->Some_0.mdate, nti.node->Some_0._signature@)
}
