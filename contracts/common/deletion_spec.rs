// ---- shared by u2_verdicts (validate_deletion) and u2c_deletion_build (DeletionQuery::build): what a prepared reference
// removal records about the SOURCE ROW of the reference.  Removing a reference re-dates and re-signs that row, so the right to
// change the row is decided on these fields.
/// the prepared removal `e` is a removal of a reference of the stored row `row` (entity name `name`), prepared at `date`
pub open spec fn edge_of_row(e: EdgeDelete, row: Node, name: Seq<char>, date: i64) -> bool {
    e.edge.src == row.id && e.src_author@ == row.verifying_key@ && e.room_id == row.room_id && e.date == date && e.src_name@ == name
}
