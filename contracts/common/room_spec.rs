// ---------------------------------------------------------------------------------------------
// Shared specification vocabulary for rooms (DESIGN.md section 3).  Pasted verbatim into the units
// that need it (u1_room proves the real functions against it; other units see those functions only
// through the same contracts), so the spec functions are the same definitions everywhere.
// The decision functions below are transcriptions of the property statements (C01, C02, C08, C10),
// not of the code.
// ---------------------------------------------------------------------------------------------

pub mod trusted_keys {
    use vstd::prelude::*;
    use vstd::std_specs::hash::*;
    // std's Hash/Eq for Vec<u8>, [u8;16] and String are structural; vstd only ships this axiom for primitives
    #[verifier::external_body]
    pub broadcast proof fn axiom_vecu8_key_model() ensures #[trigger] obeys_key_model::<Vec<u8>>() {}
    #[verifier::external_body]
    pub broadcast proof fn axiom_uid_key_model() ensures #[trigger] obeys_key_model::<[u8; 16]>() {}
    #[verifier::external_body]
    pub broadcast proof fn axiom_string_key_model() ensures #[trigger] obeys_key_model::<String>() {}

    /// the String with a given content (strings are determined by their content)
    pub uninterp spec fn string_of(s: Seq<char>) -> String;
    #[verifier::external_body]
    pub broadcast proof fn axiom_string_of(s: Seq<char>) ensures (#[trigger] string_of(s))@ == s {}
    #[verifier::external_body]
    pub broadcast proof fn axiom_string_of_view(x: String) ensures #[trigger] string_of(x@) == x {}
    // HashMap<String, V>::get(&str) / contains_key(&str): `String: Borrow<str>` hashes and compares by content
    #[verifier::external_body]
    pub broadcast proof fn axiom_contains_str_key<V>(m: Map<String, V>, k: &str)
        ensures #[trigger] contains_borrowed_key::<String, V, str>(m, k) == m.contains_key(string_of(k@)) {}
    #[verifier::external_body]
    pub broadcast proof fn axiom_maps_str_key<V>(m: Map<String, V>, k: &str, v: V)
        ensures #[trigger] maps_borrowed_key_to_value::<String, V, str>(m, k, v) == (m.contains_key(string_of(k@)) && m[string_of(k@)] == v) {}
    // a Vec<u8> is determined by its content (spec equality of exec vectors)
    #[verifier::external_body]
    pub broadcast proof fn axiom_vec_u8_ext(a: Vec<u8>, b: Vec<u8>) ensures #[trigger] (a@ =~= b@) ==> a == b {}

    /// the byte vector with a given content
    pub uninterp spec fn vec_of(s: Seq<u8>) -> Vec<u8>;
    #[verifier::external_body]
    pub broadcast proof fn axiom_vec_of(s: Seq<u8>) ensures (#[trigger] vec_of(s))@ == s {}
    // two str slices with the same content are equal (needed for `match s.as_str() { CONST => .. }`)
    #[verifier::external_body]
    pub broadcast proof fn axiom_str_ext(a: &str, b: &str) ensures #![trigger a@, b@] (a@ == b@) ==> a == b {}

    pub broadcast group group_trusted_keys {
        axiom_vecu8_key_model, axiom_uid_key_model, axiom_string_key_model, axiom_string_of, axiom_string_of_view,
        axiom_contains_str_key, axiom_maps_str_key, axiom_vec_u8_ext, axiom_str_ext, axiom_vec_of,
    }
}
pub use trusted_keys::{string_of, vec_of};

// ---- history lists: the last entry not later than the date decides
pub closed spec fn last_user_at(s: Seq<User>, date: i64) -> Option<User>
    decreases s.len()
{
    if s.len() == 0 { None }
    else if s.last().date <= date { Some(s.last()) }
    else { last_user_at(s.drop_last(), date) }
}
pub closed spec fn enabled_at(s: Seq<User>, date: i64) -> bool {
    match last_user_at(s, date) { Some(u) => u.enabled, None => false }
}
pub closed spec fn key_enabled_at(m: Map<Vec<u8>, Vec<User>>, key: Vec<u8>, date: i64) -> bool {
    m.contains_key(key) && enabled_at(m[key]@, date)
}
pub closed spec fn last_right_at(s: Seq<EntityRight>, date: i64) -> Option<EntityRight>
    decreases s.len()
{
    if s.len() == 0 { None }
    else if s.last().valid_from <= date { Some(s.last()) }
    else { last_right_at(s.drop_last(), date) }
}

// ---- decisions
pub closed spec fn spec_is_admin(room: Room, key: Vec<u8>, date: i64) -> bool {
    key_enabled_at(room.admins@, key, date)
}
pub closed spec fn spec_can_admin_users(a: Authorisation, key: Vec<u8>, date: i64) -> bool {
    key_enabled_at(a.user_admins@, key, date)
}
pub closed spec fn spec_member(a: Authorisation, key: Vec<u8>, date: i64) -> bool {
    key_enabled_at(a.users@, key, date) || key_enabled_at(a.user_admins@, key, date)
}
pub closed spec fn spec_right_at(a: Authorisation, entity: Seq<char>, date: i64) -> Option<EntityRight> {
    if a.rights@.contains_key(string_of(entity)) { last_right_at(a.rights@[string_of(entity)]@, date) } else { None }
}
pub closed spec fn flag(r: EntityRight, right: RightType) -> bool {
    match right { RightType::MutateSelf => r.mutate_self, RightType::MutateAll => r.mutate_all }
}
pub closed spec fn spec_auth_can(a: Authorisation, entity: Seq<char>, date: i64, right: RightType) -> bool {
    match spec_right_at(a, entity, date) {
        Some(r) => flag(r, right),
        None => match spec_right_at(a, WILDCARD_ENTITY@, date) { Some(r) => flag(r, right), None => false },
    }
}
/// the room grants `key` the right `right` on `entity` at `date`: some group both counts the key as a
/// member (room admins count in every group) and holds the right at that date
pub closed spec fn spec_can(room: Room, key: Vec<u8>, entity: Seq<char>, date: i64, right: RightType) -> bool {
    exists|id: Uid| #[trigger] room.authorisations@.contains_key(id)
        && (spec_is_admin(room, key, date) || spec_member(room.authorisations@[id], key, date))
        && spec_auth_can(room.authorisations@[id], entity, date, right)
}
/// `key` is a member of the room at `date` (enabled admin, or enabled user / user admin of some group)
pub closed spec fn spec_room_member(room: Room, key: Vec<u8>, date: i64) -> bool {
    spec_is_admin(room, key, date)
    || exists|id: Uid| #[trigger] room.authorisations@.contains_key(id) && spec_member(room.authorisations@[id], key, date)
}

/// `key` was ever listed in the room (enabled or not): as an admin entry, or as user / user admin of some group
pub closed spec fn spec_ever_listed(room: Room, key: Vec<u8>) -> bool {
    (exists|k: Vec<u8>, i: int| #[trigger] room.admins@.contains_key(k) && 0 <= i < room.admins@[k]@.len() && (#[trigger] room.admins@[k]@[i]).verifying_key@ =~= key@)
    || (exists|id: Uid| #[trigger] room.authorisations@.contains_key(id)
            && (room.authorisations@[id].users@.contains_key(key) || room.authorisations@[id].user_admins@.contains_key(key)))
}

// ---- the representation invariant of history lists
pub closed spec fn users_sorted(s: Seq<User>) -> bool {
    forall|i: int, j: int| 0 <= i <= j < s.len() ==> s[i].date <= s[j].date
}
pub closed spec fn rights_sorted(s: Seq<EntityRight>) -> bool {
    forall|i: int, j: int| 0 <= i <= j < s.len() ==> s[i].valid_from <= s[j].valid_from
}
pub closed spec fn right_normalised(r: EntityRight) -> bool { r.mutate_all ==> r.mutate_self }
// accessors for the private fields of EntityRight (contracts of public functions cannot name private fields)
pub closed spec fn er_valid_from(r: EntityRight) -> i64 { r.valid_from }
pub closed spec fn er_entity(r: EntityRight) -> String { r.entity }
pub closed spec fn er_self(r: EntityRight) -> bool { r.mutate_self }
pub closed spec fn er_all(r: EntityRight) -> bool { r.mutate_all }

// ---- append-only, date-ordered updates of history lists (contracts of the add_* mutators)
pub closed spec fn user_list(m: Map<Vec<u8>, Vec<User>>, k: Vec<u8>) -> Seq<User> { if m.contains_key(k) { m[k]@ } else { Seq::<User>::empty() } }
/// append-only, date-ordered update of one history list; every other key untouched
pub closed spec fn users_appended(old_m: Map<Vec<u8>, Vec<User>>, new_m: Map<Vec<u8>, Vec<User>>, user: User) -> bool {
    new_m.contains_key(user.verifying_key) && new_m[user.verifying_key]@ == user_list(old_m, user.verifying_key).push(user)
    && (forall|k: Vec<u8>| #![trigger old_m.contains_key(k)] #![trigger new_m.contains_key(k)]
            k != user.verifying_key ==> (old_m.contains_key(k) == new_m.contains_key(k)) && (old_m.contains_key(k) ==> old_m[k] == new_m[k]))
}
/// refused update: nothing but possibly an empty list for a new key appears; every existing list is unchanged
pub closed spec fn users_unchanged(old_m: Map<Vec<u8>, Vec<User>>, new_m: Map<Vec<u8>, Vec<User>>) -> bool {
    forall|k: Vec<u8>| #![trigger old_m.contains_key(k)] #![trigger new_m.contains_key(k)]
        (old_m.contains_key(k) ==> new_m.contains_key(k) && old_m[k]@ == new_m[k]@)
        && (new_m.contains_key(k) && !old_m.contains_key(k) ==> new_m[k]@.len() == 0)
}
pub closed spec fn last_date_le(s: Seq<User>, d: i64) -> bool { s.len() > 0 ==> s.last().date <= d }
pub closed spec fn right_list(m: Map<String, Vec<EntityRight>>, k: String) -> Seq<EntityRight> { if m.contains_key(k) { m[k]@ } else { Seq::<EntityRight>::empty() } }
pub closed spec fn rights_appended(old_m: Map<String, Vec<EntityRight>>, new_m: Map<String, Vec<EntityRight>>, right: EntityRight) -> bool {
    new_m.contains_key(right.entity) && new_m[right.entity]@ == right_list(old_m, right.entity).push(right)
    && (forall|k: String| #![trigger old_m.contains_key(k)] #![trigger new_m.contains_key(k)]
            k != right.entity ==> (old_m.contains_key(k) == new_m.contains_key(k)) && (old_m.contains_key(k) ==> old_m[k] == new_m[k]))
}
pub closed spec fn rights_unchanged(old_m: Map<String, Vec<EntityRight>>, new_m: Map<String, Vec<EntityRight>>) -> bool {
    forall|k: String| #![trigger old_m.contains_key(k)] #![trigger new_m.contains_key(k)]
        (old_m.contains_key(k) ==> new_m.contains_key(k) && old_m[k]@ == new_m[k]@)
        && (new_m.contains_key(k) && !old_m.contains_key(k) ==> new_m[k]@.len() == 0)
}
pub closed spec fn last_from_le(s: Seq<EntityRight>, d: i64) -> bool { s.len() > 0 ==> s.last().valid_from <= d }

// ---- the closed form of `v.iter().rev().find(|x| x.date <= date)` and its link to last_*_at
pub closed spec fn rfind_user(s: Seq<User>, date: i64, r: Option<&User>) -> bool {
    let rem = s.as_ref().reverse();
    match r {
        Some(user) => exists|idx: int| 0 <= idx < rem.len() && #[trigger] rem[idx] == user && user.date <= date
                        && (forall|j: int| 0 <= j < idx ==> !((#[trigger] rem[j]).date <= date)),
        None => forall|j: int| 0 <= j < rem.len() ==> !((#[trigger] rem[j]).date <= date),
    }
}
pub closed spec fn rfind_right(s: Seq<EntityRight>, date: i64, r: Option<&EntityRight>) -> bool {
    let rem = s.as_ref().reverse();
    match r {
        Some(c) => exists|idx: int| 0 <= idx < rem.len() && #[trigger] rem[idx] == c && c.valid_from <= date
                        && (forall|j: int| 0 <= j < idx ==> !((#[trigger] rem[j]).valid_from <= date)),
        None => forall|j: int| 0 <= j < rem.len() ==> !((#[trigger] rem[j]).valid_from <= date),
    }
}
pub closed spec fn deref_user(r: Option<&User>) -> Option<User> { match r { Some(u) => Some(*u), None => None } }
pub closed spec fn deref_right(r: Option<&EntityRight>) -> Option<EntityRight> { match r { Some(u) => Some(*u), None => None } }

proof fn lemma_last_user_none(s: Seq<User>, date: i64)
    requires forall|i: int| 0 <= i < s.len() ==> (#[trigger] s[i]).date > date,
    ensures last_user_at(s, date) is None
    decreases s.len()
{
    if s.len() > 0 { lemma_last_user_none(s.drop_last(), date); }
}
proof fn lemma_last_user_some(s: Seq<User>, date: i64, k: int)
    requires 0 <= k < s.len(), s[k].date <= date,
             forall|i: int| k < i < s.len() ==> (#[trigger] s[i]).date > date,
    ensures last_user_at(s, date) == Some(s[k])
    decreases s.len()
{
    if k != s.len() - 1 { lemma_last_user_some(s.drop_last(), date, k); }
}
pub broadcast proof fn lemma_rfind_user(s: Seq<User>, date: i64, r: Option<&User>)
    requires #[trigger] rfind_user(s, date, r),
    ensures last_user_at(s, date) == deref_user(r)
{
    let rem = s.as_ref().reverse();
    assert(rem.len() == s.len());
    assert(forall|i: int| 0 <= i < s.len() ==> *(#[trigger] rem[i]) == s[s.len() - 1 - i]);
    match r {
        Some(user) => {
            let idx = choose|idx: int| 0 <= idx < rem.len() && #[trigger] rem[idx] == user && user.date <= date
                            && (forall|j: int| 0 <= j < idx ==> !((#[trigger] rem[j]).date <= date));
            let k = s.len() - 1 - idx;
            assert(s[k] == *user);
            assert forall|i: int| k < i < s.len() implies (#[trigger] s[i]).date > date by {
                let j = s.len() - 1 - i;
                assert(*rem[j] == s[i]);
            }
            lemma_last_user_some(s, date, k);
        }
        None => {
            assert forall|i: int| 0 <= i < s.len() implies (#[trigger] s[i]).date > date by {
                let j = s.len() - 1 - i;
                assert(*rem[j] == s[i]);
            }
            lemma_last_user_none(s, date);
        }
    }
}
proof fn lemma_last_right_none(s: Seq<EntityRight>, date: i64)
    requires forall|i: int| 0 <= i < s.len() ==> (#[trigger] s[i]).valid_from > date,
    ensures last_right_at(s, date) is None
    decreases s.len()
{
    if s.len() > 0 { lemma_last_right_none(s.drop_last(), date); }
}
proof fn lemma_last_right_some(s: Seq<EntityRight>, date: i64, k: int)
    requires 0 <= k < s.len(), s[k].valid_from <= date,
             forall|i: int| k < i < s.len() ==> (#[trigger] s[i]).valid_from > date,
    ensures last_right_at(s, date) == Some(s[k])
    decreases s.len()
{
    if k != s.len() - 1 { lemma_last_right_some(s.drop_last(), date, k); }
}
pub broadcast proof fn lemma_rfind_right(s: Seq<EntityRight>, date: i64, r: Option<&EntityRight>)
    requires #[trigger] rfind_right(s, date, r),
    ensures last_right_at(s, date) == deref_right(r)
{
    let rem = s.as_ref().reverse();
    assert(rem.len() == s.len());
    assert(forall|i: int| 0 <= i < s.len() ==> *(#[trigger] rem[i]) == s[s.len() - 1 - i]);
    match r {
        Some(c) => {
            let idx = choose|idx: int| 0 <= idx < rem.len() && #[trigger] rem[idx] == c && c.valid_from <= date
                            && (forall|j: int| 0 <= j < idx ==> !((#[trigger] rem[j]).valid_from <= date));
            let k = s.len() - 1 - idx;
            assert(s[k] == *c);
            assert forall|i: int| k < i < s.len() implies (#[trigger] s[i]).valid_from > date by {
                let j = s.len() - 1 - i;
                assert(*rem[j] == s[i]);
            }
            lemma_last_right_some(s, date, k);
        }
        None => {
            assert forall|i: int| 0 <= i < s.len() implies (#[trigger] s[i]).valid_from > date by {
                let j = s.len() - 1 - i;
                assert(*rem[j] == s[i]);
            }
            lemma_last_right_none(s, date);
        }
    }
}
