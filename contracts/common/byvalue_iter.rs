// ---------------------------------------------------------------------------------------------
// Rule E28: a `for x in <HashSet / HashMap expression consumed by value>` loop.  vstd has no model of
// `hash_set::IntoIter` / `hash_map::IntoIter`; an `assume_specification` on `<HashSet as IntoIterator>::into_iter`
// is accepted but its postconditions are not usable at the call (*probed*), so the loop header is rewritten to
// `for x in it: set_into_iter(<expr>)` / `map_into_iter(<expr>)`: stubs with std's semantics - every element (entry)
// exactly once, in some order; finitely many.  ASSUMED (trusted, listed): these two contracts and the axiom that the
// iterators obey vstd's iterator laws (`next` yields the remaining elements one by one).  The loop BODY stays under contract.
// The including unit needs `#![feature(allocator_api)]`.
// ---------------------------------------------------------------------------------------------
#[verifier::reject_recursive_types(A)]
#[verifier::reject_recursive_types(K)]
#[verifier::external_type_specification]
#[verifier::external_body]
pub struct ExHashSetIntoIter<K, A>(std::collections::hash_set::IntoIter<K, A>) where A: std::alloc::Allocator;
#[verifier::reject_recursive_types(A)]
#[verifier::reject_recursive_types(K)]
#[verifier::reject_recursive_types(V)]
#[verifier::external_type_specification]
#[verifier::external_body]
pub struct ExHashMapIntoIter<K, V, A>(std::collections::hash_map::IntoIter<K, V, A>) where A: std::alloc::Allocator;

pub open spec fn set_elements_once<K>(m: Set<K>, rem: Seq<K>) -> bool {
    &&& rem.len() == m.len()
    &&& rem.no_duplicates()
    &&& forall|i: int| 0 <= i < rem.len() ==> m.contains(#[trigger] rem[i])
    &&& forall|k: K| m.contains(k) ==> exists|i: int| 0 <= i < rem.len() && #[trigger] rem[i] == k
}
pub open spec fn map_entries_once<K, V>(m: Map<K, V>, rem: Seq<(K, V)>) -> bool {
    &&& rem.len() == m.len()
    &&& forall|i: int, j: int| 0 <= i < j < rem.len() ==> (#[trigger] rem[i]).0 != (#[trigger] rem[j]).0
    &&& forall|i: int| 0 <= i < rem.len() ==> m.contains_key((#[trigger] rem[i]).0) && m[rem[i].0] == rem[i].1
    &&& forall|k: K| m.contains_key(k) ==> exists|i: int| 0 <= i < rem.len() && (#[trigger] rem[i]).0 == k
}
pub mod trusted_byvalue_iter {
    use vstd::prelude::*;
    use vstd::std_specs::iter::IteratorSpec;
    use std::alloc::Global;
    #[verifier::external_body]
    pub broadcast proof fn axiom_set_into_iter_obeys<K>(it: std::collections::hash_set::IntoIter<K, Global>) ensures #[trigger] it.obeys_prophetic_iter_laws() {}
    #[verifier::external_body]
    pub broadcast proof fn axiom_map_into_iter_obeys<K, V>(it: std::collections::hash_map::IntoIter<K, V, Global>) ensures #[trigger] it.obeys_prophetic_iter_laws() {}
    pub broadcast group group_byvalue_iter { axiom_set_into_iter_obeys, axiom_map_into_iter_obeys }
}
#[verifier::external_body]
pub fn set_into_iter<K, S>(m: HashSet<K, S>) -> (r: std::collections::hash_set::IntoIter<K, std::alloc::Global>)
    ensures set_elements_once(m@, r.remaining()), r.obeys_prophetic_iter_laws(), r.decrease() is Some
{ m.into_iter() }
#[verifier::external_body]
pub fn map_into_iter<K, V, S>(m: HashMap<K, V, S>) -> (r: std::collections::hash_map::IntoIter<K, V, std::alloc::Global>)
    ensures map_entries_once(m@, r.remaining()), r.obeys_prophetic_iter_laws(), r.decrease() is Some
{ m.into_iter() }
// VecDeque consumed by value (same rule E28): the elements front to back
#[verifier::reject_recursive_types(A)]
#[verifier::reject_recursive_types(T)]
#[verifier::external_type_specification]
#[verifier::external_body]
pub struct ExVecDequeIntoIter<T, A>(std::collections::vec_deque::IntoIter<T, A>) where A: std::alloc::Allocator;
pub mod trusted_byvalue_deque {
    use vstd::prelude::*;
    use vstd::std_specs::iter::IteratorSpec;
    use std::alloc::Global;
    #[verifier::external_body]
    pub broadcast proof fn axiom_deque_into_iter_obeys<T>(it: std::collections::vec_deque::IntoIter<T, Global>) ensures #[trigger] it.obeys_prophetic_iter_laws() {}
}
#[verifier::external_body]
pub fn deque_into_iter<T>(d: VecDeque<T>) -> (r: std::collections::vec_deque::IntoIter<T, std::alloc::Global>)
    ensures r.remaining() == d@, r.obeys_prophetic_iter_laws(), r.decrease() is Some
{ d.into_iter() }
