// ---------------------------------------------------------------- blake3 (assumed: ghost `fed` sequence)
pub mod blake3 {
    use vstd::prelude::*;
    pub struct Hasher { buf: Vec<u8> }
    pub struct Hash { h: [u8; 32] }
    /// H: the hash of a byte string (uninterpreted; collision resistance = injectivity is an explicit
    /// hypothesis of the lemmas that need it, never an axiom)
    pub uninterp spec fn spec_h(s: Seq<u8>) -> Hash;
    pub uninterp spec fn hash_bytes(h: Hash) -> Seq<u8>;
    impl Hasher {
        pub uninterp spec fn fed(&self) -> Seq<u8>;
        #[verifier::external_body]
        pub fn new() -> (r: Hasher) ensures r.fed() == Seq::<u8>::empty() { unimplemented!() }
        #[verifier::external_body]
        pub fn update(&mut self, input: &[u8]) -> (r: &mut Hasher)
            ensures final(self).fed() == old(self).fed() + input@
        { unimplemented!() }
        #[verifier::external_body]
        pub fn finalize(&self) -> (r: Hash) ensures r == spec_h(self.fed()) { unimplemented!() }
    }
    impl Hash {
        #[verifier::external_body]
        pub fn as_bytes(&self) -> (r: &[u8; 32]) ensures r@ == hash_bytes(*self) { unimplemented!() }
    }
}

