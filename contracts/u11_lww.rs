//@ unit u11_lww props C03 also C11 C02 C09
// Unit U11: the last-writer-wins rule applied to a row received during synchronisation (src/database/node.rs
// Node::filter_existing): which of two versions of a row is kept.  Convergence of replicas is a whole-history property and
// is NOT decided; what is decided here is the per-row rule it rests on: the incoming version replaces the stored one exactly
// when it is greater in the order (modification date, then signature), and that order is a strict total order, so the same
// version wins on every peer whatever the order in which versions arrive.
#![allow(unused_imports, unused_variables, dead_code, unused_mut, non_snake_case)]
use vstd::prelude::*;
use std::collections::{HashMap, HashSet, VecDeque};   // the std collections a change to the extracted code may reach for
verus! {
pub type Uid = [u8; 16];
pub struct Error { x: u8 }
pub type Result<T> = std::result::Result<T, Error>;
pub mod serde_json {
    use vstd::prelude::*;
    pub struct Error { x: u8 }
    pub struct Value { x: u8 }
    #[verifier::external_body]
    pub fn from_str(s: &String) -> (r: Result<Value, Error>) { unimplemented!() }
}
impl From<serde_json::Error> for Error {
    #[verifier::external_body]
    fn from(e: serde_json::Error) -> Error { unimplemented!() }
}
#[verifier::external_body]
pub fn extract_json(v: &serde_json::Value, out: &mut String) -> (r: Result<()>) { unimplemented!() }

//@ extract src/database/node.rs :: struct Node
//@ end
//@ extract src/database/node.rs :: struct NodeIdentifier
//@ end
//@ extract src/database/node.rs :: struct NodeToInsert
//@ end

//@ include common/lww_spec.rs
// E19: `a <= b` on Vec<u8> (std's lexicographic Ord; `le` is a provided trait method and cannot be given a specification) is
// replaced by this stub with the std meaning
#[verifier::external_body]
pub fn vec_u8_le(a: &Vec<u8>, b: &Vec<u8>) -> (r: bool) ensures r == sig_le(a@, b@) { a <= b }
// E19 (strict form): `a < b` on Vec<u8>: in a total order, a < b iff not b <= a
#[verifier::external_body]
pub fn vec_u8_lt(a: &Vec<u8>, b: &Vec<u8>) -> (r: bool) ensures r == !sig_le(b@, a@) { a < b }

/// the set of ids still to be requested from the peer (HashSet<NodeIdentifier> whose Eq/Hash look at the id only): modelled as a
/// partial map from id to the incoming version
pub struct IdSet { x: u8 }
impl IdSet {
    pub uninterp spec fn m(&self) -> Map<Seq<u8>, NodeIdentifier>;
    #[verifier::external_body]
    pub fn get(&self, k: &NodeIdentifier) -> (r: Option<&NodeIdentifier>)
        ensures match r { Some(n) => self.m().contains_key(k.id@) && *n == self.m()[k.id@], None => !self.m().contains_key(k.id@) }
    { unimplemented!() }
    #[verifier::external_body]
    pub fn remove(&mut self, k: &NodeIdentifier) -> (r: bool)
        ensures final(self).m() == old(self).m().remove(k.id@)
    { unimplemented!() }
    #[verifier::external_body]
    pub fn take(&mut self, k: &NodeIdentifier) -> (r: Option<NodeIdentifier>)
        ensures final(self).m() == old(self).m().remove(k.id@),
            match r { Some(n) => old(self).m().contains_key(k.id@) && n == old(self).m()[k.id@], None => !old(self).m().contains_key(k.id@) }
    { unimplemented!() }
}

/// version `a` of a row is newer than version `b`: later modification date, or same date and greater signature
pub open spec fn newer(a: NodeIdentifier, b: NodeIdentifier) -> bool { newer_v(a.mdate, a.signature@, b.mdate, b.signature@) }

//@ extract src/database/node.rs :: impl Node / fn filter_existing as Node::lww_decision
//@ lift "if let Some(new) = node_ids.get(&existing) {" :: fn lww_decision(new: &NodeIdentifier, existing: NodeIdentifier, node: Node, node_ids: &mut IdSet, result: &mut Vec<NodeToInsert>) -> Result<()> tail "Ok(())"
//@ result r
//@ rewrite E19 "\bnew\.signature\s*<=\s*existing\.signature\b" => "vec_u8_le(&new.signature, &existing.signature)" x*
//@ rewrite E19 "\bnew\.signature\s*<\s*existing\.signature\b" => "vec_u8_lt(&new.signature, &existing.signature)" x*
//@ rewrite E19 "\bnew\.signature\s*>\s*existing\.signature\b" => "vec_u8_lt(&existing.signature, &new.signature)" x*
//@ rewrite E19 "\bnew\.signature\s*>=\s*existing\.signature\b" => "vec_u8_le(&existing.signature, &new.signature)" x*
//@ rewrite E3 "serde_json::from_str\(&json_str\)" => "serde_json::from_str(&json_str)" x1
//@ spec
        requires old(node_ids).m().contains_key(existing.id@), *new == old(node_ids).m()[existing.id@],
        ensures
            // [incoming_version_requested_iff_newer] the incoming version of a row already stored is requested from the peer (and will replace the stored one) exactly when it is newer in the order (modification date, signature); in every case the id leaves the set of ids still to be decided
            r is Ok ==> final(node_ids).m() == old(node_ids).m().remove(existing.id@),
            r is Ok ==> (newer(*new, existing) ==> final(result)@.len() == old(result)@.len() + 1 && final(result)@.last().id == new.id
                            && final(result)@.last().old_mdate == node.mdate && final(result)@.last().old_room_id == node.room_id
                            && final(result)@.last().old_verifying_key == Some(node.verifying_key)),
            // [stored_version_date_travels_with_the_request]{C03,C11,C09} the modification date of the STORED version goes along with the request: it is the lower bound of the references that are fetched with the row (a deleted reference stays out because its deletion re-dated the source row) and the day whose log is recomputed
            r is Ok && newer(*new, existing) ==> final(result)@.len() > 0 && final(result)@.last().old_mdate == node.mdate,
            // [stored_entity_travels_with_the_request]{C02} the entity of the stored version goes along with the request: a stored row is replaced only by a version of the same entity (unit u2b_ingest decides it on this field)
            r is Ok && newer(*new, existing) ==> final(result)@.len() > 0 && final(result)@.last().old_entity == Some(node._entity),
            r is Ok ==> (!newer(*new, existing) ==> final(result)@ == old(result)@),
            // [announced_version_travels_with_the_request]{C03,C11} the version that was compared with the stored row - the announced one - is recorded with the request: the row delivered later is measured against it (F42)
            r is Ok && newer(*new, existing) ==> final(result)@.len() > 0 && final(result)@.last().announced_mdate == new.mdate && final(result)@.last().announced_signature@ == new.signature@,
//@ end

//@ obligation L_lww_strict_total_order props C03 : 'newer' is a strict total order on versions of a row (irreflexive, asymmetric, transitive, total on versions that differ in date or signature): whichever order versions arrive in, the maximal one replaces every other and is replaced by none, so the same version wins on every peer
pub proof fn L_lww_strict_total_order(a: NodeIdentifier, b: NodeIdentifier, c: NodeIdentifier)
    ensures
        !newer(a, a),
        newer(a, b) ==> !newer(b, a),
        newer(a, b) && newer(b, c) ==> newer(a, c),
        (a.mdate != b.mdate || a.signature@ != b.signature@) ==> newer(a, b) || newer(b, a),
{
    axiom_sig_le_total_order(a.signature@, b.signature@, c.signature@);
    axiom_sig_le_total_order(b.signature@, a.signature@, c.signature@);
    axiom_sig_le_total_order(b.signature@, c.signature@, a.signature@);
    axiom_sig_le_total_order(a.signature@, c.signature@, b.signature@);
    axiom_sig_le_total_order(c.signature@, b.signature@, a.signature@);
}
// ================================================================= rows not stored locally: a deleted version is not requested again (C11)
pub mod rusqlite { pub struct CachedStatement { x: u8 } }
/// the most recent modification date among the deletion records this peer stores for the row (None: never deleted here)
pub uninterp spec fn spec_deleted_mdate(id: Uid) -> Option<i64>;
impl Node {
    /// SELECT max(mdate) FROM _node_deletion_log WHERE id = ?  (SQL: ASSUMED to answer the stored deletion records)
    #[verifier::external_body]
    pub fn deleted_version_mdate(id: &Uid, deleted_stmt: &mut rusqlite::CachedStatement) -> (r: Result<Option<i64>>)
        ensures r is Ok ==> r->Ok_0 == spec_deleted_mdate(*id)
    { unimplemented!() }
}
/// "the deletion record found for this row id was logged for the room that is being synchronised": a fact nothing on this path establishes
pub uninterp spec fn deletion_record_of_the_synchronised_room(id: Uid) -> bool;
pub uninterp spec fn nondet(k: int) -> bool;
/// the property's rule: a version modified at `mdate` is the deleted version or an older one
pub open spec fn deleted_or_older(deleted: Option<i64>, mdate: i64) -> bool { deleted is Some && mdate <= deleted->Some_0 }

//@ extract src/database/node.rs :: impl Node / fn is_deleted_version
//@ result r
//@ spec
        ensures
            // [deleted_version_test_is_the_rule]{C11} the test applied to an incoming version is exactly: this peer holds a deletion record of the row for this version or a newer one
            r == deleted_or_older(deleted_mdate, mdate),
//@ end

//@ extract src/database/node.rs :: impl Node / fn filter_existing as Node::not_stored_locally
//@ lift "for node_id in node_ids.drain() {" :: fn not_stored_locally(node_id: NodeIdentifier, deleted_stmt0: rusqlite::CachedStatement, result: &mut Vec<NodeToInsert>) -> Result<()> tail "Ok(())"
//@ result r
//@ insert body-start
            let mut deleted_stmt = deleted_stmt0;   // E9: the prepared statement of the enclosing function
//@ insert after-stmt "let deleted_mdate = Self::deleted_version_mdate("
            proof {
            // [suppressing_deletion_record_is_of_the_synchronised_room]{C03} (known finding F37) only a deletion record of the room being synchronised may keep this peer from fetching a row announced for that room: the lookup is keyed by the row id alone (filter_existing is not even told which room is synchronised), so a record accepted for ANOTHER room - which any co-member of any room can produce for an id it knows - suppresses the fetch for ever
            if nondet(37) { assert(deleted_mdate is Some ==> deletion_record_of_the_synchronised_room(node_id.id)); }
            }
//@ spec
        ensures
            // [deleted_version_never_requested_again]{C11} an incoming version of a row that is not stored here is requested from the peer unless this peer has deleted that version or a newer one: then nothing is requested and the row cannot come back from a peer that has not seen the deletion
            r is Ok && deleted_or_older(spec_deleted_mdate(node_id.id), node_id.mdate) ==> final(result)@ == old(result)@,
            // [unknown_row_requested]{C11,C03} every other incoming row that is not stored here is requested, once
            r is Ok && !deleted_or_older(spec_deleted_mdate(node_id.id), node_id.mdate) ==> final(result)@.len() == old(result)@.len() + 1
                && final(result)@.subrange(0, old(result)@.len() as int) == old(result)@ && final(result)@.last().id == node_id.id && final(result)@.last().old_room_id is None
                // [announced_version_travels_with_the_request_for_an_unknown_row]{C11} .. with the announced version, the one the deletion log was consulted for (F42)
                && final(result)@.last().announced_mdate == node_id.mdate && final(result)@.last().announced_signature@ == node_id.signature@,
//@ end

//@ extract src/database/node.rs :: impl NodeToInsert / fn is_older_than_announced
//@ result r
//@ rewrite E19 "node\._signature < self\.announced_signature" => "vec_u8_lt(&node._signature, &self.announced_signature)" x1
//@ spec
        ensures
            // [older_than_announced_is_the_lww_order]{C03,C11} a delivered row is refused exactly when the announced version is newer than it in the order of the last-writer-wins rule (modification date, then signature)
            r == newer_v(self.announced_mdate, self.announced_signature@, node.mdate, node._signature@),
//@ end

//@ obligation L_delivered_version_passes_the_checks_of_the_announced_one props C03,C11 : a delivered version that is not older than the announced one is newer than the stored version the announced one was newer than, and is not a deleted version when the announced one was not: the checks of filter_existing carry over to what is stored
pub proof fn L_delivered_version_passes_the_checks_of_the_announced_one(ad: i64, asig: Seq<u8>, dd: i64, dsig: Seq<u8>, sd: i64, ssig: Seq<u8>, deleted: Option<i64>)
    requires !newer_v(ad, asig, dd, dsig),
    ensures
        newer_v(ad, asig, sd, ssig) ==> newer_v(dd, dsig, sd, ssig),
        !deleted_or_older(deleted, ad) ==> !deleted_or_older(deleted, dd),
{
    axiom_sig_le_total_order(asig, dsig, ssig);
    axiom_sig_le_total_order(dsig, asig, ssig);
    axiom_sig_le_total_order(asig, ssig, dsig);
    axiom_sig_le_total_order(dsig, ssig, asig);
}

} // verus!
fn main() {}
