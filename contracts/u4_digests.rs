//@ unit u4_digests props C06 C02 C07
// Unit U4: digests and signatures of synchronised rows (node.rs, edge.rs).
// Prelude: stubs of external crates (assumed contracts listed in DESIGN.md section 7),
// spec encodings (the wire format, written from the property's point of view: which
// fields a signature must bind) and the injectivity lemmas.
#![allow(unused_imports, unused_variables, dead_code, unused_mut, non_snake_case)]
use vstd::prelude::*;
use std::collections::{HashMap, HashSet, VecDeque};   // the std collections a change to the extracted code may reach for
verus! {

pub type Uid = [u8; 16];
pub struct SecError { x: u8 }
pub enum Error {
    Cryptography(SecError),
    Json(serde_json::Error),
    EdgeTooBig(usize, usize),
    InvalidNode(String),
    EmptyNodeEntity(),
    EmptyEdgeLabel(),
}
pub type Result<T> = std::result::Result<T, Error>;
impl From<serde_json::Error> for Error {
    #[verifier::external_body]
    fn from(e: serde_json::Error) -> Error { unimplemented!() }
}
impl From<SecError> for Error {
    #[verifier::external_body]
    fn from(e: SecError) -> Error { unimplemented!() }
}

//@ include common/blake3_stub.rs

// ---------------------------------------------------------------- serde_json (opaque)
pub mod serde_json {
    use vstd::prelude::*;
    pub struct Error { x: u8 }
    pub struct Value { x: u8 }
    pub struct JsonMap { x: u8 }
    pub uninterp spec fn spec_to_string(s: Seq<char>) -> Seq<char>;
    /// what serde_json::to_string produces for a value (the digest must be fed the serialisation of the STORED text itself)
    pub trait JsonSpec { spec fn json(&self) -> Seq<char>; }
    impl JsonSpec for String { open spec fn json(&self) -> Seq<char> { spec_to_string(self@) } }
    impl JsonSpec for Value { uninterp spec fn json(&self) -> Seq<char>; }
    #[verifier::external_body]
    pub fn to_string<T: JsonSpec>(v: &T) -> (r: Result<String, Error>)
        ensures r is Ok ==> r->Ok_0@ == v.json()
    { unimplemented!() }
    #[verifier::external_body]
    pub fn from_str(v: &String) -> (r: Result<Value, Error>) { unimplemented!() }
    impl Value {
        #[verifier::external_body]
        pub fn as_object(&self) -> (r: Option<&JsonMap>) { unimplemented!() }
    }
}
use serde_json::Value;

pub uninterp spec fn str_bytes(s: Seq<char>) -> Seq<u8>;
pub uninterp spec fn le8(x: i64) -> Seq<u8>;
pub assume_specification[ String::as_bytes ](s: &String) -> (r: &[u8])
    ensures r@ == str_bytes(s@);

pub assume_specification[ String::len ](s: &String) -> (r: usize)
    ensures r == str_bytes(s@).len();

// E12: the only std call that cannot be given an assume_specification
#[verifier::external_body]
pub fn std_i64_to_le_bytes(x: i64) -> (r: [u8; 8]) ensures r@ == le8(x) { x.to_le_bytes() }

// ---------------------------------------------------------------- keys (assumed: ed25519 as mathematics)
/// sig_ok(vk, msg, sig): `sig` verifies for message `msg` under the exported verifying key `vk`
pub uninterp spec fn sig_ok(vk: Seq<u8>, msg: Seq<u8>, sig: Seq<u8>) -> bool;
//@ include common/keys.rs
pub struct ImportedKey { k: Vec<u8> }
impl ImportedKey {
    pub uninterp spec fn key(&self) -> Seq<u8>;
    #[verifier::external_body]
    pub fn verify(&self, data: &[u8], signature: &[u8]) -> (r: std::result::Result<(), SecError>)
        ensures r is Ok ==> sig_ok(self.key(), data@, signature@)
    { unimplemented!() }
}
// stub of security::import_verifying_key (the real one is under contract in unit u9_decoders);
// returns the opaque key instead of Box<dyn VerifyingKey>
#[verifier::external_body]
pub fn import_verifying_key(veriying_key: &[u8]) -> (r: std::result::Result<Box<ImportedKey>, SecError>)
    ensures r is Ok ==> r->Ok_0.key() == veriying_key@ && veriying_key@.len() == 33
{ unimplemented!() }

// ================================================================= real items (regenerated on every run)
//@ extract src/database/edge.rs :: const MAX_EDGE_LENTGH
//@ end
//@ extract src/database/node.rs :: struct Node
//@ end
//@ extract src/database/edge.rs :: struct Edge
//@ end
//@ extract src/database/node.rs :: struct NodeDeletionEntry
//@ end
//@ extract src/database/edge.rs :: struct EdgeDeletionEntry
//@ end
//@ extract src/database/room_node.rs :: struct UserNode
//@ end
//@ extract src/database/room_node.rs :: struct EntityRightNode
//@ end
//@ extract src/database/room_node.rs :: struct AuthorisationNode
//@ end
//@ extract src/database/room_node.rs :: struct RoomNode
//@ end

// ---------------------------------------------------------------- the encodings a signature must cover
pub open spec fn opt_uid(o: Option<Uid>) -> Seq<u8> { match o { Some(r) => r@, None => Seq::<u8>::empty() } }
pub open spec fn opt_json(o: Option<String>) -> Seq<u8> {
    match o { Some(j) => str_bytes(serde_json::spec_to_string(j@)), None => Seq::<u8>::empty() } }
pub open spec fn opt_bin(o: Option<Vec<u8>>) -> Seq<u8> { match o { Some(b) => b@, None => Seq::<u8>::empty() } }

pub open spec fn node_enc(n: Node) -> Seq<u8> {
    n.id@ + opt_uid(n.room_id) + le8(n.cdate) + le8(n.mdate) + str_bytes(n._entity@)
    + opt_json(n._json) + opt_bin(n._binary) + n.verifying_key@
}
pub open spec fn edge_enc(e: Edge) -> Seq<u8> {
    e.src@ + str_bytes(e.src_entity@) + str_bytes(e.label@) + e.dest@ + le8(e.cdate) + e.verifying_key@
}
pub open spec fn node_del_enc(room: Seq<u8>, id: Uid, mdate: i64, entity: Seq<char>, deletion_date: i64, vk: Seq<u8>) -> Seq<u8> {
    room + id@ + le8(mdate) + str_bytes(entity) + le8(deletion_date) + vk
}
pub open spec fn edge_del_enc(room: Seq<u8>, src: Uid, src_entity: Seq<char>, label: Seq<char>, dest: Uid, cdate: i64,
                              deletion_date: i64, vk: Seq<u8>) -> Seq<u8> {
    room + src@ + str_bytes(src_entity) + str_bytes(label) + dest@ + le8(cdate) + le8(deletion_date) + vk
}
pub open spec fn edge_len(e: Edge) -> nat {
    16 + str_bytes(e.src_entity@).len() + str_bytes(e.label@).len() + 16 + 8 + e.verifying_key@.len() + e.signature@.len()
}

//@ extract src/database/node.rs :: impl Node / fn hash
//@ result r
//@ rewrite E12 "(self\.\w+)\.to_le_bytes\(\)" => "std_i64_to_le_bytes(\1)" x*
//@ spec
        ensures
            // [digest_covers_all_signed_fields] the node digest is H(id‖room_id?‖cdate‖mdate‖entity‖json?‖binary?‖verifying_key)
            r is Ok ==> r->Ok_0 == blake3::spec_h(node_enc(*self)),
//@ end

//@ extract src/database/node.rs :: impl Node / fn verify
//@ result r
//@ spec
        ensures
            // [verify_binds_digest] Ok only if the stored signature verifies for H(node_enc(self)) under the row's own key
            r is Ok ==> sig_ok(self.verifying_key@, blake3::hash_bytes(blake3::spec_h(node_enc(*self))), self._signature@),
            // [verify_rejects_empty_entity]
            r is Ok ==> self._entity@.len() > 0,
            // [verify_key_len]
            r is Ok ==> self.verifying_key@.len() == 33,
//@ end

//@ extract src/database/node.rs :: impl Node / fn sign
//@ result r
//@ spec
        ensures
            // [sign_sets_author] the row's author becomes the signing key
            r is Ok ==> final(self).verifying_key@ == signing_key.spec_vk(),
            // [sign_covers_final_row] the signature is over the digest of the row exactly as stored afterwards
            r is Ok ==> final(self)._signature@ == signing_key.spec_sign(blake3::hash_bytes(blake3::spec_h(node_enc(*final(self))))),
            // [sign_frame] nothing but author and signature changes
            final(self).id == old(self).id && final(self).room_id == old(self).room_id && final(self).cdate == old(self).cdate
              && final(self).mdate == old(self).mdate && final(self)._entity == old(self)._entity && final(self)._json == old(self)._json
              && final(self)._binary == old(self)._binary && final(self)._local_id == old(self)._local_id,
//@ end

//@ extract src/database/edge.rs :: impl Edge / fn len
//@ result r
//@ rewrite E13 "len \+= &self\." => "len += self." x*
//@ spec
        requires
            // machine arithmetic: the sum must fit (rows are bounded by MAX_EDGE_LENTGH on every path that stores them)
            edge_len(*self) <= usize::MAX,
        ensures
            r == edge_len(*self),
//@ end

//@ extract src/database/edge.rs :: impl Edge / fn hash
//@ result r
//@ rewrite E12 "(self\.\w+)\.to_le_bytes\(\)" => "std_i64_to_le_bytes(\1)" x*
//@ spec
        ensures
            // [digest_covers_all_signed_fields] the edge digest is H(src‖src_entity‖label‖dest‖cdate‖verifying_key)
            r == blake3::spec_h(edge_enc(*self)),
//@ end

//@ extract src/database/edge.rs :: impl Edge / fn verify
//@ result r
//@ spec
        requires edge_len(*self) <= usize::MAX,
        ensures
            // [verify_binds_digest]
            r is Ok ==> sig_ok(self.verifying_key@, blake3::hash_bytes(blake3::spec_h(edge_enc(*self))), self.signature@),
            // [verify_nonempty]
            r is Ok ==> self.src_entity@.len() > 0 && self.label@.len() > 0,
            // [verify_size_limit]
            r is Ok ==> edge_len(*self) <= MAX_EDGE_LENTGH,
            // [verify_key_len]
            r is Ok ==> self.verifying_key@.len() == 33,
//@ end

pub open spec fn node_verified(n: Node) -> bool {
    sig_ok(n.verifying_key@, blake3::hash_bytes(blake3::spec_h(node_enc(n))), n._signature@)
    && n._entity@.len() > 0 && n.verifying_key@.len() == 33
}
pub struct SignatureVerificationService { x: u8 }
//@ extract src/signature_verification_service.rs :: impl SignatureVerificationService / fn nodes_check
//@ result r
//@ loop "for node in &nodes" iter it
            invariant forall|i: int| 0 <= i < it.index@ ==> node_verified(#[trigger] nodes@[i]),
//@ spec
        ensures
            // [all_nodes_verified] Ok returns the input unchanged and every row in it passed verify()
            r is Ok ==> r->Ok_0 == nodes && forall|i: int| 0 <= i < nodes@.len() ==> node_verified(#[trigger] nodes@[i]),
//@ end

//@ extract src/database/edge.rs :: impl Edge / fn sign
//@ result r
//@ spec
        requires
            // machine arithmetic only: field lengths sum within usize whichever key signs
            16 + str_bytes(old(self).src_entity@).len() + str_bytes(old(self).label@).len() + 16 + 8
              + signing_key.spec_vk().len() + old(self).signature@.len() <= usize::MAX,
        ensures
            // [sign_sets_author]
            r is Ok ==> final(self).verifying_key@ == signing_key.spec_vk(),
            // [sign_covers_final_row] the signature is over the digest of the edge exactly as stored afterwards
            r is Ok ==> final(self).signature@ == signing_key.spec_sign(blake3::hash_bytes(blake3::spec_h(edge_enc(*final(self))))),
            // [sign_nonempty]
            r is Ok ==> final(self).src_entity@.len() > 0 && final(self).label@.len() > 0,
            // [sign_frame]
            final(self).src == old(self).src && final(self).src_entity == old(self).src_entity && final(self).label == old(self).label
              && final(self).dest == old(self).dest && final(self).cdate == old(self).cdate,
//@ end

pub open spec fn edge_verified(e: Edge) -> bool {
    sig_ok(e.verifying_key@, blake3::hash_bytes(blake3::spec_h(edge_enc(e))), e.signature@)
    && e.src_entity@.len() > 0 && e.label@.len() > 0 && edge_len(e) <= MAX_EDGE_LENTGH && e.verifying_key@.len() == 33
}
pub open spec fn node_del_verified(d: NodeDeletionEntry) -> bool {
    sig_ok(d.verifying_key@, blake3::hash_bytes(blake3::spec_h(
        node_del_enc(d.room_id@, d.id, d.mdate, d.entity@, d.deletion_date, d.verifying_key@))), d.signature@)
    && d.verifying_key@.len() == 33
}
pub open spec fn edge_del_verified(d: EdgeDeletionEntry) -> bool {
    sig_ok(d.verifying_key@, blake3::hash_bytes(blake3::spec_h(
        edge_del_enc(d.room_id@, d.src, d.src_entity@, d.label@, d.dest, d.cdate, d.deletion_date, d.verifying_key@))), d.signature@)
    && d.verifying_key@.len() == 33
}

//@ extract src/database/node.rs :: impl NodeDeletionEntry / fn sign
//@ result r
//@ rewrite E12 "(\w+(?:\.\w+)?)\.to_le_bytes\(\)" => "std_i64_to_le_bytes(\1)" x*
//@ spec
        ensures
            // [del_sign_encoding] a node tombstone signature is over H(room‖id‖mdate‖entity‖deletion_date‖verifying_key)
            r@ == signing_key.spec_sign(blake3::hash_bytes(blake3::spec_h(
                node_del_enc(room@, node.id, node.mdate, node._entity@, deletion_date, verifying_key@)))),
//@ end

//@ extract src/database/node.rs :: impl NodeDeletionEntry / fn verify
//@ result r
//@ rewrite E12 "(self\.\w+)\.to_le_bytes\(\)" => "std_i64_to_le_bytes(\1)" x*
//@ spec
        ensures
            // [del_verify_same_encoding] verify checks the signature against the very encoding sign() uses
            r is Ok ==> node_del_verified(*self),
//@ end

//@ extract src/database/edge.rs :: impl EdgeDeletionEntry / fn sign
//@ result r
//@ rewrite E12 "(\w+(?:\.\w+)?)\.to_le_bytes\(\)" => "std_i64_to_le_bytes(\1)" x*
//@ spec
        ensures
            // [del_sign_encoding]
            r@ == signing_key.spec_sign(blake3::hash_bytes(blake3::spec_h(
                edge_del_enc(room_id@, edge.src, edge.src_entity@, edge.label@, edge.dest, edge.cdate, deletion_date, verifying_key@)))),
//@ end

//@ extract src/database/edge.rs :: impl EdgeDeletionEntry / fn verify
//@ result r
//@ rewrite E12 "(self\.\w+)\.to_le_bytes\(\)" => "std_i64_to_le_bytes(\1)" x*
//@ spec
        ensures
            // [del_verify_same_encoding]
            r is Ok ==> edge_del_verified(*self),
//@ end

//@ extract src/database/node.rs :: impl NodeDeletionEntry / fn build
//@ result r
//@ spec
        ensures
            // [del_build_fields] the tombstone names the room, row, date and author it was signed for
            r.room_id == room && r.id == node.id && r.entity@ == node._entity@ && r.mdate == node.mdate
              && r.deletion_date == deletion_date && r.verifying_key@ == signing_key.spec_vk() && r.entity_name is None,
            // [del_build_signature] and its signature is the one verify() accepts for exactly these fields
            r.signature@ == signing_key.spec_sign(blake3::hash_bytes(blake3::spec_h(
                node_del_enc(r.room_id@, r.id, r.mdate, r.entity@, r.deletion_date, r.verifying_key@)))),
//@ end

//@ extract src/database/edge.rs :: impl EdgeDeletionEntry / fn build
//@ result r
//@ spec
        ensures
            // [del_build_fields]
            r.room_id == room_id && r.src == edge.src && r.src_entity@ == edge.src_entity@ && r.label@ == edge.label@ && r.dest == edge.dest
              && r.cdate == edge.cdate && r.deletion_date == deletion_date && r.verifying_key@ == signing_key.spec_vk() && r.entity_name is None,
            // [del_build_signature]
            r.signature@ == signing_key.spec_sign(blake3::hash_bytes(blake3::spec_h(
                edge_del_enc(r.room_id@, r.src, r.src_entity@, r.label@, r.dest, r.cdate, r.deletion_date, r.verifying_key@)))),
//@ end

//@ extract src/signature_verification_service.rs :: impl SignatureVerificationService / fn edges_check
//@ result r
//@ attr #[verifier::loop_isolation(false)]
//@ loop "for edge in &edges" iter it
            invariant forall|i: int| 0 <= i < it.index@ ==> edge_verified(#[trigger] edges@[i]),
//@ spec
        requires forall|i: int| 0 <= i < edges@.len() ==> edge_len(#[trigger] edges@[i]) <= usize::MAX,
        ensures
            // [all_edges_verified]
            r is Ok ==> r->Ok_0 == edges && forall|i: int| 0 <= i < edges@.len() ==> edge_verified(#[trigger] edges@[i]),
//@ end

//@ extract src/signature_verification_service.rs :: impl SignatureVerificationService / fn edge_log_check
//@ result r
//@ loop "for edge_log in &log" iter it
            invariant forall|i: int| 0 <= i < it.index@ ==> edge_del_verified(#[trigger] log@[i]),
//@ spec
        ensures
            // [all_edge_tombstones_verified]
            r is Ok ==> r->Ok_0 == log && forall|i: int| 0 <= i < log@.len() ==> edge_del_verified(#[trigger] log@[i]),
//@ end

//@ extract src/signature_verification_service.rs :: impl SignatureVerificationService / fn node_log_check
//@ result r
//@ loop "for node_log in &log" iter it
            invariant forall|i: int| 0 <= i < it.index@ ==> node_del_verified(#[trigger] log@[i]),
//@ spec
        ensures
            // [all_node_tombstones_verified]
            r is Ok ==> r->Ok_0 == log && forall|i: int| 0 <= i < log@.len() ==> node_del_verified(#[trigger] log@[i]),
//@ end

pub open spec fn edges_verified(s: Seq<Edge>) -> bool { forall|i: int| 0 <= i < s.len() ==> edge_verified(#[trigger] s[i]) }
pub open spec fn users_verified(s: Seq<UserNode>) -> bool { forall|i: int| 0 <= i < s.len() ==> node_verified((#[trigger] s[i]).node) }
pub open spec fn rights_verified(s: Seq<EntityRightNode>) -> bool { forall|i: int| 0 <= i < s.len() ==> node_verified((#[trigger] s[i]).node) }
pub open spec fn auth_verified(a: AuthorisationNode) -> bool {
    node_verified(a.node) && edges_verified(a.user_edges@) && users_verified(a.user_nodes@)
    && edges_verified(a.right_edges@) && rights_verified(a.right_nodes@)
    && edges_verified(a.user_admin_edges@) && users_verified(a.user_admin_nodes@)
}
pub open spec fn room_verified(n: RoomNode) -> bool {
    node_verified(n.node) && edges_verified(n.admin_edges@) && users_verified(n.admin_nodes@) && edges_verified(n.auth_edges@)
    && forall|i: int| 0 <= i < n.auth_nodes@.len() ==> auth_verified(#[trigger] n.auth_nodes@[i])
}
pub open spec fn edges_len_ok(s: Seq<Edge>) -> bool { forall|i: int| 0 <= i < s.len() ==> edge_len(#[trigger] s[i]) <= usize::MAX }
pub open spec fn room_len_ok(n: RoomNode) -> bool {
    edges_len_ok(n.admin_edges@) && edges_len_ok(n.auth_edges@)
    && forall|i: int| 0 <= i < n.auth_nodes@.len() ==> edges_len_ok((#[trigger] n.auth_nodes@[i]).user_edges@)
         && edges_len_ok(n.auth_nodes@[i].right_edges@) && edges_len_ok(n.auth_nodes@[i].user_admin_edges@)
}

//@ extract src/signature_verification_service.rs :: impl SignatureVerificationService / fn room_check
//@ result r
//@ attr #[verifier::loop_isolation(false)]
//@ loop "for edge in &node.admin_edges" iter it
            invariant forall|i: int| 0 <= i < it.index@ ==> edge_verified(#[trigger] node.admin_edges@[i]),
//@ loop "for user in &node.admin_nodes" iter it
            invariant forall|i: int| 0 <= i < it.index@ ==> node_verified((#[trigger] node.admin_nodes@[i]).node),
//@ loop "for edge in &node.auth_edges" iter it
            invariant forall|i: int| 0 <= i < it.index@ ==> edge_verified(#[trigger] node.auth_edges@[i]),
//@ loop "for auth in &node.auth_nodes" iter ita
            invariant forall|i: int| 0 <= i < ita.index@ ==> auth_verified(#[trigger] node.auth_nodes@[i]),
//@ loop "for edge in &auth.user_edges" iter it
            invariant forall|i: int| 0 <= i < it.index@ ==> edge_verified(#[trigger] auth.user_edges@[i]),
//@ loop "for user in &auth.user_nodes" iter it
            invariant forall|i: int| 0 <= i < it.index@ ==> node_verified((#[trigger] auth.user_nodes@[i]).node),
//@ loop "for edge in &auth.right_edges" iter it
            invariant forall|i: int| 0 <= i < it.index@ ==> edge_verified(#[trigger] auth.right_edges@[i]),
//@ loop "for right in &auth.right_nodes" iter it
            invariant forall|i: int| 0 <= i < it.index@ ==> node_verified((#[trigger] auth.right_nodes@[i]).node),
//@ loop "for edge in &auth.user_admin_edges" iter it
            invariant forall|i: int| 0 <= i < it.index@ ==> edge_verified(#[trigger] auth.user_admin_edges@[i]),
//@ loop "for user in &auth.user_admin_nodes" iter it
            invariant forall|i: int| 0 <= i < it.index@ ==> node_verified((#[trigger] auth.user_admin_nodes@[i]).node),
//@ spec
        requires room_len_ok(node),
        ensures
            // [whole_room_definition_verified]{C06,C07} Ok returns the input and every contained row and reference passed verify(): the room row, the admin list, the group list, and per group its users, rights and user admins
            r is Ok ==> r->Ok_0 == node && room_verified(node),
//@ end

// ================================================================= injectivity of the encodings (the property itself)
// Trusted facts about bytes (DESIGN 7): le8 is 8 bytes and injective (cross-checked on the real
// i64::to_le_bytes by a complete Kani harness), UTF-8 bytes of a str determine the str,
// serde_json::to_string is injective on strings.
pub mod trusted_bytes {
    use vstd::prelude::*;
    use super::*;
    #[verifier::external_body]
    pub proof fn axiom_le8(x: i64, y: i64)
        ensures le8(x).len() == 8, le8(y).len() == 8, le8(x) == le8(y) ==> x == y {}
    #[verifier::external_body]
    pub proof fn axiom_str_bytes_injective(a: Seq<char>, b: Seq<char>)
        ensures str_bytes(a) == str_bytes(b) ==> a == b {}
    #[verifier::external_body]
    pub proof fn axiom_json_string_injective(a: Seq<char>, b: Seq<char>)
        ensures serde_json::spec_to_string(a) == serde_json::spec_to_string(b) ==> a == b {}
}
use trusted_bytes::*;

pub proof fn lemma_split(p1: Seq<u8>, s1: Seq<u8>, p2: Seq<u8>, s2: Seq<u8>)
    requires p1 + s1 == p2 + s2, p1.len() == p2.len(),
    ensures p1 == p2, s1 == s2,
{
    let t = p1 + s1;
    assert(p1 =~= t.subrange(0, p1.len() as int));
    assert(p2 =~= t.subrange(0, p1.len() as int));
    assert(s1 =~= t.subrange(p1.len() as int, t.len() as int));
    assert(s2 =~= t.subrange(p1.len() as int, t.len() as int));
}
pub open spec fn cat(xs: Seq<Seq<u8>>) -> Seq<u8> decreases xs.len() {
    if xs.len() == 0 { Seq::<u8>::empty() } else { xs[0] + cat(xs.drop_first()) }
}
pub proof fn lemma_cat_injective(xs: Seq<Seq<u8>>, ys: Seq<Seq<u8>>)
    requires cat(xs) == cat(ys), xs.len() == ys.len(),
             forall|i: int| 0 <= i < xs.len() - 1 ==> (#[trigger] xs[i]).len() == ys[i].len(),
    ensures xs == ys,
    decreases xs.len(),
{
    if xs.len() == 0 {
        assert(xs =~= ys);
    } else if xs.len() == 1 {
        assert(cat(xs.drop_first()) == Seq::<u8>::empty());
        assert(cat(ys.drop_first()) == Seq::<u8>::empty());
        assert(xs[0] =~= cat(xs));
        assert(ys[0] =~= cat(ys));
        assert(xs =~= ys);
    } else {
        lemma_split(xs[0], cat(xs.drop_first()), ys[0], cat(ys.drop_first()));
        assert forall|i: int| 0 <= i < xs.drop_first().len() - 1 implies (#[trigger] xs.drop_first()[i]).len() == ys.drop_first()[i].len() by {
            assert(xs.drop_first()[i] == xs[i + 1]);
            assert(ys.drop_first()[i] == ys[i + 1]);
        }
        lemma_cat_injective(xs.drop_first(), ys.drop_first());
        assert forall|i: int| 0 <= i < xs.len() implies xs[i] == ys[i] by {
            if i > 0 { assert(xs[i] == xs.drop_first()[i - 1]); assert(ys[i] == ys.drop_first()[i - 1]); }
        }
        assert(xs =~= ys);
    }
}
pub open spec fn node_parts(n: Node) -> Seq<Seq<u8>> {
    seq![n.id@, opt_uid(n.room_id), le8(n.cdate), le8(n.mdate), str_bytes(n._entity@), opt_json(n._json), opt_bin(n._binary), n.verifying_key@]
}
pub proof fn lemma_cat8(p: Seq<Seq<u8>>)
    requires p.len() == 8,
    ensures cat(p) == p[0] + p[1] + p[2] + p[3] + p[4] + p[5] + p[6] + p[7],
{
    let p1 = p.drop_first(); let p2 = p1.drop_first(); let p3 = p2.drop_first(); let p4 = p3.drop_first();
    let p5 = p4.drop_first(); let p6 = p5.drop_first(); let p7 = p6.drop_first(); let p8 = p7.drop_first();
    assert(cat(p8) == Seq::<u8>::empty());
    assert(cat(p7) == p[7] + cat(p8));
    assert(cat(p6) == p[6] + cat(p7));
    assert(cat(p5) == p[5] + cat(p6));
    assert(cat(p4) == p[4] + cat(p5));
    assert(cat(p3) == p[3] + cat(p4));
    assert(cat(p2) == p[2] + cat(p3));
    assert(cat(p1) == p[1] + cat(p2));
    assert(cat(p) == p[0] + cat(p1));
    assert(cat(p) =~= p[0] + p[1] + p[2] + p[3] + p[4] + p[5] + p[6] + p[7]);
}

//@ obligation L_node_injective props C06 : two nodes with the same digest input agree on every signed field, provided the optional room is present in both or neither and the entity / json / binary fields have equal encoded lengths (the wire format has no length prefixes: see known findings for each dropped side condition)
pub proof fn L_node_injective(a: Node, b: Node)
    requires
        node_enc(a) == node_enc(b),
        a.room_id is Some <==> b.room_id is Some,
        str_bytes(a._entity@).len() == str_bytes(b._entity@).len(),
        opt_json(a._json).len() == opt_json(b._json).len(),
        a._json is Some <==> b._json is Some,
        opt_bin(a._binary).len() == opt_bin(b._binary).len(),
        a._binary is Some <==> b._binary is Some,
    ensures
        a.id == b.id, a.room_id == b.room_id, a.cdate == b.cdate, a.mdate == b.mdate, a._entity@ == b._entity@,
        a._json is Some ==> a._json->Some_0@ == b._json->Some_0@,
        a._binary is Some ==> a._binary->Some_0@ == b._binary->Some_0@,
        a.verifying_key@ == b.verifying_key@,
{
    let pa = node_parts(a); let pb = node_parts(b);
    lemma_cat8(pa); lemma_cat8(pb);
    axiom_le8(a.cdate, b.cdate); axiom_le8(a.mdate, b.mdate);
    assert(a.id@.len() == 16 && b.id@.len() == 16);
    if a.room_id is Some { assert(a.room_id->Some_0@.len() == 16 && b.room_id->Some_0@.len() == 16); }
    assert(pa[0].len() == pb[0].len() && pa[1].len() == pb[1].len() && pa[2].len() == pb[2].len() && pa[3].len() == pb[3].len()
        && pa[4].len() == pb[4].len() && pa[5].len() == pb[5].len() && pa[6].len() == pb[6].len());
    assert forall|i: int| 0 <= i < pa.len() - 1 implies (#[trigger] pa[i]).len() == pb[i].len() by {
        if i == 0 {} else if i == 1 {} else if i == 2 {} else if i == 3 {} else if i == 4 {} else if i == 5 {} else {}
    }
    lemma_cat_injective(pa, pb);
    assert(pa[0] == pb[0] && pa[1] == pb[1] && pa[2] == pb[2] && pa[3] == pb[3] && pa[4] == pb[4] && pa[5] == pb[5] && pa[6] == pb[6] && pa[7] == pb[7]);
    assert(a.id@ == b.id@);
    assert(a.id =~= b.id);
    if a.room_id is Some { assert(a.room_id->Some_0@ == b.room_id->Some_0@); assert(a.room_id->Some_0 =~= b.room_id->Some_0); }
    axiom_str_bytes_injective(a._entity@, b._entity@);
    if a._json is Some {
        axiom_str_bytes_injective(serde_json::spec_to_string(a._json->Some_0@), serde_json::spec_to_string(b._json->Some_0@));
        axiom_json_string_injective(a._json->Some_0@, b._json->Some_0@);
    }
}

pub open spec fn edge_parts(e: Edge) -> Seq<Seq<u8>> {
    seq![e.src@, str_bytes(e.src_entity@), str_bytes(e.label@), e.dest@, le8(e.cdate), e.verifying_key@]
}
pub proof fn lemma_cat6(p: Seq<Seq<u8>>)
    requires p.len() == 6,
    ensures cat(p) == p[0] + p[1] + p[2] + p[3] + p[4] + p[5],
{
    let p1 = p.drop_first(); let p2 = p1.drop_first(); let p3 = p2.drop_first(); let p4 = p3.drop_first();
    let p5 = p4.drop_first(); let p6 = p5.drop_first();
    assert(cat(p6) == Seq::<u8>::empty());
    assert(cat(p5) == p[5] + cat(p6));
    assert(cat(p4) == p[4] + cat(p5));
    assert(cat(p3) == p[3] + cat(p4));
    assert(cat(p2) == p[2] + cat(p3));
    assert(cat(p1) == p[1] + cat(p2));
    assert(cat(p) == p[0] + cat(p1));
    assert(cat(p) =~= p[0] + p[1] + p[2] + p[3] + p[4] + p[5]);
}
//@ obligation L_edge_injective props C06 : two references with the same digest input agree on every signed field provided their source-entity names have equal length (the src_entity/label boundary is not delimited: known finding)
pub proof fn L_edge_injective(a: Edge, b: Edge)
    requires
        edge_enc(a) == edge_enc(b),
        str_bytes(a.src_entity@).len() == str_bytes(b.src_entity@).len(),
        a.verifying_key@.len() == 33, b.verifying_key@.len() == 33,   // enforced by verify()
    ensures
        a.src == b.src, a.src_entity@ == b.src_entity@, a.label@ == b.label@, a.dest == b.dest, a.cdate == b.cdate,
        a.verifying_key@ == b.verifying_key@,
{
    let pa = edge_parts(a); let pb = edge_parts(b);
    lemma_cat6(pa); lemma_cat6(pb);
    axiom_le8(a.cdate, b.cdate);
    // total lengths equal and all but the label fixed => label lengths equal
    assert(edge_enc(a).len() == edge_enc(b).len());
    assert(a.src@.len() == 16 && b.src@.len() == 16 && a.dest@.len() == 16 && b.dest@.len() == 16);
    assert(edge_enc(a).len() == 16 + str_bytes(a.src_entity@).len() + str_bytes(a.label@).len() + 16 + 8 + 33);
    assert(edge_enc(b).len() == 16 + str_bytes(b.src_entity@).len() + str_bytes(b.label@).len() + 16 + 8 + 33);
    assert(str_bytes(a.label@).len() == str_bytes(b.label@).len());
    assert(pa[0].len() == pb[0].len() && pa[1].len() == pb[1].len() && pa[2].len() == pb[2].len() && pa[3].len() == pb[3].len()
        && pa[4].len() == pb[4].len());
    assert forall|i: int| 0 <= i < pa.len() - 1 implies (#[trigger] pa[i]).len() == pb[i].len() by {
        if i == 0 {} else if i == 1 {} else if i == 2 {} else if i == 3 {} else {}
    }
    lemma_cat_injective(pa, pb);
    assert(pa[0] == pb[0] && pa[1] == pb[1] && pa[2] == pb[2] && pa[3] == pb[3] && pa[4] == pb[4] && pa[5] == pb[5]);
    assert(a.src =~= b.src); assert(a.dest =~= b.dest);
    axiom_str_bytes_injective(a.src_entity@, b.src_entity@);
    axiom_str_bytes_injective(a.label@, b.label@);
}
// ================================================================= the verification threads: what a reply may carry
/// "every row in it passed verify()", per payload type of a reply
pub trait VerifiedPayload { spec fn all_verified(&self) -> bool; }
impl VerifiedPayload for Vec<Node> { open spec fn all_verified(&self) -> bool { forall|i: int| 0 <= i < self@.len() ==> node_verified(#[trigger] self@[i]) } }
impl VerifiedPayload for Vec<Edge> { open spec fn all_verified(&self) -> bool { edges_verified(self@) } }
impl VerifiedPayload for Vec<EdgeDeletionEntry> { open spec fn all_verified(&self) -> bool { forall|i: int| 0 <= i < self@.len() ==> edge_del_verified(#[trigger] self@[i]) } }
impl VerifiedPayload for Vec<NodeDeletionEntry> { open spec fn all_verified(&self) -> bool { forall|i: int| 0 <= i < self@.len() ==> node_del_verified(#[trigger] self@[i]) } }
impl VerifiedPayload for RoomNode { open spec fn all_verified(&self) -> bool { room_verified(*self) } }
pub struct SendErr { x: u8 }
pub mod oneshot {
    use vstd::prelude::*;
    pub struct Sender<T> { x: Option<T> }
    impl<T: super::VerifiedPayload> Sender<super::Result<T>> {
        #[verifier::external_body]
        pub fn send(self, t: super::Result<T>) -> (r: std::result::Result<(), super::SendErr>)
            // [verification_reply_carries_only_verified_rows] whatever a verification thread answers with `Ok` has passed the matching *_check: every row in it was verified
            requires t is Ok ==> t->Ok_0.all_verified(),
        { unimplemented!() }
    }
    impl Sender<bool> {
        #[verifier::external_body]
        pub fn send(self, t: bool) -> (r: std::result::Result<(), super::SendErr>) { unimplemented!() }
    }
}
//@ extract src/signature_verification_service.rs :: enum VerificationMessage
//@ end
pub struct RecvErr { x: u8 }
pub struct FlumeReceiver<T> { x: Option<T> }
/// machine arithmetic only: the variable-length fields of a message that sits in memory sum within usize (the preconditions of
/// edges_check / room_check)
pub open spec fn msg_fits_in_memory(m: VerificationMessage) -> bool {
    match m {
        VerificationMessage::Edges(edges, _) => forall|i: int| 0 <= i < edges@.len() ==> edge_len(#[trigger] edges@[i]) <= usize::MAX,
        VerificationMessage::RoomNode(node, _) => room_len_ok(*node),
        _ => true,
    }
}
impl FlumeReceiver<VerificationMessage> {
    #[verifier::external_body]
    pub fn recv(&self) -> (r: std::result::Result<VerificationMessage, RecvErr>) ensures r is Ok ==> msg_fits_in_memory(r->Ok_0) { unimplemented!() }
}
//@ extract src/signature_verification_service.rs :: impl SignatureVerificationService / fn start as SignatureVerificationService::lifted_verification_thread
//@ lift "thread::spawn(move || {" :: fn lifted_verification_thread(local_receiver: FlumeReceiver<VerificationMessage>)
//@ attr #[verifier::exec_allows_no_decreases_clause]
//@ insert-each before-stmt "let _ = reply.send(true);"
                                        // [hash_check_answers_true_only_for_a_valid_signature] the stand-alone signature check answers true only if the signature verifies over the given digest under the given key
                                        assert(sig_ok(verifying_key@, hash@, signature@));
//@ end

//@ obligation L_edge_digest_binds_the_field_boundary props C06 : (known finding F7, expected to fail) without the side condition of L_edge_injective: two references with the same digest input have the same source entity and the same label - false, the boundary between the two names is not delimited, so one signature is valid for ("1.1","23") and for ("1.12","3")
pub uninterp spec fn nondet_f7() -> bool;
pub proof fn L_edge_digest_binds_the_field_boundary(a: Edge, b: Edge)
    requires
        edge_enc(a) == edge_enc(b),
        a.verifying_key@.len() == 33, b.verifying_key@.len() == 33,
    ensures
        // [edge_digest_binds_the_boundary_between_entity_and_label]
        nondet_f7() ==> a.src_entity@ == b.src_entity@ && a.label@ == b.label@,
{
}

} // verus!
fn main() {}
