// Kani harnesses for the byte-level decoders fed from the network (unit U9, property C14).
// Woven into a scratch copy of the crate as `#[cfg(kani)] mod verif_kani;` (lib.rs) by tools/kani_run.py;
// /repo itself is never edited.  Each harness calls the REAL function on symbolic input and relies on
// Kani's built-in checks (index out of bounds, slice range, unwrap on None/Err, arithmetic overflow, explicit panics).
// Input lengths are symbolic up to MAXLEN: BOUNDED stand-ins (bound stated per harness), never counted as proved.
#![allow(dead_code, unused_imports)]
use crate::security::*;

const MAXLEN: usize = 80;

fn any_slice(buf: &[u8; MAXLEN]) -> &[u8] {
    let len: usize = kani::any();
    kani::assume(len <= MAXLEN);
    &buf[..len]
}

// ---- stubs for the cryptographic primitives (curve arithmetic is irrelevant to panic-freedom of the decoders)
fn stub_vk_from_bytes(_bytes: &[u8; 32]) -> Result<ed25519_dalek::VerifyingKey, ed25519_dalek::SignatureError> {
    Err(ed25519_dalek::SignatureError::new())
}
fn stub_fmt_format(_args: core::fmt::Arguments<'_>) -> String {
    String::new()
}

/// import_verifying_key never panics, whatever bytes a peer sends (lengths 0..=80)
#[kani::proof]
#[kani::stub(ed25519_dalek::VerifyingKey::from_bytes, stub_vk_from_bytes)]
#[kani::stub(alloc::fmt::format, stub_fmt_format)]
fn import_verifying_key_total() {
    let buf: [u8; MAXLEN] = kani::any();
    let s = any_slice(&buf);
    let r = import_verifying_key(s);
    // with the stub every well-formed key is reported as a signature error; nothing else may be accepted
    if s.len() != 33 || s[0] != 1 {
        assert!(r.is_err());
    }
}

/// uid_from: a Vec<u8> of any length gives Ok exactly for 16 bytes, never a panic
#[kani::proof]
#[kani::unwind(20)]
fn uid_from_total() {
    let len: usize = kani::any();
    kani::assume(len <= 18);
    let mut v: Vec<u8> = Vec::new();
    let mut i = 0;
    while i < len {
        v.push(kani::any());
        i += 1;
    }
    let r = uid_from(v);
    assert!(r.is_ok() == (len == 16));
}

fn stub_vk_verify(_vk: &ed25519_dalek::VerifyingKey, _msg: &[u8], _sig: &ed25519_dalek::Signature) -> Result<(), ed25519_dalek::SignatureError> {
    if kani::any() { Ok(()) } else { Err(ed25519_dalek::SignatureError::new()) }
}
fn stub_base64_decode(_data: &[u8]) -> Result<Vec<u8>, Error> {
    // an arbitrary decoding result: error, or a vector of arbitrary length 0..=24 and content
    if kani::any() {
        return Err(Error::Uid());
    }
    let len: usize = kani::any();
    kani::assume(len <= 24);
    let mut v: Vec<u8> = Vec::new();
    let mut i = 0;
    while i < len {
        v.push(kani::any());
        i += 1;
    }
    Ok(v)
}

/// Ed2519VerifyingKey::verify never panics on a signature of any length 0..=80 (the key itself is opaque: verify is stubbed)
#[kani::proof]
#[kani::stub(ed25519_dalek::VerifyingKey::verify, stub_vk_verify)]
#[kani::stub(alloc::fmt::format, stub_fmt_format)]
fn verifying_key_verify_total() {
    let vk: ed25519_dalek::VerifyingKey = unsafe { core::mem::zeroed() };
    let key = Ed2519VerifyingKey { veriying_key: vk };
    let buf: [u8; MAXLEN] = kani::any();
    let sig = any_slice(&buf);
    let data: [u8; 32] = kani::any();
    let r = VerifyingKey::verify(&key, &data, sig);
    if sig.len() != 64 {
        assert!(r.is_err());
    }
}

/// MeetingSecret::decode_token: whatever the base64 layer returns (error, 0..=24 bytes), no panic; Ok needs >= 7 bytes
#[kani::proof]
#[kani::unwind(26)]
#[kani::stub(crate::security::base64_decode, stub_base64_decode)]
fn decode_token_total() {
    let r = MeetingSecret::decode_token("x");
    let _ = r;
}

/// uid_decode: whatever the base64 layer returns, no panic
#[kani::proof]
#[kani::unwind(26)]
#[kani::stub(crate::security::base64_decode, stub_base64_decode)]
fn uid_decode_total() {
    let r = uid_decode("x");
    let _ = r;
}

/// date(): total on every i64 timestamp a peer can put in a row (chrono's range is narrower than i64)
#[kani::proof]
fn date_total() {
    let t: i64 = kani::any();
    let _ = crate::date_utils::date(t);
}
#[kani::proof]
fn date_next_day_total() {
    let t: i64 = kani::any();
    let _ = crate::date_utils::date_next_day(t);
}

/// i64::to_le_bytes is 8 bytes and injective (the trusted axiom `axiom_le8` of unit u4_digests), for all pairs of i64
#[kani::proof]
fn le8_injective() {
    let x: i64 = kani::any();
    let y: i64 = kani::any();
    let a = x.to_le_bytes();
    let b = y.to_le_bytes();
    assert!(a.len() == 8);
    if a == b {
        assert!(x == y);
    }
}
