//!
//! Witness F44, property C09: the daily log is a function of the stored content, nothing else.
//!
//! A batch of deletion records received from a peer is stored by NodeDeletionEntry::delete_all (WriteMessage::DeleteNodes).
//! The record names one version of the row (id, mdate) but the row is deleted by (room_id, id), whatever the version that is stored:
//! when the stored version is a newer one, modified on another day than the version named by the record,
//! the day of the stored version loses a row and must be recomputed too.
//!
//! After the recompute barrier every row of _daily_log is compared with a from-scratch computation over _node and the deletion logs.
//!
use std::{collections::HashMap, collections::HashSet, fs, path::PathBuf};

use rusqlite::Connection;
use tokio::sync::{mpsc, oneshot};

use crate::{
    database::{
        daily_log::DailyLogsUpdate,
        graph_database::DbMessage,
        node::{Node, NodeDeletionEntry, NodeIdentifier, NodeToInsert},
        sqlite_database::{create_connection, BufferedDatabaseWriter, WriteMessage},
        Result,
    },
    security::{base64_encode, new_uid, random32, Ed25519SigningKey, Uid},
};

const MS_PER_DAY: i64 = 86_400_000;

fn day_of(date_time: i64) -> i64 {
    date_time - date_time.rem_euclid(MS_PER_DAY)
}

fn database_path(name: &str) -> PathBuf {
    let mut path: PathBuf = format!(
        "test_data/tmp/verif_witness_f44_{}_{}",
        name,
        base64_encode(&new_uid())
    )
    .into();
    fs::create_dir_all(&path).unwrap();
    path.push("data.db");
    path
}

type DayKey = (Uid, String, i64);

///
/// independent from-scratch computation: for every (room, entity, day),
/// the number of stored rows and deletion records of that day and the hash of their sorted signatures
///
fn from_scratch(conn: &Connection) -> HashMap<DayKey, (u32, Vec<u8>)> {
    let mut signatures: HashMap<DayKey, Vec<Vec<u8>>> = HashMap::new();
    let queries = [
        "SELECT room_id, _entity, mdate, _signature FROM _node WHERE room_id IS NOT NULL",
        "SELECT room_id, entity, deletion_date, signature FROM _node_deletion_log",
        "SELECT room_id, src_entity, deletion_date, signature FROM _edge_deletion_log",
    ];
    for query in queries {
        let mut stmt = conn.prepare(query).unwrap();
        let mut rows = stmt.query([]).unwrap();
        while let Some(row) = rows.next().unwrap() {
            let room: Uid = row.get(0).unwrap();
            let entity: String = row.get(1).unwrap();
            let date: i64 = row.get(2).unwrap();
            let signature: Vec<u8> = row.get(3).unwrap();
            signatures
                .entry((room, entity, day_of(date)))
                .or_default()
                .push(signature);
        }
    }
    let mut res = HashMap::new();
    for (key, mut sigs) in signatures {
        sigs.sort();
        let mut hasher = blake3::Hasher::new();
        for s in &sigs {
            hasher.update(s);
        }
        res.insert(
            key,
            (sigs.len() as u32, hasher.finalize().as_bytes().to_vec()),
        );
    }
    res
}

///
/// compares every row of _daily_log with the from-scratch computation
///
fn assert_log_is_function_of_content(conn: &Connection, step: &str) {
    let expected = from_scratch(conn);

    let mut stmt = conn
        .prepare("SELECT room_id, entity, date, entry_number, daily_hash, need_recompute FROM _daily_log")
        .unwrap();
    let mut rows = stmt.query([]).unwrap();
    let mut seen: HashSet<DayKey> = HashSet::new();
    while let Some(row) = rows.next().unwrap() {
        let room: Uid = row.get(0).unwrap();
        let entity: String = row.get(1).unwrap();
        let date: i64 = row.get(2).unwrap();
        let entry_number: u32 = row.get(3).unwrap();
        let daily_hash: Option<Vec<u8>> = row.get(4).unwrap();
        let need_recompute: bool = row.get(5).unwrap();
        let key = (room, entity.clone(), date);

        assert!(
            !need_recompute,
            "{step}: day {date} of entity {entity} is still waiting for a recomputation after the recompute barrier"
        );
        let (exp_number, exp_hash) = match expected.get(&key) {
            Some((n, h)) => (*n, Some(h.clone())),
            None => (0, None),
        };
        assert_eq!(
            exp_number, entry_number,
            "{step}: C09 violated: the stored entry count of day {date} ({entry_number}) is not the number of rows and deletion records stored for that day ({exp_number})"
        );
        assert_eq!(
            exp_hash, daily_hash,
            "{step}: C09 violated: the stored daily hash of day {date} is not the hash recomputed from scratch over the rows and deletion records stored for that day"
        );
        seen.insert(key);
    }
    for key in expected.keys() {
        assert!(
            seen.contains(key),
            "{step}: C09 violated: rows or deletion records are stored for day {} of entity {} but the daily log has no entry for that day",
            key.2,
            key.1
        );
    }
}

async fn recompute_barrier(writer: &BufferedDatabaseWriter) {
    let (reply, mut receive) = mpsc::channel::<DbMessage>(1);
    writer
        .send(WriteMessage::ComputeDailyLog(
            DailyLogsUpdate::default(),
            reply,
        ))
        .await
        .unwrap();
    match receive.recv().await.unwrap() {
        DbMessage::DailyLogComputed(res) => {
            res.unwrap();
        }
        _ => unreachable!(),
    }
}

///
/// what synchronise_day does with one announced row
///
async fn receive_node(node: &Node, conn: &Connection, writer: &BufferedDatabaseWriter) -> usize {
    let mut announced = HashSet::new();
    announced.insert(NodeIdentifier {
        id: node.id,
        mdate: node.mdate,
        signature: node._signature.clone(),
    });
    let filtered: Vec<NodeToInsert> = Node::filter_existing(&mut announced, conn).unwrap();
    let mut to_insert = Vec::new();
    for mut nti in filtered {
        let mut delivered = node.clone();
        delivered._local_id = nti.old_local_id;
        nti.node = Some(delivered);
        to_insert.push(nti);
    }
    let number = to_insert.len();
    let (reply, receive) = oneshot::channel::<Result<Vec<Uid>>>();
    writer
        .send(WriteMessage::Nodes(to_insert, Vec::new(), reply))
        .await
        .unwrap();
    receive.await.unwrap().unwrap();
    number
}

///
/// what synchronise_day does with a batch of deletion records, once they are verified and authorised
///
async fn receive_node_deletions(entries: Vec<NodeDeletionEntry>, writer: &BufferedDatabaseWriter) {
    let (reply, receive) = oneshot::channel::<Result<()>>();
    writer
        .send(WriteMessage::DeleteNodes(entries, reply))
        .await
        .unwrap();
    receive.await.unwrap().unwrap();
}

fn copy(entry: &NodeDeletionEntry) -> NodeDeletionEntry {
    NodeDeletionEntry {
        room_id: entry.room_id,
        id: entry.id,
        entity: entry.entity.clone(),
        mdate: entry.mdate,
        deletion_date: entry.deletion_date,
        verifying_key: entry.verifying_key.clone(),
        signature: entry.signature.clone(),
        entity_name: None,
    }
}

#[tokio::test(flavor = "multi_thread")]
async fn verif_witness_f44_deleting_a_newer_stored_version_marks_its_day() {
    let secret = random32();
    let signing_key = Ed25519SigningKey::new();
    let room_id = new_uid();
    let entity = "Pet";

    let day_1 = 19_000 * MS_PER_DAY;
    let day_2 = day_1 + MS_PER_DAY;
    let day_4 = day_1 + 3 * MS_PER_DAY;

    //two rows created on day 1
    let mut kept = Node {
        room_id: Some(room_id),
        _entity: String::from(entity),
        cdate: day_1 + 1000,
        mdate: day_1 + 1000,
        _json: Some(String::from(r#"{"name":"kept"}"#)),
        ..Default::default()
    };
    kept.sign(&signing_key).unwrap();

    let mut version_1 = Node {
        room_id: Some(room_id),
        _entity: String::from(entity),
        cdate: day_1 + 2000,
        mdate: day_1 + 2000,
        _json: Some(String::from(r#"{"name":"version of day 1"}"#)),
        ..Default::default()
    };
    version_1.sign(&signing_key).unwrap();

    //a peer that has not seen the deletion modifies the second row on day 4
    let mut version_4 = version_1.clone();
    version_4.mdate = day_4 + 3000;
    version_4._json = Some(String::from(r#"{"name":"version of day 4"}"#));
    version_4.sign(&signing_key).unwrap();
    assert_eq!(version_1.id, version_4.id);

    //another peer has deleted the day 1 version on day 2: the record names (id, mdate of day 1)
    let deletion = NodeDeletionEntry::build(room_id, &version_1, day_2 + 4000, &signing_key);
    deletion.verify().unwrap();
    assert_eq!(day_1, day_of(deletion.mdate));
    assert_eq!(day_2, day_of(deletion.deletion_date));

    let path = database_path("peer");
    let conn = create_connection(&path, &secret, 1024, false).unwrap();
    let writer = BufferedDatabaseWriter::start(10, &path, &secret, 1024, false).unwrap();

    for node in [&kept, &version_1] {
        assert_eq!(1, receive_node(node, &conn, &writer).await);
    }
    recompute_barrier(&writer).await;
    assert_log_is_function_of_content(&conn, "two rows of day 1");

    //the newer version replaces the stored one: day 1 loses a row, day 4 gets one
    assert_eq!(1, receive_node(&version_4, &conn, &writer).await);
    recompute_barrier(&writer).await;
    assert_log_is_function_of_content(&conn, "newer version of day 4");

    let stored_mdate: i64 = conn
        .query_row(
            "SELECT mdate FROM _node WHERE room_id = ? AND id = ?",
            (&room_id, &version_4.id),
            |r| r.get(0),
        )
        .unwrap();
    assert_eq!(version_4.mdate, stored_mdate, "the stored version is the one of day 4");

    //the deletion record of the day 1 version is received afterwards
    receive_node_deletions(vec![copy(&deletion)], &writer).await;
    recompute_barrier(&writer).await;

    let stored: i64 = conn
        .query_row(
            "SELECT count(1) FROM _node WHERE room_id = ? AND id = ?",
            (&room_id, &version_4.id),
            |r| r.get(0),
        )
        .unwrap();
    assert_eq!(0, stored, "the stored row is deleted, whatever its version");
    let records: i64 = conn
        .query_row(
            "SELECT count(1) FROM _node_deletion_log WHERE id = ?",
            [&version_4.id],
            |r| r.get(0),
        )
        .unwrap();
    assert_eq!(1, records, "the deletion record is stored");

    assert_log_is_function_of_content(
        &conn,
        &format!(
            "deletion record naming the day {day_1} version, dated day {day_2}, while the stored version is of day {day_4}"
        ),
    );
}
