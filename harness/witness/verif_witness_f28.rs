//! Witness for F28 (property C20): a connection that ends releases what it held.
//!
//! Child module of `room_locking_service.rs`.
//!
//! The real `RoomLockService::start(1)` is used. What is NOT the real code is the "connection end":
//! in the library these lines are inline in the task spawned by `LocalPeerService::start`
//! (peer_inbound_service.rs, after the main `select!` loop), so they cannot be called on their own.
//! `connection_end` below MIRRORS them:
//!   - unmodified library:  drain `acquired_lock`, `LocalPeerService::cleanup(&lock_service, rooms)`,
//!                          then the grant receiver is dropped with the task;
//!   - repaired library:    the same, plus `lock_receiver.close(); while let Ok(room) = lock_receiver.try_recv() { lock_service.unlock(room).await; }`
//! The variant is chosen by looking at the source text of peer_inbound_service.rs (`include_str!`):
//! the extra step is mirrored only when `lock_receiver.close()` is present in the library.

use std::collections::{HashSet, VecDeque};
use std::time::Duration;

use tokio::sync::mpsc;

use super::RoomLockService;
use crate::security::{new_uid, random32, Uid};
use crate::synchronisation::peer_inbound_service::LocalPeerService;

const PEER_INBOUND_SRC: &str = include_str!("peer_inbound_service.rs");

/// bounded wait used for "is granted within a bounded time"
const GRANT_WAIT: Duration = Duration::from_secs(3);

fn library_has_repair() -> bool {
    PEER_INBOUND_SRC.contains("lock_receiver.close()")
}

///
/// Deterministic barrier: the service loop handles its messages one after the other and its channel holds at most
/// LOCK_CHANNEL_SIZE (2) messages. Once 3 more messages have been accepted, at least one of them has been taken out
/// of the channel by the loop, which means every message sent BEFORE the barrier has been completely processed.
/// The messages are `Unlock` of a room nobody holds: no effect on the service state.
///
async fn barrier(lock_service: &RoomLockService) {
    for _ in 0..3 {
        lock_service.unlock(new_uid()).await;
    }
}

///
/// Mirror of the end-of-connection code of `LocalPeerService::start`
///
async fn connection_end(
    lock_service: &RoomLockService,
    acquired_lock: &mut HashSet<Uid>,
    mut lock_receiver: mpsc::UnboundedReceiver<Uid>,
) {
    let mut rooms: Vec<Uid> = Vec::new();
    for room in acquired_lock.drain() {
        rooms.push(room);
    }
    LocalPeerService::cleanup(lock_service, rooms).await;

    if library_has_repair() {
        lock_receiver.close();
        while let Ok(room) = lock_receiver.try_recv() {
            lock_service.unlock(room).await;
        }
    }
    // the receiver was owned by the connection task: it disappears with it
    drop(lock_receiver);
}

async fn granted_within(rx: &mut mpsc::UnboundedReceiver<Uid>, wait: Duration) -> Option<Uid> {
    match tokio::time::timeout(wait, rx.recv()).await {
        Ok(Some(room)) => Some(room),
        _ => None,
    }
}

#[test]
fn f28_mirror_is_anchored_in_the_library_source() {
    // the lines mirrored by `connection_end` are the ones of LocalPeerService::start
    assert!(PEER_INBOUND_SRC.contains("for room in acquere.drain()"));
    assert!(PEER_INBOUND_SRC.contains("Self::cleanup(&lock_service, rooms).await;"));
    assert!(PEER_INBOUND_SRC
        .contains("let (lock_reply, mut lock_receiver) = mpsc::unbounded_channel::<Uid>();"));
    println!(
        "F28: library end-of-connection code closes and drains the grant receiver: {}",
        library_has_repair()
    );
}

///
/// Control: the connection reads its grant, the room is in its acquired set, the connection ends: the room is released
/// and the next connection gets it.
///
#[tokio::test(flavor = "multi_thread")]
async fn f28_control_read_grant_is_released_at_connection_end() {
    let lock_service = RoomLockService::start(1);
    let room = new_uid();

    let c1 = random32();
    let (tx1, mut rx1) = mpsc::unbounded_channel::<Uid>();
    let mut rooms = VecDeque::new();
    rooms.push_back(room);
    lock_service.request_locks(c1, rooms, tx1.clone()).await;

    let granted = granted_within(&mut rx1, GRANT_WAIT).await;
    assert_eq!(Some(room), granted, "control: c1 is granted the room");

    // what process_acquired_room does with a room that has been read
    let mut acquired: HashSet<Uid> = HashSet::new();
    acquired.insert(room);

    // c2 asks for the same room while c1 holds it: must wait
    let c2 = random32();
    let (tx2, mut rx2) = mpsc::unbounded_channel::<Uid>();
    let mut rooms = VecDeque::new();
    rooms.push_back(room);
    lock_service.request_locks(c2, rooms, tx2.clone()).await;
    barrier(&lock_service).await;
    assert!(
        rx2.is_empty(),
        "control: the room is not granted twice at the same time"
    );

    drop(tx1);
    connection_end(&lock_service, &mut acquired, rx1).await;

    let granted = granted_within(&mut rx2, GRANT_WAIT).await;
    assert_eq!(
        Some(room),
        granted,
        "control: a room read and held by a connection that ends is released"
    );
    lock_service.unlock(room).await;
}

///
/// The property: the grant has been sent to the connection (the service counts the room as locked)
/// but the connection ends before its loop took it out of the grant channel.
///
#[tokio::test(flavor = "multi_thread")]
async fn f28_unread_grant_is_released_at_connection_end() {
    let lock_service = RoomLockService::start(1);
    let room = new_uid();

    // c1 requests the room: the grant arrives in its channel and is left unread
    let c1 = random32();
    let (tx1, rx1) = mpsc::unbounded_channel::<Uid>();
    let mut rooms = VecDeque::new();
    rooms.push_back(room);
    lock_service.request_locks(c1, rooms, tx1.clone()).await;
    barrier(&lock_service).await;
    assert_eq!(
        1,
        rx1.len(),
        "control: the grant of c1 is waiting, unread, in its grant channel"
    );

    // another connection cannot get anything: the only slot is taken by the unread grant
    let other_room = new_uid();
    let c3 = random32();
    let (tx3, mut rx3) = mpsc::unbounded_channel::<Uid>();
    let mut rooms = VecDeque::new();
    rooms.push_back(other_room);
    lock_service.request_locks(c3, rooms, tx3.clone()).await;
    barrier(&lock_service).await;
    assert!(
        rx3.is_empty(),
        "control: the unread grant holds the only slot of the service"
    );

    // c1 ends: nothing was read, so its acquired set is empty
    let mut acquired: HashSet<Uid> = HashSet::new();
    drop(tx1);
    connection_end(&lock_service, &mut acquired, rx1).await;
    barrier(&lock_service).await;

    // the slot must come back: c3 (already waiting) gets its room
    let granted3 = granted_within(&mut rx3, GRANT_WAIT).await;

    // c2 requests the room c1 was granted
    let c2 = random32();
    let (tx2, mut rx2) = mpsc::unbounded_channel::<Uid>();
    let mut rooms = VecDeque::new();
    rooms.push_back(room);
    if granted3.is_some() {
        lock_service.unlock(other_room).await;
    }
    lock_service.request_locks(c2, rooms, tx2.clone()).await;
    let granted2 = granted_within(&mut rx2, GRANT_WAIT).await;

    println!(
        "F28: after c1 ended with an unread grant: waiting connection c3 served: {}, room of c1 granted to c2: {}",
        granted3.is_some(),
        granted2.is_some()
    );
    assert_eq!(
        Some(other_room),
        granted3,
        "C20 violated: the slot of a room granted to a connection that ended without reading the grant is never given back (a waiting connection is not served)"
    );
    assert_eq!(
        Some(room),
        granted2,
        "C20 violated: a room granted to a connection that ended without reading the grant is never released"
    );
    lock_service.unlock(room).await;
}
