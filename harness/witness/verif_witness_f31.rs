//! Witness for F31 (properties C02/C07).
//!
//! The rows that DEFINE a room (sys.Room, sys.Authorisation, sys.UserAuth, sys.EntityRight) may only
//! change through a room definition (`add_room_node`), never as ordinary rows.
//! The local path refuses them (`validate_entity_mutation`); this test drives the RECEIVING path
//! (`filter_existing_node` + `add_nodes`, exactly what `synchronise_day` does) with a forged
//! sys.UserAuth row that reuses the id of the admin's row of the room.
#[cfg(test)]
mod tests {

    use std::{collections::HashSet, fs, path::PathBuf};

    use crate::{
        configuration::Configuration,
        database::{
            graph_database::GraphDatabaseService,
            node::{Node, NodeIdentifier, NodeToInsert},
            query_language::parameter::{Parameters, ParametersAdd},
            system_entities::{USER_AUTH_ENT_SHORT, USER_ENABLED_SHORT, USER_VERIFYING_KEY_SHORT},
        },
        date_utils::now,
        event_service::EventService,
        security::{base64_encode, new_uid, random32, Ed25519SigningKey, SigningKey, Uid},
    };

    const DATA_PATH: &str = "test_data/database/verif_witness_f31/";
    fn init_database_path() {
        let path: PathBuf = DATA_PATH.into();
        fs::create_dir_all(&path).unwrap();
    }

    ///
    /// what synchronise_day does with a node received from a peer:
    /// filter_existing_node({id, mdate, signature}) -> nti.node = node, node._local_id = nti.old_local_id -> add_nodes(room, [nti])
    /// returns None when filter_existing_node does not ask for the node, otherwise the list of rejected ids
    ///
    async fn receive_node(
        app: &GraphDatabaseService,
        room_id: Uid,
        mut node: Node,
    ) -> Option<Vec<Uid>> {
        let mut ids = HashSet::new();
        ids.insert(NodeIdentifier {
            id: node.id,
            mdate: node.mdate,
            signature: node._signature.clone(),
        });
        let mut filtered: Vec<NodeToInsert> = app.filter_existing_node(ids).await.unwrap();
        if filtered.is_empty() {
            return None;
        }
        assert_eq!(filtered.len(), 1);
        let mut nti = filtered.pop().unwrap();
        assert_eq!(nti.id, node.id);
        node._local_id = nti.old_local_id;
        nti.node = Some(node);
        Some(app.add_nodes(room_id, vec![nti]).await.unwrap())
    }

    fn admin_keys(room_node: &crate::database::room_node::RoomNode) -> Vec<(String, bool)> {
        let mut res = Vec::new();
        for user in &room_node.admin_nodes {
            let json: serde_json::Value =
                serde_json::from_str(user.node._json.as_ref().unwrap()).unwrap();
            let key = json
                .get(USER_VERIFYING_KEY_SHORT)
                .unwrap()
                .as_str()
                .unwrap()
                .to_string();
            let enabled = match json.get(USER_ENABLED_SHORT) {
                Some(v) => v.as_bool().unwrap(),
                None => true,
            };
            res.push((key, enabled));
        }
        res
    }

    #[tokio::test(flavor = "multi_thread")]
    async fn f31_room_definition_row_overwritten_as_ordinary_row() {
        init_database_path();
        let data_model = "{Person{ name:String }}";
        let path: PathBuf = DATA_PATH.into();

        //the victim V
        let (app, verifying_key, _) = GraphDatabaseService::start(
            "verif witness f31",
            data_model,
            &random32(),
            &random32(),
            path,
            &Configuration::default(),
            EventService::new(),
        )
        .await
        .unwrap();
        let v_id = base64_encode(&verifying_key);

        //the member M: a second key, not an admin, not a user_admin
        let m_key = Ed25519SigningKey::create_from(&[31u8; 32]);
        let m_verifying_key = m_key.export_verifying_key();
        let m_id = base64_encode(&m_verifying_key);
        assert_ne!(v_id, m_id);

        //room R: V is the only admin, M is an ordinary user of a group holding the wildcard right
        let mut param = Parameters::default();
        param.add("v_id", v_id.clone()).unwrap();
        param.add("m_id", m_id.clone()).unwrap();
        let room = app
            .mutate_raw(
                r#"mutate mut {
                    sys.Room{
                        admin: [{
                            verif_key:$v_id
                        }]
                        authorisations:[{
                            name:"members"
                            rights:[{
                                entity:"*"
                                mutate_self:true
                                mutate_all:true
                            }]
                            users:[{
                                verif_key:$m_id
                            }]
                        }]
                    }
                }"#,
                Some(param),
            )
            .await
            .unwrap();
        let room_id: Uid = room.mutate_entities[0].node_to_mutate.id;

        //control: V writes an ordinary Person row in R through the local path
        let mut param = Parameters::default();
        param.add("room_id", base64_encode(&room_id)).unwrap();
        let person = app
            .mutate_raw(
                r#"mutate {
                    Person{
                        room_id: $room_id
                        name: "victim"
                    }
                }"#,
                Some(param),
            )
            .await
            .expect("control: the admin can write a Person in its room");
        let v_person: Node = person.mutate_entities[0]
            .node_to_mutate
            .node
            .clone()
            .expect("control: the local mutation produced a node");

        //the room definition that every member is served
        let room_node = app
            .get_room_node(room_id)
            .await
            .unwrap()
            .expect("control: the room definition is stored");
        assert_eq!(room_node.admin_nodes.len(), 1, "control: one admin row");
        let original_admins = admin_keys(&room_node);
        assert_eq!(
            original_admins,
            vec![(v_id.clone(), true)],
            "control: V is the only admin"
        );
        let admin_row: Node = room_node.admin_nodes[0].node.clone();
        assert_eq!(admin_row._entity, USER_AUTH_ENT_SHORT);
        assert!(
            admin_row.room_id.is_none(),
            "control: a room-definition row has no room_id"
        );
        assert_eq!(admin_row.verifying_key, verifying_key);

        //control: an ordinary Person row signed by M is accepted by the receiving path
        //(shows that M is a member with the wildcard right and that receive_node is a sound model of synchronise_day)
        let date = now();
        let mut m_person = Node {
            id: new_uid(),
            room_id: Some(room_id),
            cdate: date,
            mdate: date,
            _entity: v_person._entity.clone(),
            ..Default::default()
        };
        //copy the JSON short field names of a real row
        let real_json: serde_json::Value =
            serde_json::from_str(v_person._json.as_ref().unwrap()).unwrap();
        let mut person_json = serde_json::Map::new();
        for (k, _) in real_json.as_object().unwrap() {
            person_json.insert(k.clone(), serde_json::Value::String("member".to_string()));
        }
        m_person._json = Some(serde_json::to_string(&person_json).unwrap());
        m_person.sign(&m_key).unwrap();
        m_person.verify().unwrap();
        let rejected = receive_node(&app, room_id, m_person)
            .await
            .expect("control: an unknown row is requested");
        assert!(
            rejected.is_empty(),
            "control: an ordinary Person row by M must be accepted in R"
        );
        let res = app
            .query("query q{ Person(order_by(name asc)){ name } }", None)
            .await
            .unwrap();
        assert_eq!(
            res, "{\n\"Person\":[{\"name\":\"member\"},{\"name\":\"victim\"}]\n}",
            "control: both Person rows are stored"
        );

        //control: a sys.UserAuth row signed by a stranger (no right in R) is refused by the receiving path
        let stranger = Ed25519SigningKey::create_from(&[32u8; 32]);
        let mut json = serde_json::Map::new();
        json.insert(
            USER_VERIFYING_KEY_SHORT.to_string(),
            serde_json::Value::String(base64_encode(&stranger.export_verifying_key())),
        );
        json.insert(USER_ENABLED_SHORT.to_string(), serde_json::Value::Bool(true));
        let mut stranger_row = Node {
            id: admin_row.id,
            room_id: Some(room_id),
            cdate: admin_row.cdate,
            mdate: admin_row.mdate + 1,
            _entity: admin_row._entity.clone(),
            _json: Some(serde_json::to_string(&json).unwrap()),
            ..Default::default()
        };
        stranger_row.sign(&stranger).unwrap();
        let rejected = receive_node(&app, room_id, stranger_row)
            .await
            .expect("control: a newer version of a stored row is requested");
        assert!(
            rejected.contains(&admin_row.id),
            "control: a stranger cannot overwrite anything"
        );

        //the forged row: same id as the admin's sys.UserAuth row, room_id R, later mdate, names M's key, signed by M
        //_entity and the JSON short field names are copied from the real admin row
        let real_json: serde_json::Value =
            serde_json::from_str(admin_row._json.as_ref().unwrap()).unwrap();
        let real_json = real_json.as_object().unwrap();
        assert!(real_json.contains_key(USER_VERIFYING_KEY_SHORT));
        let mut json = serde_json::Map::new();
        for (k, v) in real_json {
            if v.is_string() {
                json.insert(k.clone(), serde_json::Value::String(m_id.clone()));
            } else {
                json.insert(k.clone(), v.clone());
            }
        }
        json.insert(USER_ENABLED_SHORT.to_string(), serde_json::Value::Bool(true));
        let mut forged = Node {
            id: admin_row.id,
            room_id: Some(room_id),
            cdate: admin_row.cdate,
            mdate: admin_row.mdate + 2,
            _entity: admin_row._entity.clone(),
            _json: Some(serde_json::to_string(&json).unwrap()),
            ..Default::default()
        };
        forged.sign(&m_key).unwrap();
        forged.verify().unwrap();

        let rejected = receive_node(&app, room_id, forged)
            .await
            .expect("a newer version of a stored row is requested");

        let after = app
            .get_room_node(room_id)
            .await
            .unwrap()
            .expect("the room definition is still stored");
        let admins_after = admin_keys(&after);

        assert!(
            rejected.contains(&admin_row.id),
            "C07 violated: a room-definition row was overwritten through the ordinary row path; \
            get_room_node now names admins {:?} (V is {}, M is {})",
            admins_after,
            v_id,
            m_id
        );
        assert_eq!(
            admins_after, original_admins,
            "C07 violated: the room definition served to peers no longer names the original admin"
        );
        assert_eq!(
            after.admin_nodes[0].node._signature, admin_row._signature,
            "C07 violated: the admin row changed"
        );
    }

    ///
    /// EXPLORATORY sibling of f31 (ignored by default, run with `-- --ignored`): the same member M does not
    /// overwrite a row but adds, through the ordinary EDGE path (`add_edges`), an `admin` edge from the
    /// sys.Room row of R to its own (legitimate) sys.UserAuth row of the `users` list.
    /// Not covered by the repair of `validate_node`.
    ///
    #[tokio::test(flavor = "multi_thread")]
    #[ignore]
    async fn f31b_admin_edge_added_as_ordinary_edge() {
        use crate::database::{edge::Edge, system_entities::ROOM_ADMIN_FIELD_SHORT};
        init_database_path();
        let data_model = "{Person{ name:String }}";
        let path: PathBuf = DATA_PATH.into();
        let (app, verifying_key, _) = GraphDatabaseService::start(
            "verif witness f31b",
            data_model,
            &random32(),
            &random32(),
            path,
            &Configuration::default(),
            EventService::new(),
        )
        .await
        .unwrap();
        let v_id = base64_encode(&verifying_key);
        let m_key = Ed25519SigningKey::create_from(&[31u8; 32]);
        let m_id = base64_encode(&m_key.export_verifying_key());

        let mut param = Parameters::default();
        param.add("v_id", v_id.clone()).unwrap();
        param.add("m_id", m_id.clone()).unwrap();
        let room = app
            .mutate_raw(
                r#"mutate mut {
                    sys.Room{
                        admin: [{ verif_key:$v_id }]
                        authorisations:[{
                            name:"members"
                            rights:[{ entity:"*" mutate_self:true mutate_all:true }]
                            users:[{ verif_key:$m_id }]
                        }]
                    }
                }"#,
                Some(param),
            )
            .await
            .unwrap();
        let room_id: Uid = room.mutate_entities[0].node_to_mutate.id;

        let room_node = app.get_room_node(room_id).await.unwrap().unwrap();
        let original_admins = admin_keys(&room_node);
        assert_eq!(original_admins, vec![(v_id.clone(), true)]);
        let real_edge = room_node.admin_edges[0].clone();
        assert_eq!(real_edge.label, ROOM_ADMIN_FIELD_SHORT);
        let m_user_row = room_node.auth_nodes[0].user_nodes[0].node.clone();

        let mut edge = Edge {
            src: room_id,
            src_entity: real_edge.src_entity.clone(),
            label: real_edge.label.clone(),
            dest: m_user_row.id,
            cdate: now(),
            ..Default::default()
        };
        edge.sign(&m_key).unwrap();
        edge.verify().unwrap();

        let rejected = app.add_edges(room_id, vec![edge]).await.unwrap();
        let after = app.get_room_node(room_id).await.unwrap().unwrap();
        let admins_after = admin_keys(&after);
        assert!(
            rejected.contains(&room_id),
            "C07 violated: an admin edge of a room definition was added through the ordinary edge path; \
            get_room_node now names admins {:?} (V is {}, M is {})",
            admins_after,
            v_id,
            m_id
        );
        assert_eq!(admins_after, original_admins);
    }
}
