//! Witness for suspected defect F9:
//! `add_edges(room R1, ...)` accepts an edge if its author has the right on the edge's source
//! ENTITY in R1, without checking that the source ROW (edge.src) is stored in R1.
//! A member of R1 that is not a member of R2 can attach references to a row living in R2.
//!
//! The witnesses assert the SPECIFICATION (edge refused / not stored). They FAIL on the current
//! code if F9 is real.

use std::{fs, path::PathBuf};

use tokio::sync::oneshot;

use crate::{
    configuration::Configuration,
    database::{
        edge::{Edge, EdgeDeletionEntry},
        graph_database::GraphDatabaseService,
        node::{Node, NodeToInsert},
        query_language::parameter::{Parameters, ParametersAdd},
        room::RightType,
        room_node::RoomNode,
    },
    date_utils::now,
    event_service::EventService,
    security::{base64_encode, derive_key, random32, Ed25519SigningKey, SigningKey, Uid},
    signature_verification_service::SignatureVerificationService,
};

const DATA_PATH: &str = "test_data/database/verif_witness_f9/";
const APP_KEY: &str = "witness f9 app";
const DATA_MODEL: &str = "{ Person{ name:String, parents:[Person] } }";

fn init_database_path() {
    let path: PathBuf = DATA_PATH.into();
    fs::create_dir_all(&path).unwrap();
}

async fn start_app() -> (GraphDatabaseService, Vec<u8>, Ed25519SigningKey) {
    let secret = random32();
    let path: PathBuf = DATA_PATH.into();
    let (app, verifying_key, _) = GraphDatabaseService::start(
        APP_KEY,
        DATA_MODEL,
        &secret,
        &random32(),
        path,
        &Configuration::default(),
        EventService::new(),
    )
    .await
    .unwrap();
    let signature_key = derive_key(&format!("{} SIGNING_KEY", APP_KEY), &secret);
    let signing_key = Ed25519SigningKey::create_from(&signature_key);
    assert_eq!(signing_key.export_verifying_key(), verifying_key);
    (app, verifying_key, signing_key)
}

async fn export(app: &GraphDatabaseService, room_id: Uid) -> RoomNode {
    let node = app.get_room_node(room_id).await.unwrap().unwrap();
    let ser = bincode::serialize(&node).unwrap();
    bincode::deserialize(&ser).unwrap()
}

async fn stored_edge(
    app: &GraphDatabaseService,
    src: Uid,
    label: String,
    dest: Uid,
) -> Option<Box<Edge>> {
    let (reply, receive) = oneshot::channel::<Option<Box<Edge>>>();
    app.db
        .reader
        .send_async(Box::new(move |conn| {
            let edge = Edge::get(&src, &label, &dest, conn).unwrap();
            let _ = reply.send(edge);
        }))
        .await
        .unwrap();
    receive.await.unwrap()
}

struct Setup {
    victim_app: GraphDatabaseService,
    victim_key: Vec<u8>,
    member_key: Vec<u8>,
    member_signing: Ed25519SigningKey,
    room1: Uid,
    room2: Uid,
    /// row X, stored in R2
    x_id: Uid,
    /// row Y, stored in R2, X --parents--> Y is a legitimate edge signed by the victim
    y_id: Uid,
    legit_edge: Edge,
    /// row created by the member in R1 and legitimately synchronised to the victim
    intruder: Node,
    /// an edge legitimately created by the member in R1 (template for entity/label short names)
    template: Edge,
}

///
/// victim peer V holds two rooms:
///  R1: admin V, group {Person: mutate_self, mutate_all = `member_mutate_all`}, users [M]
///  R2: admin V, group {Person: all} users [V]        (M is NOT a member of R2)
///  X, Y : Person rows in R2, X --parents--> Y
///
async fn setup(member_mutate_all: bool) -> Setup {
    init_database_path();
    let (victim_app, victim_key, _) = start_app().await;
    let (member_app, member_key, member_signing) = start_app().await;

    let mut param = Parameters::default();
    param.add("user_id", base64_encode(&victim_key)).unwrap();
    param.add("member", base64_encode(&member_key)).unwrap();
    let room = victim_app
        .mutate_raw(
            &r#"mutate mut {
                sys.Room{
                    admin: [{ verif_key:$user_id }]
                    authorisations:[{
                        name:"members"
                        rights:[{
                            entity:"Person"
                            mutate_self:true
                            mutate_all:MUTATE_ALL
                        }]
                        users: [{ verif_key:$member }]
                    }]
                }
            }"#
            .replace("MUTATE_ALL", &member_mutate_all.to_string()),
            Some(param),
        )
        .await
        .unwrap();
    let room1 = room.mutate_entities[0].node_to_mutate.id;

    let mut param = Parameters::default();
    param.add("user_id", base64_encode(&victim_key)).unwrap();
    let room = victim_app
        .mutate_raw(
            r#"mutate mut {
                sys.Room{
                    admin: [{ verif_key:$user_id }]
                    authorisations:[{
                        name:"private"
                        rights:[{
                            entity:"Person"
                            mutate_self:true
                            mutate_all:true
                        }]
                        users: [{ verif_key:$user_id }]
                    }]
                }
            }"#,
            Some(param),
        )
        .await
        .unwrap();
    let room2 = room.mutate_entities[0].node_to_mutate.id;

    // X and Y in R2
    let mut param = Parameters::default();
    param.add("room_id", base64_encode(&room2)).unwrap();
    let res = victim_app
        .mutate_raw(
            r#"mutate mut {
                Person{
                    room_id: $room_id
                    name:"X in R2"
                    parents:[{name:"Y in R2"}]
                }
            }"#,
            Some(param),
        )
        .await
        .unwrap();
    let x_insert = &res.mutate_entities[0];
    let x_id = x_insert.node_to_mutate.id;
    assert_eq!(x_insert.node_to_mutate.node.as_ref().unwrap().room_id, Some(room2));
    let y_insert = &x_insert.sub_nodes.get("parents").unwrap()[0];
    let y_id = y_insert.node_to_mutate.id;
    assert_eq!(1, x_insert.edge_insertions.len());
    let legit_edge = x_insert.edge_insertions[0].clone();
    assert_eq!(legit_edge.src, x_id);
    assert_eq!(legit_edge.dest, y_id);

    // the member only receives R1
    let def = export(&victim_app, room1).await;
    let def = SignatureVerificationService::room_check(def).unwrap();
    member_app.add_room_node(def).await.unwrap();
    assert!(member_app.get_room_node(room2).await.unwrap().is_none());

    // the member legitimately writes in R1
    let mut param = Parameters::default();
    param.add("room_id", base64_encode(&room1)).unwrap();
    let res = member_app
        .mutate_raw(
            r#"mutate mut {
                Person{
                    room_id: $room_id
                    name:"member row"
                    parents:[{name:"intruder"}]
                }
            }"#,
            Some(param),
        )
        .await
        .expect("the member can write in R1");
    let m_insert = &res.mutate_entities[0];
    let template = m_insert.edge_insertions[0].clone();
    assert_eq!(template.verifying_key, member_key);
    let intruder: Node = m_insert.sub_nodes.get("parents").unwrap()[0]
        .node_to_mutate
        .node
        .clone()
        .unwrap();
    assert_eq!(intruder.room_id, Some(room1));
    assert_eq!(intruder.verifying_key, member_key);

    // legitimate synchronisation of the 'intruder' row (R1 data) to the victim
    let mut wire = intruder.clone();
    wire._local_id = None;
    wire.verify().unwrap();
    let nti = NodeToInsert {
        id: wire.id,
        node: Some(wire),
        entity_name: None,
        index: false,
        old_local_id: None,
        old_room_id: None,
        old_mdate: 0,
        old_verifying_key: None,
        old_fts_str: None,
        node_fts_str: None,
    };
    let rejected = victim_app.add_nodes(room1, vec![nti]).await.unwrap();
    assert!(rejected.is_empty(), "legit R1 node must be accepted");

    Setup {
        victim_app,
        victim_key,
        member_key,
        member_signing,
        room1,
        room2,
        x_id,
        y_id,
        legit_edge,
        intruder,
        template,
    }
}

///
/// F9: forged batch = one edge  X(in R2) --parents--> intruder(in R1), signed by the R1 member,
/// sent as part of the synchronisation of R1
///
#[tokio::test(flavor = "multi_thread")]
async fn f9_edge_on_row_of_another_room() {
    let s = setup(false).await;

    //the member has no right at all in R2
    let room2 = export(&s.victim_app, s.room2).await.parse().unwrap();
    assert!(!room2.can(&s.member_key, "Person", now(), &RightType::MutateSelf));
    assert!(!room2.is_user_valid_at(&s.member_key, now()));
    // and only mutate_self in R1
    let room1 = export(&s.victim_app, s.room1).await.parse().unwrap();
    assert!(room1.can(&s.member_key, "Person", now(), &RightType::MutateSelf));
    assert!(!room1.can(&s.member_key, "Person", now(), &RightType::MutateAll));

    let before = s
        .victim_app
        .query(
            "query q { Person(name=\"X in R2\"){ name parents(order_by(name asc)){ name } } }",
            None,
        )
        .await
        .unwrap();

    let mut forged = Edge {
        src: s.x_id,
        src_entity: s.template.src_entity.clone(),
        label: s.template.label.clone(),
        dest: s.intruder.id,
        cdate: now(),
        ..Default::default()
    };
    forged.sign(&s.member_signing).unwrap();
    let forged = SignatureVerificationService::edges_check(vec![forged]).unwrap();
    let forged_edge = forged[0].clone();

    let rejected = s.victim_app.add_edges(s.room1, forged).await;

    let stored = stored_edge(
        &s.victim_app,
        forged_edge.src,
        forged_edge.label.clone(),
        forged_edge.dest,
    )
    .await;
    let after = s
        .victim_app
        .query(
            "query q { Person(name=\"X in R2\"){ name parents(order_by(name asc)){ name } } }",
            None,
        )
        .await
        .unwrap();

    assert!(
        stored.is_none(),
        "F9 REAL: edge whose source row lives in R2, signed by a member of R1 only, sent in the synchronisation of R1: add_edges returned {:?} (list of rejected ids); edge stored: {}; query on X before: {} after: {}",
        rejected,
        stored.is_some(),
        before.replace('\n', ""),
        after.replace('\n', "")
    );
}

///
/// F9 (deletion side): an edge deletion entry declared for room R1 and signed by a member of R1
/// having mutate_all in R1 deletes an edge between two rows of R2.
///
#[tokio::test(flavor = "multi_thread")]
async fn f9_edge_deletion_on_row_of_another_room() {
    let s = setup(true).await;

    let room2 = export(&s.victim_app, s.room2).await.parse().unwrap();
    assert!(!room2.can(&s.member_key, "Person", now(), &RightType::MutateSelf));
    assert_eq!(s.legit_edge.verifying_key, s.victim_key);

    assert!(stored_edge(
        &s.victim_app,
        s.x_id,
        s.legit_edge.label.clone(),
        s.y_id
    )
    .await
    .is_some());

    let deletion = EdgeDeletionEntry::build(s.room1, &s.legit_edge, now(), &s.member_signing);
    let deletion = SignatureVerificationService::edge_log_check(vec![deletion]).unwrap();
    let result = s.victim_app.delete_edges(deletion).await;

    let still_there = stored_edge(&s.victim_app, s.x_id, s.legit_edge.label.clone(), s.y_id)
        .await
        .is_some();
    let after = s
        .victim_app
        .query(
            "query q { Person(name=\"X in R2\", nullable(parents)){ name parents{ name } } }",
            None,
        )
        .await
        .unwrap();
    assert!(
        still_there,
        "F9 REAL (deletion): edge deletion entry for room R1 signed by a member of R1 (mutate_all in R1, no right in R2) deleted the edge X->Y whose rows live in R2; delete_edges returned {:?}; query on X after: {}",
        result,
        after.replace('\n', "")
    );
}

///
/// control for the deletion side: with mutate_self only in R1 the deletion of an edge authored
/// by someone else is refused (MutateAll in the DECLARED room is required)
///
#[tokio::test(flavor = "multi_thread")]
async fn f9_control_edge_deletion_requires_mutate_all_in_declared_room() {
    let s = setup(false).await;
    let deletion = EdgeDeletionEntry::build(s.room1, &s.legit_edge, now(), &s.member_signing);
    let deletion = SignatureVerificationService::edge_log_check(vec![deletion]).unwrap();
    let result = s.victim_app.delete_edges(deletion).await;
    let still_there = stored_edge(&s.victim_app, s.x_id, s.legit_edge.label.clone(), s.y_id)
        .await
        .is_some();
    println!("control deletion with mutate_self only: {:?} still there: {}", result, still_there);
    assert!(still_there);
}

///
/// F9 (overwrite side): `Edge::write` is INSERT OR REPLACE on (src,label,dest): the member
/// re-signs the existing R2 edge X->Y and sends it in the synchronisation of R1
///
#[tokio::test(flavor = "multi_thread")]
async fn f9_edge_of_another_room_overwritten() {
    let s = setup(false).await;
    let mut forged = s.legit_edge.clone();
    forged.cdate = now();
    forged.sign(&s.member_signing).unwrap();
    let forged = SignatureVerificationService::edges_check(vec![forged]).unwrap();
    let rejected = s.victim_app.add_edges(s.room1, forged).await;
    let stored = stored_edge(&s.victim_app, s.x_id, s.legit_edge.label.clone(), s.y_id)
        .await
        .unwrap();
    assert!(
        stored.verifying_key.eq(&s.victim_key),
        "F9 REAL (overwrite): the R2 edge X->Y authored by the R2 owner was replaced by a copy signed by a member of R1 only; add_edges returned {:?}; stored author is the member: {}; cdate {} -> {}",
        rejected,
        stored.verifying_key.eq(&s.member_key),
        s.legit_edge.cdate,
        stored.cdate
    );
}
