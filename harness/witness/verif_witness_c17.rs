//! Witness for C17: full text search over rows received through synchronisation.
//!
//! Property: search(text) returns exactly the rows of the entity whose current text
//! content contains the searched text, on every peer holding those rows, including rows
//! received or replaced through synchronisation (entities with indexing enabled).
//!
//! The remote peer is played by building a properly signed `Node`, authored with the same
//! user key as the local instance (so the rights of the room apply), and pushing it through
//! the receiving entry points in the order used by
//! `synchronisation::peer_inbound_service::synchronise_day`:
//!   filter_existing_node(HashSet<NodeIdentifier>) -> nti.node = Some(node) -> add_nodes(room, vec![nti])
//!
//! run with: cargo test --offline --lib verif_witness_c17 -- --nocapture

use std::{collections::HashSet, fs, path::PathBuf};

use crate::{
    configuration::Configuration,
    database::{
        graph_database::GraphDatabaseService,
        node::{Node, NodeIdentifier},
        query_language::parameter::{Parameters, ParametersAdd},
    },
    date_utils::now,
    event_service::EventService,
    security::{
        base64_encode, derive_key, new_uid, random32, uid_encode, Ed25519SigningKey, Uid,
    },
};

const DATA_PATH: &str = "test_data/database/verif_witness_c17/";
const APP_KEY: &str = "c17 app";
const DATA_MODEL: &str = "{Person{ name:String }}";

struct Peer {
    app: GraphDatabaseService,
    signing_key: Ed25519SigningKey,
    room_id: Uid,
}

///
/// starts a real database, creates a room where the user can mutate Person
///
async fn start_peer() -> Peer {
    let path: PathBuf = DATA_PATH.into();
    fs::create_dir_all(&path).unwrap();

    let secret = random32();
    let (app, verifying_key, _) = GraphDatabaseService::start(
        APP_KEY,
        DATA_MODEL,
        &secret,
        &random32(),
        path,
        &Configuration::default(),
        EventService::new(),
    )
    .await
    .unwrap();

    // same derivation as GraphDatabase::new: this is the key of the local user.
    let signature_key = derive_key(&format!("{} SIGNING_KEY", APP_KEY), &secret);
    let signing_key = Ed25519SigningKey::create_from(&signature_key);
    {
        use crate::security::SigningKey;
        assert_eq!(signing_key.export_verifying_key(), verifying_key);
    }

    let mut param = Parameters::default();
    param
        .add("user_id", base64_encode(&verifying_key))
        .unwrap();
    let room = app
        .mutate_raw(
            r#"mutate mut {
                sys.Room{
                    admin: [{
                        verif_key:$user_id
                    }]
                    authorisations:[{
                        name:"admin"
                        rights:[{
                            entity:"Person"
                            mutate_self:true
                            mutate_all:true
                        }]
                    }]
                }
            }"#,
            Some(param),
        )
        .await
        .unwrap();
    let room_id = room.mutate_entities[0].node_to_mutate.id;

    Peer {
        app,
        signing_key,
        room_id,
    }
}

///
/// local mutation: creates a Person and returns its stored Node (read back with get_nodes)
///
async fn create_local_person(peer: &Peer, name: &str) -> Node {
    let mut param = Parameters::default();
    param.add("room_id", uid_encode(&peer.room_id)).unwrap();
    param.add("name", name.to_string()).unwrap();
    let res = peer
        .app
        .mutate_raw(
            r#"mutate {
                Person{
                    room_id: $room_id
                    name: $name
                }
            }"#,
            Some(param),
        )
        .await
        .expect("the user has the right to insert a Person");
    let id = res.mutate_entities[0].node_to_mutate.id;

    let mut recv = peer.app.get_nodes(peer.room_id, vec![id]).await;
    let mut nodes = recv.recv().await.unwrap().unwrap();
    assert_eq!(1, nodes.len());
    let node = nodes.pop().unwrap();
    node.verify().unwrap();
    node
}

///
/// replaces every string value equal to `from` by `to`: keeps the short field names of the stored json
///
fn rename_json(json: &str, from: &str, to: &str) -> String {
    let mut value: serde_json::Value = serde_json::from_str(json).unwrap();
    let mut replaced = 0;
    for (_, v) in value.as_object_mut().unwrap().iter_mut() {
        if v.as_str() == Some(from) {
            *v = serde_json::Value::String(to.to_string());
            replaced += 1;
        }
    }
    assert_eq!(1, replaced, "the name field was not found in {}", json);
    serde_json::to_string(&value).unwrap()
}

///
/// what a remote peer would send: the node goes through the same entry points, in the same order,
/// as synchronise_day
///
async fn receive_by_synchronisation(peer: &Peer, node: Node) {
    node.verify().expect("the remote node is properly signed");

    let mut remote_nodes = HashSet::new();
    remote_nodes.insert(NodeIdentifier {
        id: node.id,
        mdate: node.mdate,
        signature: node._signature.clone(),
    });

    let mut filtered = peer.app.filter_existing_node(remote_nodes).await.unwrap();
    assert_eq!(
        1,
        filtered.len(),
        "the node is new or newer: it must be requested"
    );
    let mut nti = filtered.pop().unwrap();
    assert_eq!(nti.id, node.id);

    let mut node = node;
    node._local_id = nti.old_local_id;
    nti.node = Some(node);

    let rejected = peer.app.add_nodes(peer.room_id, vec![nti]).await.unwrap();
    assert!(
        rejected.is_empty(),
        "the synchronised node was rejected: {:?}",
        rejected
    );
}

async fn all_names(peer: &Peer) -> Vec<String> {
    let res = peer
        .app
        .query("query { Person(order_by(name asc)) { name } }", None)
        .await
        .unwrap();
    names(&res)
}

async fn search(peer: &Peer, text: &str) -> Vec<String> {
    let query = format!("query {{ Person(search(\"{}\")) {{ name }} }}", text);
    let res = peer.app.query(&query, None).await.unwrap();
    names(&res)
}

fn names(result: &str) -> Vec<String> {
    let value: serde_json::Value = serde_json::from_str(result).unwrap();
    value["Person"]
        .as_array()
        .unwrap()
        .iter()
        .map(|p| p["name"].as_str().unwrap().to_string())
        .collect()
}

#[tokio::test(flavor = "multi_thread")]
async fn c17_synchronised_row_is_found_by_search() {
    let peer = start_peer().await;

    // (1) control: a locally created row is indexed
    let local = create_local_person(&peer, "alphabravo").await;
    assert_eq!(vec!["alphabravo"], search(&peer, "alphabravo").await);
    assert_eq!(vec!["alphabravo"], search(&peer, "habr").await);
    assert!(search(&peer, "charliedelta").await.is_empty());

    // (2) a new row of the same entity, same room, same author, received through synchronisation
    let date = now();
    let mut remote = Node {
        id: new_uid(),
        room_id: Some(peer.room_id),
        cdate: date,
        mdate: date,
        _entity: local._entity.clone(),
        _json: Some(rename_json(
            local._json.as_ref().unwrap(),
            "alphabravo",
            "charliedelta",
        )),
        _binary: None,
        verifying_key: vec![],
        _signature: vec![],
        _local_id: None,
    };
    remote.sign(&peer.signing_key).unwrap();
    receive_by_synchronisation(&peer, remote).await;

    // it is stored and visible to an ordinary query
    assert_eq!(vec!["alphabravo", "charliedelta"], all_names(&peer).await);

    // so it must be found by search
    let found = search(&peer, "charliedelta").await;
    assert_eq!(
        vec!["charliedelta"],
        found,
        "C17 violated: a row received through synchronisation is not found by search (stored rows: {:?}, search(\"charliedelta\"): {:?})",
        all_names(&peer).await,
        found
    );
    // the control row is unaffected
    assert_eq!(vec!["alphabravo"], search(&peer, "alphabravo").await);
}

#[tokio::test(flavor = "multi_thread")]
async fn c17_synchronised_update_replaces_indexed_text() {
    let peer = start_peer().await;

    let local = create_local_person(&peer, "echofoxtrot").await;
    assert_eq!(vec!["echofoxtrot"], search(&peer, "echofoxtrot").await);
    assert!(search(&peer, "golfhotel").await.is_empty());

    // a newer version of the same row, received through synchronisation
    let mut remote = local.clone();
    remote._local_id = None;
    remote.mdate = std::cmp::max(now(), local.mdate + 1);
    remote._json = Some(rename_json(
        local._json.as_ref().unwrap(),
        "echofoxtrot",
        "golfhotel",
    ));
    remote.sign(&peer.signing_key).unwrap();
    assert!(remote.mdate > local.mdate);
    receive_by_synchronisation(&peer, remote).await;

    // the row has been replaced: the current content is "golfhotel"
    assert_eq!(vec!["golfhotel"], all_names(&peer).await);

    let current = search(&peer, "golfhotel").await;
    let stale = search(&peer, "echofoxtrot").await;
    assert!(
        current == vec!["golfhotel"] && stale.is_empty(),
        "C17 violated: stale text still matches / current text missed (stored rows: {:?}, search(\"golfhotel\"): {:?}, search(\"echofoxtrot\"): {:?})",
        all_names(&peer).await,
        current,
        stale
    );
}

///
/// Consequence of the same defect, seen from the local mutation path: a row received through
/// synchronisation (never indexed) is then updated locally. The local path issues a fts5 'delete'
/// for the old text of a rowid that was never inserted in the contentless _node_fts table.
/// After the update, search must reflect the current text only.
///
#[tokio::test(flavor = "multi_thread")]
async fn c17_local_update_of_a_synchronised_row() {
    let peer = start_peer().await;
    let local = create_local_person(&peer, "kilolima").await;

    let date = now();
    let mut remote = Node {
        id: new_uid(),
        room_id: Some(peer.room_id),
        cdate: date,
        mdate: date,
        _entity: local._entity.clone(),
        _json: Some(rename_json(
            local._json.as_ref().unwrap(),
            "kilolima",
            "mikenovember",
        )),
        _binary: None,
        verifying_key: vec![],
        _signature: vec![],
        _local_id: None,
    };
    remote.sign(&peer.signing_key).unwrap();
    let remote_id = remote.id;
    receive_by_synchronisation(&peer, remote).await;

    let mut param = Parameters::default();
    param.add("id", uid_encode(&remote_id)).unwrap();
    let updated = peer
        .app
        .mutate_raw(
            r#"mutate {
                Person{
                    id: $id
                    name: "oscarpapa"
                }
            }"#,
            Some(param),
        )
        .await;
    assert!(
        updated.is_ok(),
        "C17 violated: local update of a synchronised row failed: {:?}",
        updated.err()
    );

    assert_eq!(vec!["kilolima", "oscarpapa"], all_names(&peer).await);
    let current = search(&peer, "oscarpapa").await;
    let stale = search(&peer, "mikenovember").await;
    let control = search(&peer, "kilolima").await;
    assert!(
        current == vec!["oscarpapa"] && stale.is_empty() && control == vec!["kilolima"],
        "C17 violated: after a local update of a synchronised row: search(\"oscarpapa\"): {:?}, search(\"mikenovember\"): {:?}, search(\"kilolima\"): {:?}",
        current,
        stale,
        control
    );
}
