//! Witness for F12: BufferedDatabaseWriter::process_batch_write must not leave the
//! transaction open when the end-of-batch statements (daily_log.write / COMMIT) fail.
//!
//! Declared as a child of sqlite_database (process_batch_write is private):
//!   #[cfg(test)]
//!   #[path = "verif_witness_f12.rs"]
//!   mod verif_witness_f12;
//! at the end of src/database/sqlite_database.rs
//!
//! Specification: a failed batch leaves no trace (it is rolled back) and the writer keeps working:
//! the next valid batch succeeds and only contains its own writes.

use super::*;
use rusqlite::Connection;

struct InsertPerson {
    name: String,
}
impl Writeable for InsertPerson {
    fn write(&mut self, conn: &Connection) -> std::result::Result<(), rusqlite::Error> {
        let mut stmt = conn.prepare_cached("INSERT INTO person (name) VALUES (?)")?;
        stmt.execute([&self.name])?;
        Ok(())
    }
}

fn new_conn() -> Connection {
    let conn = Connection::open_in_memory().unwrap();
    prepare_connection(&conn).unwrap();
    conn.execute(
        "CREATE TABLE person (
            id      INTEGER PRIMARY KEY,
            name    TEXT NOT NULL
        ) STRICT",
        [],
    )
    .unwrap();
    conn
}

fn batch(
    name: &str,
) -> (
    Vec<WriteMessage>,
    oneshot::Receiver<crate::database::Result<WriteStmt>>,
) {
    let (reply, receive) = oneshot::channel::<crate::database::Result<WriteStmt>>();
    let msg = WriteMessage::Write(
        Box::new(InsertPerson {
            name: name.to_string(),
        }),
        reply,
    );
    (vec![msg], receive)
}

fn person_names(conn: &Connection) -> Vec<String> {
    let mut stmt = conn.prepare("SELECT name FROM person ORDER BY id").unwrap();
    let rows = stmt.query_map([], |row| row.get::<_, String>(0)).unwrap();
    rows.map(|r| r.unwrap()).collect()
}

/// makes `daily_log.write(conn)` fail: its INSERT INTO _daily_log cannot be prepared any more
fn break_daily_log(conn: &Connection) {
    conn.execute("ALTER TABLE _daily_log RENAME TO _daily_log_away", [])
        .unwrap();
}

/// repairs the cause of the failure
fn repair_daily_log(conn: &Connection) {
    conn.execute("ALTER TABLE _daily_log_away RENAME TO _daily_log", [])
        .unwrap();
}

/// sanity: on a healthy connection a batch succeeds and commits
#[test]
fn f12_sanity_valid_batch_commits() {
    let conn = new_conn();
    let (mut b, _r) = batch("ok");
    BufferedDatabaseWriter::process_batch_write(&mut b, &conn).unwrap();
    assert!(conn.is_autocommit());
    assert_eq!(vec!["ok".to_string()], person_names(&conn));
}

#[test]
fn f12_failed_end_of_batch_closes_the_transaction() {
    let conn = new_conn();
    break_daily_log(&conn);

    let (mut failing, _r) = batch("failed_batch");
    let res = BufferedDatabaseWriter::process_batch_write(&mut failing, &conn);
    assert!(
        res.is_err(),
        "the batch must fail: _daily_log is not writeable"
    );

    assert!(
        conn.is_autocommit(),
        "F12: process_batch_write returned Err but left its transaction open"
    );
}

#[test]
fn f12_writer_keeps_working_after_a_failed_batch() {
    let conn = new_conn();
    break_daily_log(&conn);

    let (mut failing, _r) = batch("failed_batch");
    let res = BufferedDatabaseWriter::process_batch_write(&mut failing, &conn);
    assert!(res.is_err());

    repair_daily_log(&conn);

    let (mut valid, _r2) = batch("valid_batch");
    let res = BufferedDatabaseWriter::process_batch_write(&mut valid, &conn);
    assert!(
        res.is_ok(),
        "F12: a valid batch submitted after a failed one must succeed, got: {:?}",
        res
    );
    assert!(conn.is_autocommit());

    //the failed batch must have left no trace
    assert_eq!(
        vec!["valid_batch".to_string()],
        person_names(&conn),
        "F12: the writes of the failed batch must have been rolled back"
    );
}

/// the writes of the failed batch are not only pending, they can be made durable by any later COMMIT
#[test]
fn f12_failed_batch_writes_are_not_committed_later() {
    let conn = new_conn();
    break_daily_log(&conn);

    let (mut failing, _r) = batch("failed_batch");
    let res = BufferedDatabaseWriter::process_batch_write(&mut failing, &conn);
    assert!(res.is_err());

    //whatever happens next on that connection: the failed batch's row must be gone
    if !conn.is_autocommit() {
        //a transaction is still open: this is what any later COMMIT on the writer connection would do
        conn.execute("COMMIT", []).unwrap();
    }
    assert_eq!(
        Vec::<String>::new(),
        person_names(&conn),
        "F12: the writes of the failed batch were still pending in an open transaction and got committed"
    );
}
