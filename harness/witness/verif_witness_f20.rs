//! Witness for suspected defect F20 / property C20:
//! "a room lock granted by `RoomLockService` is held by at most one connection at a time".
//!
//! The test drives the REAL `RoomLockService`, the REAL `QueryService`, the REAL
//! `LocalPeerService::process_acquired_room` (and through it the real `synchronise_room`)
//! and the REAL `LocalPeerService::cleanup`.
//!
//! The test itself plays:
//!  * the remote peer (it owns the remote ends of the `QueryService` channels, so it decides when
//!    the pending `Query::RoomDefinition` fails: it drops the answer channel, exactly what happens
//!    when the connection is lost),
//!  * the end-of-connection code of `LocalPeerService::start` (copied verbatim: take the
//!    `acquired_lock` guard, collect the rooms, call `cleanup` while still holding the guard),
//!  * connections B and C, which are plain lock requests.
//!
//! Every step of the schedule is enforced by waiting on a channel. Negative facts
//! ("X has NOT been granted R") are made deterministic with `barrier`: the lock service is a
//! single FIFO actor, so once a probe request sent *after* some message has been answered,
//! that earlier message has been completely processed.
//!
//! Environment variable `F20_END_OF_CONNECTION=drain` selects the repaired shape of the
//! end-of-connection code (drain the set under the guard); anything else mirrors the original code.

use std::{
    collections::{HashSet, VecDeque},
    fs,
    path::PathBuf,
    sync::Arc,
    time::Duration,
};

use tokio::{
    sync::{mpsc, Mutex},
    time::timeout,
};

use super::{LocalPeerService, QueryService};
use crate::{
    configuration::Configuration,
    database::graph_database::GraphDatabaseService,
    discret::DiscretServices,
    event_service::EventService,
    peer_connection_service::{PeerConnectionMessage, PeerConnectionService},
    security::{new_uid, random32, Uid},
    signature_verification_service::SignatureVerificationService,
    synchronisation::{room_locking_service::RoomLockService, Answer, Query, QueryProtocol},
};

const DATA_PATH: &str = "test_data/synchronisation/verif_witness_f20/";
const STEP_TIMEOUT: Duration = Duration::from_secs(5);

/// Returns once every message sent to the lock service before this call has been processed.
/// A fresh circuit asks for a fresh room; at most one other room is locked during the test and
/// the service is started with 2 slots, so the probe is always granted at once.
async fn barrier(lock_service: &RoomLockService) {
    let probe_room = new_uid();
    let (tx, mut rx) = mpsc::unbounded_channel::<Uid>();
    let mut q = VecDeque::new();
    q.push_back(probe_room);
    lock_service.request_locks(random32(), q, tx).await;
    let got = timeout(STEP_TIMEOUT, rx.recv())
        .await
        .expect("barrier: probe room not granted (lock service stuck?)")
        .expect("barrier: lock service dropped the probe reply");
    assert_eq!(got, probe_room);
    lock_service.unlock(probe_room).await;
}

fn single(room: Uid) -> VecDeque<Uid> {
    let mut q = VecDeque::new();
    q.push_back(room);
    q
}

#[tokio::test(flavor = "multi_thread")]
async fn f20_room_released_twice_for_one_grant() {
    let repaired_shape = std::env::var("F20_END_OF_CONNECTION")
        .map(|v| v == "drain")
        .unwrap_or(false);

    // ---------------------------------------------------------------- real services
    let path: PathBuf = DATA_PATH.into();
    fs::create_dir_all(&path).unwrap();
    let events = EventService::new();
    let (database, _verifying_key, _private_room) = GraphDatabaseService::start(
        "verif witness f20",
        "{Person{ name:String }}",
        &random32(),
        &random32(),
        path,
        &Configuration::default(),
        events.clone(),
    )
    .await
    .unwrap();
    let discret_services = DiscretServices {
        events,
        database,
        signature_verification: SignatureVerificationService::start(1),
    };
    // never reached: synchronise_room fails on its very first remote query
    let (peer_sender, _peer_receiver) = mpsc::channel::<PeerConnectionMessage>(8);
    let peer_service = PeerConnectionService {
        sender: peer_sender,
    };

    let lock_service = RoomLockService::start(2);

    // the test is the remote peer of connection A
    let (remote_query_sender, mut remote_query_receiver) = mpsc::channel::<QueryProtocol>(8);
    let (remote_answer_sender, remote_answer_receiver) = mpsc::channel::<Answer>(8);
    let query_service = QueryService::start(remote_query_sender, remote_answer_receiver);

    let room = new_uid();
    let circuit_a = random32();
    let circuit_b = random32();
    let circuit_c = random32();

    // ---------------------------------------------------------------- A is granted R
    let (a_tx, mut a_rx) = mpsc::unbounded_channel::<Uid>();
    lock_service
        .request_locks(circuit_a, single(room), a_tx.clone())
        .await;
    let granted_a = timeout(STEP_TIMEOUT, a_rx.recv())
        .await
        .expect("control: A was not granted R")
        .unwrap();
    assert_eq!(granted_a, room, "control: A must be granted R first");

    // what the select! loop of LocalPeerService::start does with a granted room
    let acquired_lock = Arc::new(Mutex::new(HashSet::<Uid>::new()));
    LocalPeerService::process_acquired_room(
        granted_a,
        acquired_lock.clone(),
        query_service.clone(),
        lock_service.clone(),
        peer_service.clone(),
        &discret_services,
    )
    .await
    .unwrap();

    // A's task is now inside synchronise_room: its first remote query reached the "remote peer"
    let first_query = timeout(STEP_TIMEOUT, remote_query_receiver.recv())
        .await
        .expect("control: synchronise_room did not send its first query")
        .unwrap();
    match first_query.query {
        Query::RoomDefinition(r) => assert_eq!(r, room),
        _ => panic!("control: unexpected first query"),
    }
    assert!(
        acquired_lock.lock().await.contains(&room),
        "control: R must be in A's acquired_lock set while A synchronises it"
    );

    // ---------------------------------------------------------------- B waits for R
    let (b_tx, mut b_rx) = mpsc::unbounded_channel::<Uid>();
    lock_service
        .request_locks(circuit_b, single(room), b_tx.clone())
        .await;
    barrier(&lock_service).await;
    assert!(
        b_rx.try_recv().is_err(),
        "control: B must not be granted R while A holds it"
    );

    // ---------------------------------------------------------------- connection A ends
    // end-of-connection code of LocalPeerService::start, first half (guard is kept)
    let mut rooms: Vec<Uid> = Vec::new();
    #[allow(unused_mut)]
    let mut acquere = acquired_lock.lock().await;
    if repaired_shape {
        for room in acquere.drain() {
            rooms.push(room);
        }
    } else {
        for room in acquere.iter() {
            rooms.push(*room);
        }
    }
    assert_eq!(rooms, vec![room], "control: end-of-connection collects [R]");

    // ... the same connection loss makes the pending query of synchronise_room fail:
    // the answer channel closes, QueryService stops and drops the pending AnswerFn,
    // Self::query returns Err(Technical), the task goes on to its release sequence.
    drop(remote_answer_sender);

    // Original code: the task sends unlock(R) and only then blocks on the mutex we hold, so B is
    // granted R now. Repaired code: the task blocks on the mutex first and releases nothing.
    let b_early = match timeout(Duration::from_millis(1500), b_rx.recv()).await {
        Ok(Some(r)) => {
            assert_eq!(r, room);
            true
        }
        Ok(None) => panic!("B's reply channel closed"),
        Err(_) => false,
    };
    println!("B granted R by the task's own unlock, before cleanup ran: {b_early}");

    // ---------------------------------------------------------------- C waits for R
    let (c_tx, mut c_rx) = mpsc::unbounded_channel::<Uid>();
    if b_early {
        lock_service
            .request_locks(circuit_c, single(room), c_tx.clone())
            .await;
        barrier(&lock_service).await;
        assert!(
            c_rx.try_recv().is_err(),
            "control: C must not be granted R while B holds it (before cleanup)"
        );
    }

    // end-of-connection code, second half: cleanup while still holding the guard
    LocalPeerService::cleanup(&lock_service, rooms).await;
    drop(acquere);

    if !b_early {
        // repaired code path: R is released exactly once, by cleanup; B gets it now
        let r = timeout(STEP_TIMEOUT, b_rx.recv())
            .await
            .expect("B was never granted R")
            .unwrap();
        assert_eq!(r, room);
        lock_service
            .request_locks(circuit_c, single(room), c_tx.clone())
            .await;
    }

    // let A's task finish its release sequence (it was blocked on the guard): wait until it has
    // taken R out of the set (original code: always; repaired code: the set is already empty)
    let wait_task = async {
        loop {
            if !acquired_lock.lock().await.contains(&room) {
                break;
            }
            tokio::task::yield_now().await;
        }
    };
    timeout(STEP_TIMEOUT, wait_task)
        .await
        .expect("A's task never removed R from acquired_lock");
    // the only place a (wrong) late unlock could still be in flight is A's task in the repaired
    // code (remove, then conditional unlock): give it time, then flush the lock service queue
    tokio::time::sleep(Duration::from_millis(300)).await;
    barrier(&lock_service).await;

    // ---------------------------------------------------------------- verdict
    // B has been granted R and has never released it.
    assert!(
        b_rx.try_recv().is_err(),
        "control: B is granted R exactly once"
    );
    match c_rx.try_recv() {
        Ok(r) => {
            assert_eq!(r, room);
            panic!(
                "C20 violated: room granted to two connections: B holds R and never released it, \
                 yet C has been granted R (R was unlocked twice for A's single grant: once by \
                 A's process_acquired_room task, once by the end-of-connection cleanup)"
            );
        }
        Err(_) => {
            println!("C20 holds on this schedule: C is not granted R while B holds it");
        }
    }

    // liveness control: when B releases R, C gets it
    lock_service.unlock(room).await;
    let r = timeout(STEP_TIMEOUT, c_rx.recv())
        .await
        .expect("control: C must be granted R once B releases it")
        .unwrap();
    assert_eq!(r, room);
    lock_service.unlock(room).await;
}
