//! Witness F41: the room summary (`RoomDefinitionLog`) that two peers compare to decide
//! whether anything has to be fetched follows ONE entity of the room only.
//!
//! Real code end to end: two `GraphDatabaseService` (A and B) with the same data model
//! `{Person{name:String} Pet{name:String}}` and a shared room; the real puller
//! `LocalPeerService::start` runs on B, wired over in-memory channels to the real serving side
//! `InboundQueryService` on A. Only the network transport and the `PeerConnectionService`
//! (peer bookkeeping, not involved in the decision of what is fetched) are replaced by channels.
//!
//! Property stated by the assertions: once B has pulled from A and a further pull transfers nothing,
//! B returns the same rows as A for every entity of the room.
use std::{
    collections::HashSet,
    fs,
    path::PathBuf,
    sync::{atomic::AtomicBool, Arc},
    time::Duration,
};

use tokio::{
    sync::{broadcast, mpsc, Mutex},
    time::{sleep, timeout},
};

use crate::{
    configuration::Configuration,
    database::{
        daily_log::{DailyLog, RoomDefinitionLog},
        graph_database::GraphDatabaseService,
        query_language::parameter::{Parameters, ParametersAdd},
        system_entities::{AllowedPeer, Peer},
    },
    discret::DiscretServices,
    event_service::{Event, EventService},
    network::{peer_manager::TokenType, ConnectionInfo},
    peer_connection_service::{PeerConnectionMessage, PeerConnectionService},
    security::{base64_encode, new_uid, random32, HardwareFingerprint, Uid, MEETING_TOKEN_SIZE},
    signature_verification_service::SignatureVerificationService,
};

use super::{
    peer_inbound_service::{LocalPeerService, QueryService},
    peer_outbound_service::{InboundQueryService, RemotePeerHandle},
    room_locking_service::RoomLockService,
    Answer, LocalEvent, QueryProtocol, RemoteEvent,
};

const DATA_PATH: &str = "test_data/synchronisation/verif_witness_f41/";
const DATA_MODEL: &str = "{Person{name:String} Pet{name:String}}";

/// the synchronisation code reports its failures through the `log` facade only: print them
#[cfg(feature = "log")]
struct StderrLog;
#[cfg(feature = "log")]
impl log::Log for StderrLog {
    fn enabled(&self, _: &log::Metadata) -> bool {
        true
    }
    fn log(&self, record: &log::Record) {
        if record.level() <= log::Level::Warn && record.target().starts_with("discret") {
            eprintln!("[{}] {}", record.level(), record.args());
        }
    }
    fn flush(&self) {}
}
fn init_log() {
    #[cfg(feature = "log")]
    {
        static LOGGER: StderrLog = StderrLog;
        if log::set_logger(&LOGGER).is_ok() {
            log::set_max_level(log::LevelFilter::Warn);
        }
    }
}

struct TestPeer {
    services: DiscretServices,
    verifying_key: Vec<u8>,
}
impl TestPeer {
    async fn start() -> Self {
        let path: PathBuf = DATA_PATH.into();
        fs::create_dir_all(&path).unwrap();
        let events = EventService::new();
        let (database, verifying_key, _) = GraphDatabaseService::start(
            "witness f41",
            DATA_MODEL,
            &random32(),
            &random32(),
            path,
            &Configuration::default(),
            events.clone(),
        )
        .await
        .unwrap();
        Self {
            services: DiscretServices {
                events,
                database,
                signature_verification: SignatureVerificationService::start(1),
            },
            verifying_key,
        }
    }

    async fn room_log(&self, room: Uid) -> Vec<DailyLog> {
        let mut recv = self.services.database.get_room_log(room).await;
        let mut res = Vec::new();
        while let Some(log) = recv.recv().await {
            res.append(&mut log.unwrap());
        }
        res
    }

    /// waits until every `_daily_log` row of the room is computed (the computation is asynchronous)
    async fn quiescent_room_log(&self, room: Uid) -> Vec<DailyLog> {
        for _ in 0..200 {
            let log = self.room_log(room).await;
            if log.iter().all(|l| !l.need_recompute) {
                //the log could be about to be marked by a write that is still queued: read it twice
                sleep(Duration::from_millis(50)).await;
                let again = self.room_log(room).await;
                if again == log {
                    return log;
                }
            }
            sleep(Duration::from_millis(20)).await;
        }
        panic!("the daily log is never computed");
    }

    async fn summary(&self, room: Uid) -> Option<RoomDefinitionLog> {
        self.services
            .database
            .get_room_definition(room)
            .await
            .unwrap()
    }

    async fn query(&self, entity: &str, room_id: &str) -> String {
        let mut param = Parameters::default();
        param.add("room_id", room_id.to_string()).unwrap();
        self.services
            .database
            .query(
                &format!("query q {{ {entity}(room_id=$room_id, order_by(name asc)) {{ name }} }}"),
                Some(param),
            )
            .await
            .unwrap()
    }

    async fn insert(&self, entity: &str, name: &str, room_id: &str) {
        let mut param = Parameters::default();
        param.add("room_id", room_id.to_string()).unwrap();
        param.add("name", name.to_string()).unwrap();
        self.services
            .database
            .mutate(
                &format!("mutate m {{ {entity} {{ room_id:$room_id name:$name }} }}"),
                Some(param),
            )
            .await
            .unwrap();
    }
}

/// stands for the peer bookkeeping service: accepts every message, validates every hardware
fn fake_peer_service() -> PeerConnectionService {
    let (sender, mut receiver) = mpsc::channel::<PeerConnectionMessage>(32);
    tokio::spawn(async move {
        while let Some(msg) = receiver.recv().await {
            if let PeerConnectionMessage::ValidateHardware(_, _, reply) = msg {
                let _ = reply.send(Ok(true));
            }
        }
    });
    PeerConnectionService { sender }
}

fn log_line(l: &DailyLog) -> String {
    let short = |h: &Option<Vec<u8>>| match h {
        Some(h) => base64_encode(&h[0..6]),
        None => "-".to_string(),
    };
    format!(
        "entity={} date={} entries={} daily={} history={}",
        l.entity,
        l.date,
        l.entry_number,
        short(&l.daily_hash),
        short(&l.history_hash)
    )
}

fn summary_line(s: &Option<RoomDefinitionLog>) -> String {
    match s {
        Some(s) => format!(
            "last_data_date={:?} entry_number={:?} daily={} history={}",
            s.last_data_date,
            s.entry_number,
            s.daily_hash
                .as_ref()
                .map(|h| base64_encode(&h[0..6]))
                .unwrap_or("-".to_string()),
            s.history_hash
                .as_ref()
                .map(|h| base64_encode(&h[0..6]))
                .unwrap_or("-".to_string()),
        ),
        None => "none".to_string(),
    }
}

/// B pulling from A: the real `LocalPeerService` of B talks to the real `InboundQueryService` of A
struct Link {
    to_b: mpsc::Sender<RemoteEvent>,
    b_events: broadcast::Receiver<Event>,
    _local_events: broadcast::Sender<LocalEvent>,
    _b_query_in: mpsc::Sender<QueryProtocol>,
    //the serving task of A stops when this handle is dropped
    _a_inbound: InboundQueryService,
}
impl Link {
    async fn connect(a: &TestPeer, b: &TestPeer) -> Self {
        let (query_sender, query_receiver) = mpsc::channel::<QueryProtocol>(10);
        let (answer_sender, answer_receiver) = mpsc::channel::<Answer>(10);
        let circuit_id = random32();
        let conn_id = new_uid();

        //serving side of A: B is an authenticated and ready peer
        let a_inbound = InboundQueryService::start(
            HardwareFingerprint {
                id: new_uid(),
                name: "A".to_string(),
            },
            circuit_id,
            conn_id,
            RemotePeerHandle {
                db: a.services.database.clone(),
                allowed_room: HashSet::new(),
                verifying_key: a.verifying_key.clone(),
                reply: answer_sender,
            },
            query_receiver,
            fake_peer_service(),
            Arc::new(Mutex::new(b.verifying_key.clone())),
            Arc::new(AtomicBool::new(true)),
        );

        //pulling side of B
        let query_service = QueryService::start(query_sender, answer_receiver);
        let (to_b, remote_event) = mpsc::channel::<RemoteEvent>(10);
        let (event_sender, mut from_b) = mpsc::channel::<RemoteEvent>(10);
        tokio::spawn(async move { while from_b.recv().await.is_some() {} });
        let (local_events, local_event) = broadcast::channel::<LocalEvent>(16);

        //B's own serving side, required by the signature of start, never queried here
        let (b_query_in, b_query_receiver) = mpsc::channel::<QueryProtocol>(10);
        let (b_answer_sender, mut b_answers) = mpsc::channel::<Answer>(10);
        tokio::spawn(async move { while b_answers.recv().await.is_some() {} });
        let b_remote_key = Arc::new(Mutex::new(Vec::new()));
        let b_conn_ready = Arc::new(AtomicBool::new(true));
        let b_peer_service = fake_peer_service();
        let b_inbound = InboundQueryService::start(
            HardwareFingerprint {
                id: new_uid(),
                name: "B".to_string(),
            },
            circuit_id,
            conn_id,
            RemotePeerHandle {
                db: b.services.database.clone(),
                allowed_room: HashSet::new(),
                verifying_key: b.verifying_key.clone(),
                reply: b_answer_sender,
            },
            b_query_receiver,
            b_peer_service.clone(),
            b_remote_key.clone(),
            b_conn_ready.clone(),
        );

        let b_events = b.services.events.subcribe().await;

        LocalPeerService::start(
            remote_event,
            local_event,
            circuit_id,
            ConnectionInfo {
                endpoint_id: new_uid(),
                remote_id: new_uid(),
                conn_id,
                meeting_token: [0; MEETING_TOKEN_SIZE],
                peer_verifying_key: a.verifying_key.clone(),
            },
            b.verifying_key.clone(),
            TokenType::AllowedPeer(AllowedPeer {
                peer: Peer {
                    id: base64_encode(&new_uid()),
                    verifying_key: base64_encode(&a.verifying_key),
                },
                meeting_token: String::new(),
            }),
            b_remote_key,
            b_conn_ready,
            RoomLockService::start(1),
            query_service,
            event_sender,
            b_peer_service,
            b_inbound,
            &b.services,
        );

        Self {
            to_b,
            b_events,
            _local_events: local_events,
            _b_query_in: b_query_in,
            _a_inbound: a_inbound,
        }
    }

    /// one pull of B from A: `event` is what A would send, returns when B reports the room synchronised
    async fn pull(&mut self, event: RemoteEvent, room_id: &str) {
        self.to_b.send(event).await.unwrap();
        let wait = async {
            loop {
                match self.b_events.recv().await {
                    Ok(Event::RoomSynchronized(room)) if room.eq(room_id) => break,
                    Ok(_) => {}
                    Err(broadcast::error::RecvError::Lagged(_)) => {}
                    Err(e) => panic!("event service closed {e}"),
                }
            }
        };
        timeout(Duration::from_secs(20), wait)
            .await
            .expect("B never reports the room as synchronised");
    }
}

///
/// A creates a Person and a Pet, B pulls until both sides hold the same log;
/// A then creates one more `second_entity` row the same day, B pulls twice more.
/// returns (rows of A, rows of B) for the entity `second_entity`
///
async fn scenario(second_entity: &str) -> (String, String) {
    init_log();
    let a = TestPeer::start().await;
    let b = TestPeer::start().await;

    let mut param = Parameters::default();
    param.add("a", base64_encode(&a.verifying_key)).unwrap();
    param.add("b", base64_encode(&b.verifying_key)).unwrap();
    let room = a
        .services
        .database
        .mutate_raw(
            r#"mutate mut {
                sys.Room{
                    admin: [{ verif_key:$a }]
                    authorisations:[{
                        name:"all"
                        rights:[
                            { entity:"Person" mutate_self:true mutate_all:true },
                            { entity:"Pet" mutate_self:true mutate_all:true }
                        ]
                        users: [{ verif_key:$a }, { verif_key:$b }]
                    }]
                }
            }"#,
            Some(param),
        )
        .await
        .unwrap();
    let room = room.mutate_entities[0].node_to_mutate.id;
    let room_id = base64_encode(&room);

    a.insert("Person", "alice", &room_id).await;
    a.insert("Pet", "rex", &room_id).await;
    a.quiescent_room_log(room).await;

    let mut link = Link::connect(&a, &b).await;

    //B pulls until nothing is left to transfer
    link.pull(RemoteEvent::Ready, &room_id).await;
    b.quiescent_room_log(room).await;
    link.pull(RemoteEvent::RoomDataChanged(room), &room_id).await;
    let log_a = a.quiescent_room_log(room).await;
    let log_b = b.quiescent_room_log(room).await;
    assert_eq!(log_a, log_b, "precondition: A and B have converged");
    assert_eq!(2, log_a.len(), "one log row per entity");
    for entity in ["Person", "Pet"] {
        assert_eq!(
            a.query(entity, &room_id).await,
            b.query(entity, &room_id).await,
            "precondition: A and B have converged"
        );
    }

    //a new row on A, the same day
    a.insert(second_entity, "second", &room_id).await;
    a.quiescent_room_log(room).await;

    link.pull(RemoteEvent::RoomDataChanged(room), &room_id).await;
    b.quiescent_room_log(room).await;
    link.pull(RemoteEvent::RoomDataChanged(room), &room_id).await;

    println!("--- new {second_entity} on A, two pulls of B later");
    for (name, peer) in [("A", &a), ("B", &b)] {
        println!(
            "{name} summary: {}",
            summary_line(&peer.summary(room).await)
        );
        for l in peer.quiescent_room_log(room).await {
            println!("{name} log    : {}", log_line(&l));
        }
        println!(
            "{name} rows   : {}",
            peer.query(second_entity, &room_id).await.replace('\n', "")
        );
    }

    (
        a.query(second_entity, &room_id).await,
        b.query(second_entity, &room_id).await,
    )
}

/// control: the summary follows the Person rows, a new Person reaches B
#[tokio::test(flavor = "multi_thread")]
async fn f41_new_person_the_same_day_reaches_the_peer() {
    let (rows_a, rows_b) = scenario("Person").await;
    assert!(rows_a.contains("second"));
    assert_eq!(
        rows_a, rows_b,
        "after B has pulled from A until nothing is transferred, B returns the same Person rows as A"
    );
}

/// the summary carries nothing about the Pet rows: a new Pet never reaches B
#[tokio::test(flavor = "multi_thread")]
async fn f41_new_pet_the_same_day_reaches_the_peer() {
    let (rows_a, rows_b) = scenario("Pet").await;
    assert!(rows_a.contains("second"));
    assert_eq!(
        rows_a, rows_b,
        "after B has pulled from A until nothing is transferred, B returns the same Pet rows as A"
    );
}
