//! Witness test for defect F2.
//!
//! `security::import_verifying_key` reads `veriying_key[0]` before checking the length of the
//! slice: an empty input panics (index out of bounds) instead of returning an error.

use crate::security::import_verifying_key;

#[test]
fn witness_f2_empty_key_is_an_error() {
    // empty input: must be an Err, must not panic
    let result = std::panic::catch_unwind(|| import_verifying_key(&[]).is_err());
    match result {
        Ok(is_err) => assert!(is_err, "F2: import_verifying_key(&[]) returned Ok"),
        Err(_) => panic!("F2: import_verifying_key(&[]) panicked instead of returning Err"),
    }

    // 1 byte input, valid type byte (KEY_TYPE_ED_2519 = 1): wrong length
    let result = std::panic::catch_unwind(|| import_verifying_key(&[1u8]).is_err());
    assert!(
        matches!(result, Ok(true)),
        "import_verifying_key(&[1]) must return Err without panicking"
    );

    // 1 byte input, invalid type byte
    let result = std::panic::catch_unwind(|| import_verifying_key(&[0u8]).is_err());
    assert!(
        matches!(result, Ok(true)),
        "import_verifying_key(&[0]) must return Err without panicking"
    );

    // 33 bytes input, correct length but wrong type byte
    let mut wrong_type = [0u8; 33];
    wrong_type[0] = 2;
    let result = std::panic::catch_unwind(|| import_verifying_key(&wrong_type).is_err());
    assert!(
        matches!(result, Ok(true)),
        "import_verifying_key with a wrong type byte must return Err without panicking"
    );
}
