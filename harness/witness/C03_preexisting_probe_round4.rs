//! Demonstration for property C03 (synchronisation converges).
//!
//! Two database services are wired back to back over in-memory channels:
//! the puller runs the real `LocalPeerService` (room pull) and the source runs the real `InboundQueryService`.
//!
//! Scenario: peer B holds a row, peer A updates that row twice while B is away
//! (first update adds a reference, second update changes a field), then B pulls from A.
//! After a quiescent round both peers must return identical query results.

use std::{
    collections::{HashSet, VecDeque},
    fs,
    path::PathBuf,
    sync::{
        atomic::{AtomicBool, AtomicUsize, Ordering},
        Arc,
    },
    time::Duration,
};

use tokio::sync::{broadcast, mpsc, Mutex};

use crate::{
    configuration::Configuration,
    database::{
        daily_log::DailyLog,
        graph_database::GraphDatabaseService,
        query_language::parameter::{Parameters, ParametersAdd},
        system_entities::OwnedInvite,
    },
    discret::DiscretServices,
    event_service::EventService,
    network::{peer_manager::TokenType, ConnectionInfo},
    peer_connection_service::{PeerConnectionMessage, PeerConnectionService},
    security::{base64_encode, new_uid, random32, HardwareFingerprint, Uid},
    signature_verification_service::SignatureVerificationService,
};

use super::{
    peer_inbound_service::{LocalPeerService, QueryService},
    peer_outbound_service::{InboundQueryService, RemotePeerHandle},
    room_locking_service::RoomLockService,
    Answer, LocalEvent, Query, QueryProtocol, RemoteEvent,
};

const DATA_PATH: &str = "test_data/tmp/seeded_probe_c03/";
const DATA_MODEL: &str = "{Person{ name:String, parents:[Person] nullable } Pet{ name:String }}";

struct TestPeer {
    name: &'static str,
    db: GraphDatabaseService,
    key: Vec<u8>,
    services: DiscretServices,
}

async fn start_peer(name: &'static str, test: &str) -> TestPeer {
    let path: PathBuf = format!("{}{}/{}", DATA_PATH, test, name).into();
    let _ = fs::remove_dir_all(&path);
    fs::create_dir_all(&path).unwrap();
    let events = EventService::new();
    let (db, key, _) = GraphDatabaseService::start(
        "seeded demo app",
        DATA_MODEL,
        &random32(),
        &random32(),
        path,
        &Configuration::default(),
        events.clone(),
    )
    .await
    .unwrap();
    let services = DiscretServices {
        events,
        database: db.clone(),
        signature_verification: SignatureVerificationService::start(1),
    };
    TestPeer {
        name,
        db,
        key,
        services,
    }
}

fn dummy_peer_service() -> PeerConnectionService {
    let (sender, mut receiver) = mpsc::channel::<PeerConnectionMessage>(64);
    tokio::spawn(async move { while receiver.recv().await.is_some() {} });
    PeerConnectionService { sender }
}

fn fingerprint() -> HardwareFingerprint {
    HardwareFingerprint {
        id: new_uid(),
        name: "demo".to_string(),
    }
}

///
/// one directed synchronisation: 'puller' pulls the room from 'source' with the real services.
/// returns the number of rows requested from the source (Query::Nodes)
///
async fn pull(puller: &TestPeer, source: &TestPeer, room: Uid) -> usize {
    let peer_service = dummy_peer_service();
    let circuit_id = random32();
    let conn_id = new_uid();

    // puller --query--> proxy --query--> source ; source --answer--> puller
    let (query_tx, mut proxy_rx) = mpsc::channel::<QueryProtocol>(16);
    let (proxy_tx, inbound_rx) = mpsc::channel::<QueryProtocol>(16);
    let (answer_tx, answer_rx) = mpsc::channel::<Answer>(16);

    let requested_rows = Arc::new(AtomicUsize::new(0));
    let (started_tx, mut started_rx) = mpsc::unbounded_channel::<()>();
    let requested = requested_rows.clone();
    tokio::spawn(async move {
        while let Some(msg) = proxy_rx.recv().await {
            match &msg.query {
                Query::RoomDefinition(r) if r.eq(&room) => {
                    let _ = started_tx.send(());
                }
                Query::Nodes(_, ids) => {
                    requested.fetch_add(ids.len(), Ordering::SeqCst);
                }
                _ => {}
            }
            if proxy_tx.send(msg).await.is_err() {
                break;
            }
        }
    });

    //source side: answers the queries, the puller has already been identified
    let _source_inbound = InboundQueryService::start(
        fingerprint(),
        circuit_id,
        conn_id,
        RemotePeerHandle {
            allowed_room: HashSet::new(),
            db: source.db.clone(),
            verifying_key: source.key.clone(),
            reply: answer_tx,
        },
        inbound_rx,
        peer_service.clone(),
        Arc::new(Mutex::new(puller.key.clone())),
        Arc::new(AtomicBool::new(true)),
    );

    //puller side
    let query_service = QueryService::start(query_tx, answer_rx);
    let (remote_event_tx, remote_event_rx) = mpsc::channel::<RemoteEvent>(8);
    let (_local_event_tx, local_event_rx) = broadcast::channel::<LocalEvent>(8);
    let (event_out_tx, mut event_out_rx) = mpsc::channel::<RemoteEvent>(8);
    tokio::spawn(async move { while event_out_rx.recv().await.is_some() {} });
    let lock_service = RoomLockService::start(1);

    let (_unused_query_tx, unused_query_rx) = mpsc::channel::<QueryProtocol>(1);
    let (unused_answer_tx, _unused_answer_rx) = mpsc::channel::<Answer>(1);
    let puller_inbound = InboundQueryService::start(
        fingerprint(),
        circuit_id,
        conn_id,
        RemotePeerHandle {
            allowed_room: HashSet::new(),
            db: puller.db.clone(),
            verifying_key: puller.key.clone(),
            reply: unused_answer_tx,
        },
        unused_query_rx,
        peer_service.clone(),
        Arc::new(Mutex::new(Vec::new())),
        Arc::new(AtomicBool::new(true)),
    );

    let connection_info = ConnectionInfo {
        endpoint_id: new_uid(),
        remote_id: new_uid(),
        conn_id,
        meeting_token: Default::default(),
        peer_verifying_key: source.key.clone(),
    };

    LocalPeerService::start(
        remote_event_rx,
        local_event_rx,
        circuit_id,
        connection_info,
        puller.key.clone(),
        TokenType::OwnedInvite(OwnedInvite {
            id: new_uid(),
            room: None,
            authorisation: None,
        }),
        Arc::new(Mutex::new(Vec::new())),
        Arc::new(AtomicBool::new(true)),
        lock_service.clone(),
        query_service,
        event_out_tx,
        peer_service.clone(),
        puller_inbound,
        &puller.services,
    );

    //the source announces that it is ready: the puller asks for the room list and synchronises
    remote_event_tx.send(RemoteEvent::Ready).await.unwrap();

    //the room is locked by the puller when the first room query is seen
    tokio::time::timeout(Duration::from_secs(30), started_rx.recv())
        .await
        .unwrap_or_else(|_| {
            panic!(
                "{} did not start to synchronise the room from {}",
                puller.name, source.name
            )
        });
    //the lock is granted to the probe when the synchronisation is finished
    let (probe_tx, mut probe_rx) = mpsc::unbounded_channel::<Uid>();
    let mut rooms = VecDeque::new();
    rooms.push_back(room);
    lock_service.request_locks(random32(), rooms, probe_tx).await;
    let locked = tokio::time::timeout(Duration::from_secs(60), probe_rx.recv())
        .await
        .unwrap_or_else(|_| {
            panic!(
                "{} did not finish to synchronise the room from {}",
                puller.name, source.name
            )
        })
        .unwrap();
    lock_service.unlock(locked).await;

    settle(puller).await;
    drop(remote_event_tx);
    requested_rows.load(Ordering::SeqCst)
}

///
/// wait for the daily log computation that has been requested before this call
///
async fn settle(peer: &TestPeer) {
    //goes through the database service queue, behind the ComputeDailyLog message
    peer.db.datamodel().await.unwrap();
    //goes through the writer queue, behind the daily log computation
    peer.db.add_peer_nodes(Vec::new()).await.unwrap();
}

async fn room_log(peer: &TestPeer, room: Uid) -> Vec<DailyLog> {
    let mut receiver = peer.db.get_room_log(room).await;
    let mut res = Vec::new();
    while let Some(log) = receiver.recv().await {
        res.append(&mut log.unwrap());
    }
    res
}

async fn create_room(creator: &TestPeer, users: &[&TestPeer]) -> Uid {
    let mut param = Parameters::default();
    param
        .add("admin", base64_encode(&creator.key))
        .unwrap();
    let mut user_list = String::new();
    for (i, user) in users.iter().enumerate() {
        let name = format!("user_{}", i);
        param.add(&name, base64_encode(&user.key)).unwrap();
        if i > 0 {
            user_list.push(',');
        }
        user_list.push_str(&format!("{{verif_key:${} }}", name));
    }
    let mutation = format!(
        r#"mutate mut {{
            sys.Room{{
                admin: [{{ verif_key:$admin }}]
                authorisations:[{{
                    name:"all"
                    rights:[{{
                        entity:"Person"
                        mutate_self:true
                        mutate_all:true
                    }},{{
                        entity:"Pet"
                        mutate_self:true
                        mutate_all:true
                    }}]
                    users: [{}]
                }}]
            }}
        }}"#,
        user_list
    );
    let room = creator.db.mutate_raw(&mutation, Some(param)).await.unwrap();
    room.mutate_entities[0].node_to_mutate.id
}


const QUERY: &str = r#"query q {
    Person (order_by(name asc)) { id name parents (order_by(name asc)) { id name } }
    Pet (order_by(name asc)) { id name }
}"#;

#[tokio::test(flavor = "multi_thread")]
async fn seeded_probe_multi_entity() {
    let test = "multi";
    let a = start_peer("a", test).await;
    let b = start_peer("b", test).await;
    let room = create_room(&a, &[&a, &b]).await;
    let room_id = base64_encode(&room);
    let mut param = Parameters::default();
    param.add("room_id", room_id.clone()).unwrap();
    a.db.mutate_raw(r#"mutate mut {
        Person { room_id:$room_id name:"p1" }
        Pet { room_id:$room_id name:"t1" }
    }"#, Some(param)).await.unwrap();
    settle(&a).await;
    println!("first pull {}", pull(&b, &a, room).await);
    println!("second pull {}", pull(&b, &a, room).await);
    for l in room_log(&a, room).await { println!("A log {} {} {:?}", l.entity, l.date, l.daily_hash.map(|h| h[0])); }

    let mut param = Parameters::default();
    param.add("room_id", room_id.clone()).unwrap();
    a.db.mutate_raw(r#"mutate mut { Pet { room_id:$room_id name:"t2" } }"#, Some(param)).await.unwrap();
    settle(&a).await;
    let n = pull(&b, &a, room).await;
    println!("PROBE multi-entity: after A adds a Pet, B pulls {} rows", n);
    let mut param = Parameters::default();
    param.add("room_id", room_id.clone()).unwrap();
    a.db.mutate_raw(r#"mutate mut { Person { room_id:$room_id name:"p2" } }"#, Some(param)).await.unwrap();
    settle(&a).await;
    let n2 = pull(&b, &a, room).await;
    println!("PROBE multi-entity: after A adds a Person, B pulls {} rows", n2);
    println!("A {}", a.db.query(QUERY, None).await.unwrap());
    println!("B {}", b.db.query(QUERY, None).await.unwrap());
}

#[tokio::test(flavor = "multi_thread")]
async fn seeded_probe_concurrent_edge() {
    let test = "edge";
    let a = start_peer("a", test).await;
    let b = start_peer("b", test).await;
    let room = create_room(&a, &[&a, &b]).await;
    let room_id = base64_encode(&room);
    let mut param = Parameters::default();
    param.add("room_id", room_id.clone()).unwrap();
    let res = a.db.mutate_raw(r#"mutate mut {
        child : Person { room_id:$room_id name:"child" }
        parent : Person { room_id:$room_id name:"parent" }
    }"#, Some(param)).await.unwrap();
    let child_id = base64_encode(&res.mutate_entities[0].node_to_mutate.id);
    let parent_id = base64_encode(&res.mutate_entities[1].node_to_mutate.id);
    settle(&a).await;
    pull(&b, &a, room).await;

    tokio::time::sleep(Duration::from_millis(5)).await;
    let mut param = Parameters::default();
    param.add("id", child_id.clone()).unwrap();
    param.add("parent", parent_id.clone()).unwrap();
    a.db.mutate_raw(r#"mutate mut { Person { id:$id parents:[{id:$parent}] } }"#, Some(param)).await.unwrap();
    settle(&a).await;
    tokio::time::sleep(Duration::from_millis(5)).await;
    let mut param = Parameters::default();
    param.add("id", child_id.clone()).unwrap();
    b.db.mutate_raw(r#"mutate mut { Person { id:$id name:"child renamed by b" } }"#, Some(param)).await.unwrap();
    settle(&b).await;

    for round in 0..4 {
        let n = pull(&b, &a, room).await + pull(&a, &b, room).await;
        println!("round {} transferred {}", round, n);
    }
    println!("PROBE edge A {}", a.db.query(QUERY, None).await.unwrap());
    println!("PROBE edge B {}", b.db.query(QUERY, None).await.unwrap());
    println!("logs equal {}", room_log(&a, room).await == room_log(&b, room).await);
}
