//! Witness for property C10: the access decisions of a room are the same whether the room
//! was built by mutations in a running instance or reloaded from storage after a restart.
//!
//! A room created with an admin and no authorisation group is accepted by the running instance
//! (the admin can add a group later). `RoomAuthorisations::LOAD_QUERY` selects `admin{..}` and
//! `authorisations{..}` as inner joins, so such a room is not returned at start-up and the
//! restarted instance does not know it any more.

use std::{fs, path::PathBuf};

use crate::{
    configuration::Configuration,
    database::{
        authorisation_service::RoomAuthorisations,
        graph_database::GraphDatabaseService,
        query_language::parameter::{Parameters, ParametersAdd},
    },
    event_service::EventService,
    security::{base64_encode, random32, uid_decode},
};

const DATA_PATH: &str = "test_data/database/verif_witness_f38/";

const CREATE_ROOM_ADMIN_ONLY: &str = r#"mutate {
    sys.Room{
        admin: [{
            verif_key:$user_id
        }]
    }
}"#;

const ADD_GROUP: &str = r#"mutate {
    sys.Room{
        id:$room_id
        authorisations:[{
            name:"g"
            rights:[{
                entity:"Person"
                mutate_self:true
                mutate_all:true
            }]
        }]
    }
}"#;

const INSERT_PERSON: &str = r#"mutate {
    Person{
        room_id: $room_id
        name: "me"
    }
}"#;

async fn create_admin_only_room(app: &GraphDatabaseService, user_id: &str) -> String {
    let mut param = Parameters::default();
    param.add("user_id", user_id.to_string()).unwrap();
    let room = app
        .mutate_raw(CREATE_ROOM_ADMIN_ONLY, Some(param))
        .await
        .expect("control: the running instance accepts a room that has an admin and no group");
    base64_encode(&room.mutate_entities[0].node_to_mutate.id)
}

#[tokio::test(flavor = "multi_thread")]
async fn f38_room_without_group_survives_a_restart() {
    let path: PathBuf = DATA_PATH.into();
    fs::create_dir_all(&path).unwrap();

    let data_model = "{Person{ name:String }}";
    let secret = random32();
    let public_key = random32();

    let (room_1, room_2) = {
        let (app, verifying_key, _) = GraphDatabaseService::start(
            "f38 app",
            data_model,
            &secret,
            &public_key,
            path.clone(),
            &Configuration::default(),
            EventService::new(),
        )
        .await
        .unwrap();
        let user_id = base64_encode(&verifying_key);

        let room_1 = create_admin_only_room(&app, &user_id).await;
        let room_2 = create_admin_only_room(&app, &user_id).await;
        assert_ne!(room_1, room_2);

        // control: the live path serves the definition of a group-less room
        let room_node = app
            .get_room_node(uid_decode(&room_1).unwrap())
            .await
            .unwrap()
            .expect("control: get_room_node serves a room without group");
        assert_eq!(1, room_node.admin_nodes.len());
        assert_eq!(0, room_node.auth_nodes.len());

        // control: nobody has a right on Person in a room without group
        let mut param = Parameters::default();
        param.add("room_id", room_2.clone()).unwrap();
        app.mutate_raw(INSERT_PERSON, Some(param))
            .await
            .expect_err("control: no right on Person before a group exists");

        // control: the running instance knows the second room: its admin adds a group and uses it
        let mut param = Parameters::default();
        param.add("room_id", room_2.clone()).unwrap();
        app.mutate_raw(ADD_GROUP, Some(param)).await.expect(
            "control: the running instance lets the admin add a group to a room created without group",
        );
        let mut param = Parameters::default();
        param.add("room_id", room_2.clone()).unwrap();
        app.mutate_raw(INSERT_PERSON, Some(param))
            .await
            .expect("control: the group added in the running instance grants the right on Person");

        let loaded = app
            .query(RoomAuthorisations::LOAD_QUERY, None)
            .await
            .unwrap();
        println!("LOAD_QUERY before restart: {}", loaded);
        println!(
            "room_1 (no group) {} returned: {} ; room_2 (group added) {} returned: {}",
            room_1,
            loaded.contains(&room_1),
            room_2,
            loaded.contains(&room_2)
        );
        assert!(
            loaded.contains(&room_2),
            "control: LOAD_QUERY returns the room that has a group"
        );

        (room_1, room_2)
    };

    // restart on the same folder with the same key material
    let restarted = GraphDatabaseService::start(
        "f38 app",
        data_model,
        &secret,
        &public_key,
        path,
        &Configuration::default(),
        EventService::new(),
    )
    .await;
    let (app, verifying_key, _) = match restarted {
        Ok(r) => r,
        Err(e) => panic!(
            "C10 violated: the instance cannot be restarted on data it wrote itself: {}",
            e
        ),
    };
    let _ = verifying_key;

    let loaded = app
        .query(RoomAuthorisations::LOAD_QUERY, None)
        .await
        .unwrap();
    println!("LOAD_QUERY after restart: {}", loaded);
    println!(
        "room_1 (no group) returned: {} ; room_2 returned: {}",
        loaded.contains(&room_1),
        loaded.contains(&room_2)
    );

    // control: the room that has a group is reloaded and still usable
    let mut param = Parameters::default();
    param.add("room_id", room_2.clone()).unwrap();
    app.mutate_raw(INSERT_PERSON, Some(param))
        .await
        .expect("control: the room with a group is reloaded after the restart");

    // the room without group is still stored
    let room_node = app
        .get_room_node(uid_decode(&room_1).unwrap())
        .await
        .unwrap()
        .expect("control: the definition of the group-less room is still in storage");
    assert_eq!(1, room_node.admin_nodes.len());

    // property: the first room is still known, its admin can add a group to it and use it
    let mut param = Parameters::default();
    param.add("room_id", room_1.clone()).unwrap();
    let res = app.mutate_raw(ADD_GROUP, Some(param)).await;
    if let Err(e) = &res {
        println!("adding a group to room_1 after the restart: {}", e);
    }
    assert!(
        res.is_ok(),
        "C10 violated: a room without any group is not reloaded after a restart: the admin cannot add a group any more: {}",
        res.err().unwrap()
    );

    let mut param = Parameters::default();
    param.add("room_id", room_1.clone()).unwrap();
    let res = app.mutate_raw(INSERT_PERSON, Some(param)).await;
    assert!(
        res.is_ok(),
        "C10 violated: a room without any group is not reloaded after a restart: a Person row of the room is refused: {}",
        res.err().unwrap()
    );
}
