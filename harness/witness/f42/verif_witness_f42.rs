//! Witness F42: the puller side of the synchronisation (LocalPeerService) matches a delivered row to the
//! announced one by id only.
//!
//! The real puller is run from its public entry point (LocalPeerService::start) on a real database, against a
//! scripted remote side that answers the protocol queries over the in-memory channels:
//!  - Query::RoomDailyNodes is answered with the identifier of a NEW version of a row (later mdate),
//!  - Query::Nodes is answered with an OLD version of that row, validly signed by its legitimate author
//!    (every member of the room holds such versions: it received them earlier).
//!
//! Properties asserted:
//!  - f42_delivered_older_version_replaces_newer_stored_row:
//!    a stored row is never replaced by an older version of itself (last writer wins, whatever the arrival order)
//!  - f42_delivered_deleted_version_is_stored_again:
//!    once a deletion is applied, the deleted version of the row never becomes visible again
//!
use std::{
    collections::{HashSet, VecDeque},
    fs,
    path::PathBuf,
    sync::{atomic::AtomicBool, Arc},
    time::Duration,
};

use serde::Serialize;
use tokio::sync::{broadcast, mpsc, Mutex};

use crate::{
    configuration::Configuration,
    database::{
        daily_log::DailyLog,
        graph_database::GraphDatabaseService,
        node::{Node, NodeIdentifier},
        query_language::parameter::{Parameters, ParametersAdd},
        system_entities::{AllowedPeer, Peer},
    },
    date_utils::date,
    discret::DiscretServices,
    event_service::{Event, EventService},
    network::{peer_manager::TokenType, ConnectionInfo},
    peer_connection_service::{PeerConnectionMessage, PeerConnectionService},
    security::{base64_encode, new_uid, random32, HardwareFingerprint, Uid, MEETING_TOKEN_SIZE},
    signature_verification_service::SignatureVerificationService,
};

use super::{
    identity_challenge_message,
    peer_inbound_service::{LocalPeerService, QueryService},
    peer_outbound_service::{InboundQueryService, RemotePeerHandle},
    room_locking_service::RoomLockService,
    Answer, Error, IdentityAnswer, LocalEvent, Query, QueryProtocol, RemoteEvent,
};

const DATA_PATH: &str = "test_data/tmp/verif_witness_f42/";
const DATA_MODEL: &str = "{ Person { name:String } }";

async fn new_database(sub_dir: &str) -> (GraphDatabaseService, Vec<u8>, EventService) {
    let path: PathBuf = format!("{}{}/", DATA_PATH, sub_dir).into();
    fs::create_dir_all(&path).unwrap();
    let events = EventService::new();
    let (db, verifying_key, _) = GraphDatabaseService::start(
        "verif witness f42",
        DATA_MODEL,
        &random32(),
        &random32(),
        path,
        &Configuration::default(),
        events.clone(),
    )
    .await
    .unwrap();
    (db, verifying_key, events)
}

/// a room where its creator has every right on Person
async fn new_room(db: &GraphDatabaseService, verifying_key: &[u8]) -> Uid {
    let mut param = Parameters::default();
    param.add("user_id", base64_encode(verifying_key)).unwrap();
    let room = db
        .mutate_raw(
            r#"mutate mut {
                sys.Room{
                    admin: [{ verif_key:$user_id }]
                    authorisations:[{
                        name:"admin"
                        rights:[{ entity:"Person" mutate_self:true mutate_all:true }]
                        users: [{ verif_key:$user_id }]
                    }]
                }
            }"#,
            Some(param),
        )
        .await
        .unwrap();
    room.mutate_entities[0].node_to_mutate.id
}

/// the version of the row that is stored, if any
async fn stored_version(db: &GraphDatabaseService, room_id: Uid, id: Uid) -> Option<Node> {
    let mut recv = db.get_nodes(room_id, vec![id]).await;
    let mut found = None;
    while let Some(nodes) = recv.recv().await {
        for node in nodes.unwrap() {
            if node.id == id {
                found = Some(node);
            }
        }
    }
    found
}

async fn send<T: Serialize>(
    reply: &mpsc::Sender<Answer>,
    id: u64,
    success: bool,
    complete: bool,
    msg: T,
) {
    let _ = reply
        .send(Answer {
            id,
            success,
            complete,
            serialized: bincode::serialize(&msg).unwrap(),
        })
        .await;
}

///
/// Runs the real puller (LocalPeerService::start) of `puller_db` against a scripted remote peer that
/// announces `announced` for the room and delivers `delivered`.
/// Returns the list of queries that the puller has sent, and the ids it has requested with Query::Nodes
///
async fn pull_from_scripted_remote(
    puller_db: &GraphDatabaseService,
    puller_key: &[u8],
    puller_events: &EventService,
    room_id: Uid,
    announced: NodeIdentifier,
    delivered: Node,
) -> (Vec<String>, Vec<Uid>) {
    //the identity of the remote peer is a real one
    let (remote_db, remote_key, _) = new_database(&base64_encode(&new_uid())).await;

    let (query_sender, mut query_receiver) = mpsc::channel::<QueryProtocol>(10);
    let (answer_sender, answer_receiver) = mpsc::channel::<Answer>(10);
    let trace: Arc<Mutex<Vec<String>>> = Arc::new(Mutex::new(Vec::new()));
    let requested: Arc<Mutex<Vec<Uid>>> = Arc::new(Mutex::new(Vec::new()));

    //
    // the scripted remote side
    //
    {
        let trace = trace.clone();
        let requested = requested.clone();
        let remote_key = remote_key.clone();
        let local_db = puller_db.clone();
        let entity = delivered._entity.clone();
        let day = date(announced.mdate);
        let mut announced = Some(announced);
        let reply = answer_sender;
        tokio::spawn(async move {
            while let Some(msg) = query_receiver.recv().await {
                let id = msg.id;
                match msg.query {
                    Query::ProveIdentity(challenge) => {
                        trace.lock().await.push("ProveIdentity".to_string());
                        let (_, chall_signature) = remote_db
                            .sign(identity_challenge_message(&challenge).to_vec())
                            .await;
                        let peer = remote_db
                            .get_peer_node(remote_key.clone())
                            .await
                            .unwrap()
                            .unwrap();
                        let answer = IdentityAnswer {
                            peer,
                            chall_signature,
                        };
                        send(&reply, id, true, true, answer).await;
                    }
                    Query::RoomList => {
                        trace.lock().await.push("RoomList".to_string());
                        let mut rooms = VecDeque::new();
                        rooms.push_back(room_id);
                        send(&reply, id, true, false, rooms).await;
                        send(&reply, id, true, true, "").await;
                    }
                    Query::RoomDefinition(room) => {
                        trace.lock().await.push("RoomDefinition".to_string());
                        //same room definition as the puller, but the data differs
                        let mut def = local_db.get_room_definition(room).await.unwrap().unwrap();
                        def.history_hash = Some(random32().to_vec());
                        def.daily_hash = Some(random32().to_vec());
                        def.last_data_date = Some(day);
                        send(&reply, id, true, true, Some(def)).await;
                    }
                    Query::PeersForRoom(_) => {
                        trace.lock().await.push("PeersForRoom".to_string());
                        send(&reply, id, true, true, "").await;
                    }
                    Query::RoomLog(room) => {
                        trace.lock().await.push("RoomLog".to_string());
                        let log = vec![DailyLog {
                            room_id: room,
                            date: day,
                            entity: entity.clone(),
                            entry_number: 1,
                            daily_hash: Some(random32().to_vec()),
                            history_hash: Some(random32().to_vec()),
                            need_recompute: false,
                        }];
                        send(&reply, id, true, false, log).await;
                        send(&reply, id, true, true, "").await;
                    }
                    Query::EdgeDeletionLog(_, _, _) => {
                        trace.lock().await.push("EdgeDeletionLog".to_string());
                        send(&reply, id, true, true, "").await;
                    }
                    Query::NodeDeletionLog(_, _, _) => {
                        trace.lock().await.push("NodeDeletionLog".to_string());
                        send(&reply, id, true, true, "").await;
                    }
                    Query::RoomDailyNodes(_, _, _) => {
                        trace.lock().await.push("RoomDailyNodes".to_string());
                        //announces the NEW version
                        let mut ids = HashSet::new();
                        if let Some(announced) = announced.take() {
                            ids.insert(announced);
                        }
                        send(&reply, id, true, false, ids).await;
                        send(&reply, id, true, true, "").await;
                    }
                    Query::Nodes(_, ids) => {
                        trace.lock().await.push("Nodes".to_string());
                        requested.lock().await.extend(ids);
                        //delivers the OLD version
                        send(&reply, id, true, false, vec![delivered.clone()]).await;
                        send(&reply, id, true, true, "").await;
                    }
                    Query::Edges(_, _) => {
                        trace.lock().await.push("Edges".to_string());
                        send(&reply, id, true, true, "").await;
                    }
                    _ => {
                        trace.lock().await.push("other".to_string());
                        send(&reply, id, false, true, Error::Technical).await;
                    }
                }
            }
        });
    }

    //
    // the real puller side, wired like PeerConnectionService does for a new connection
    //
    let discret_services = DiscretServices {
        events: puller_events.clone(),
        database: puller_db.clone(),
        signature_verification: SignatureVerificationService::start(1),
    };
    let mut events = puller_events.subcribe().await;

    let (peer_sender, mut peer_receiver) = mpsc::channel::<PeerConnectionMessage>(32);
    let peer_service = PeerConnectionService {
        sender: peer_sender,
    };
    tokio::spawn(async move { while peer_receiver.recv().await.is_some() {} });

    let (local_event_broadcast, _) = broadcast::channel::<LocalEvent>(16);
    let (remote_event_sender, remote_event_receiver) = mpsc::channel::<RemoteEvent>(10);
    let (event_sender, mut event_receiver) = mpsc::channel::<RemoteEvent>(10);
    tokio::spawn(async move { while event_receiver.recv().await.is_some() {} });

    let circuit_id = random32();
    let connection_info = ConnectionInfo {
        endpoint_id: new_uid(),
        remote_id: new_uid(),
        conn_id: new_uid(),
        meeting_token: [0; MEETING_TOKEN_SIZE],
        peer_verifying_key: remote_key.clone(),
    };
    let token_type = TokenType::AllowedPeer(AllowedPeer {
        peer: Peer {
            id: base64_encode(&new_uid()),
            verifying_key: base64_encode(&remote_key),
        },
        meeting_token: "".to_string(),
    });
    let remote_verifying_key: Arc<Mutex<Vec<u8>>> = Arc::new(Mutex::new(Vec::new()));
    let conn_ready = Arc::new(AtomicBool::new(true));

    //the queries of the remote side are not part of the scenario: the channel stays empty
    let (_inbound_query_sender, inbound_query_receiver) = mpsc::channel::<QueryProtocol>(10);
    let (inbound_answer_sender, _inbound_answer_receiver) = mpsc::channel::<Answer>(10);
    let inbound_query_service = InboundQueryService::start(
        HardwareFingerprint {
            id: new_uid(),
            name: "witness".to_string(),
        },
        circuit_id,
        connection_info.conn_id,
        RemotePeerHandle {
            db: puller_db.clone(),
            allowed_room: HashSet::new(),
            verifying_key: puller_key.to_vec(),
            reply: inbound_answer_sender,
        },
        inbound_query_receiver,
        peer_service.clone(),
        remote_verifying_key.clone(),
        conn_ready.clone(),
    );

    let query_service = QueryService::start(query_sender, answer_receiver);

    LocalPeerService::start(
        remote_event_receiver,
        local_event_broadcast.subscribe(),
        circuit_id,
        connection_info,
        puller_key.to_vec(),
        token_type,
        remote_verifying_key,
        conn_ready,
        RoomLockService::start(4),
        query_service,
        event_sender,
        peer_service,
        inbound_query_service,
        &discret_services,
    );

    //the remote side is ready: the puller lists its rooms and synchronises them
    remote_event_sender.send(RemoteEvent::Ready).await.unwrap();

    let expected = base64_encode(&room_id);
    let synchronised = tokio::time::timeout(Duration::from_secs(30), async {
        loop {
            match events.recv().await {
                Ok(Event::RoomSynchronized(room)) => {
                    if room == expected {
                        break true;
                    }
                }
                Ok(_) => {}
                Err(broadcast::error::RecvError::Lagged(_)) => {}
                Err(broadcast::error::RecvError::Closed) => break false,
            }
        }
    })
    .await;
    let trace = trace.lock().await.clone();
    assert!(
        matches!(synchronised, Ok(true)),
        "the puller did not finish the synchronisation of the room, queries sent: {:?}",
        trace
    );
    drop(remote_event_sender);
    drop(local_event_broadcast);
    let requested = requested.lock().await.clone();
    (trace, requested)
}

#[tokio::test(flavor = "multi_thread")]
async fn f42_delivered_older_version_replaces_newer_stored_row() {
    let (db, key, events) = new_database("rollback").await;
    let room_id = new_room(&db, &key).await;

    let mut param = Parameters::default();
    param.add("room_id", base64_encode(&room_id)).unwrap();
    let mutation = db
        .mutate_raw(
            r#"mutate { Person { room_id:$room_id name:"version 1" } }"#,
            Some(param),
        )
        .await
        .unwrap();
    let id = mutation.mutate_entities[0].node_to_mutate.id;
    let v1 = stored_version(&db, room_id, id).await.unwrap();
    v1.verify().unwrap();

    tokio::time::sleep(Duration::from_millis(20)).await;

    let mut param = Parameters::default();
    param.add("id", base64_encode(&id)).unwrap();
    db.mutate_raw(
        r#"mutate { Person { id:$id name:"version 2" } }"#,
        Some(param),
    )
    .await
    .unwrap();
    let v2 = stored_version(&db, room_id, id).await.unwrap();
    v2.verify().unwrap();
    assert!(v2.mdate > v1.mdate);

    //the remote peer announces a version that is newer than the stored one, and delivers version 1
    let announced = NodeIdentifier {
        id,
        mdate: v2.mdate + 1,
        signature: vec![255; 64],
    };
    let (trace, requested) =
        pull_from_scripted_remote(&db, &key, &events, room_id, announced, v1.clone()).await;

    //the scenario did happen: the announced version was requested and the old one delivered
    assert!(trace.contains(&"RoomDailyNodes".to_string()), "{:?}", trace);
    assert_eq!(vec![id], requested, "queries: {:?}", trace);

    let stored = stored_version(&db, room_id, id).await.unwrap();
    let visible = db.query("query { Person { name } }", None).await.unwrap();
    assert!(
        stored.mdate >= v2.mdate,
        "F42 rollback: the stored row (mdate {}) was replaced by an older version (mdate {}) delivered in place of the announced one (mdate {}); visible now: {}",
        v2.mdate,
        stored.mdate,
        v2.mdate + 1,
        visible.replace('\n', "")
    );
    assert_eq!(v2._signature, stored._signature);
    assert_eq!("{\n\"Person\":[{\"name\":\"version 2\"}]\n}", visible);
}

#[tokio::test(flavor = "multi_thread")]
async fn f42_delivered_deleted_version_is_stored_again() {
    let (db, key, events) = new_database("deleted").await;
    let room_id = new_room(&db, &key).await;

    let mut param = Parameters::default();
    param.add("room_id", base64_encode(&room_id)).unwrap();
    let mutation = db
        .mutate_raw(
            r#"mutate { Person { room_id:$room_id name:"deleted version" } }"#,
            Some(param),
        )
        .await
        .unwrap();
    let id = mutation.mutate_entities[0].node_to_mutate.id;
    let v1 = stored_version(&db, room_id, id).await.unwrap();
    v1.verify().unwrap();

    let mut param = Parameters::default();
    param.add("id", base64_encode(&id)).unwrap();
    db.delete("delete del { Person { $id } }", Some(param))
        .await
        .unwrap();

    //the deletion is applied and logged for the version that was stored
    assert!(stored_version(&db, room_id, id).await.is_none());
    let mut del_log_recv = db
        .get_room_node_deletion_log(room_id, v1._entity.clone(), crate::date_utils::now())
        .await;
    let del_log = del_log_recv.recv().await.unwrap().unwrap();
    assert_eq!(1, del_log.len());
    assert_eq!(id, del_log[0].id);
    assert_eq!(v1.mdate, del_log[0].mdate);

    //the remote peer announces a version that is newer than the deleted one, and delivers the deleted version
    let announced = NodeIdentifier {
        id,
        mdate: v1.mdate + 1,
        signature: vec![255; 64],
    };
    let (trace, requested) =
        pull_from_scripted_remote(&db, &key, &events, room_id, announced, v1.clone()).await;

    assert!(trace.contains(&"RoomDailyNodes".to_string()), "{:?}", trace);
    assert_eq!(vec![id], requested, "queries: {:?}", trace);

    let stored = stored_version(&db, room_id, id).await;
    let visible = db.query("query { Person { name } }", None).await.unwrap();
    assert!(
        stored.is_none(),
        "F42 resurrection: the version (mdate {}) that the deletion log records as deleted (mdate {}) is stored again, delivered in place of the announced one (mdate {}); visible now: {}",
        stored.as_ref().unwrap().mdate,
        del_log[0].mdate,
        v1.mdate + 1,
        visible.replace('\n', "")
    );
    assert_eq!("{\n\"Person\":[]\n}", visible);
}

///
/// control: the honest cases are still accepted.
/// The remote peer delivers exactly the announced version, then (the row was updated between the two queries) a newer one
///
#[tokio::test(flavor = "multi_thread")]
async fn f42_control_delivered_announced_or_newer_version_is_stored() {
    let (author_db, author_key, _) = new_database("control_author").await;
    let (db, key, events) = new_database("control_puller").await;
    let room_id = new_room(&author_db, &author_key).await;

    //the puller knows the room
    let room_node = author_db.get_room_node(room_id).await.unwrap().unwrap();
    let ser = bincode::serialize(&room_node).unwrap();
    db.add_room_node(bincode::deserialize(&ser).unwrap())
        .await
        .unwrap();

    let mut param = Parameters::default();
    param.add("room_id", base64_encode(&room_id)).unwrap();
    let mutation = author_db
        .mutate_raw(
            r#"mutate { Person { room_id:$room_id name:"version 1" } }"#,
            Some(param),
        )
        .await
        .unwrap();
    let id = mutation.mutate_entities[0].node_to_mutate.id;
    let v1 = stored_version(&author_db, room_id, id).await.unwrap();

    let mut versions = vec![v1];
    for name in ["version 2", "version 3"] {
        tokio::time::sleep(Duration::from_millis(20)).await;
        let mut param = Parameters::default();
        param.add("id", base64_encode(&id)).unwrap();
        param.add("name", name.to_string()).unwrap();
        author_db
            .mutate_raw(r#"mutate { Person { id:$id name:$name } }"#, Some(param))
            .await
            .unwrap();
        versions.push(stored_version(&author_db, room_id, id).await.unwrap());
    }
    let (v1, v2, v3) = (&versions[0], &versions[1], &versions[2]);
    assert!(v1.mdate < v2.mdate && v2.mdate < v3.mdate);

    //announced: version 1, delivered: version 1
    let announced = NodeIdentifier {
        id,
        mdate: v1.mdate,
        signature: v1._signature.clone(),
    };
    let (trace, requested) =
        pull_from_scripted_remote(&db, &key, &events, room_id, announced, v1.clone()).await;
    assert_eq!(vec![id], requested, "queries: {:?}", trace);
    let stored = stored_version(&db, room_id, id).await.unwrap();
    assert_eq!(v1.mdate, stored.mdate);
    assert_eq!(v1._signature, stored._signature);

    //announced: version 2, delivered: version 3
    let announced = NodeIdentifier {
        id,
        mdate: v2.mdate,
        signature: v2._signature.clone(),
    };
    let (trace, requested) =
        pull_from_scripted_remote(&db, &key, &events, room_id, announced, v3.clone()).await;
    assert_eq!(vec![id], requested, "queries: {:?}", trace);
    let stored = stored_version(&db, room_id, id).await.unwrap();
    assert_eq!(v3.mdate, stored.mdate);
    assert_eq!(v3._signature, stored._signature);
    let visible = db.query("query { Person { name } }", None).await.unwrap();
    assert_eq!("{\n\"Person\":[{\"name\":\"version 3\"}]\n}", visible);
}
