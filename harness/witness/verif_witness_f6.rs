//! Witness for F6: deleting a reference (edge) through a DeletionQuery rewrites the SOURCE row of the
//! reference with mdate = now (DeletionQuery::updated_nodes), so the row leaves the day bucket of its
//! previous mdate; DeletionQuery::update_daily_logs never marks that bucket for recomputation.
//!
//! Declared in src/database/mod.rs:
//!   #[cfg(test)]
//!   mod verif_witness_f6;
//!
//! Specification: after a batch is applied and the daily log is computed, every `_daily_log` entry is equal
//! to what a from-scratch recomputation of that (room, entity, day) gives.
//!
//! The steps applied to the connection are exactly the ones BufferedDatabaseWriter::process_batch_write
//! performs for a WriteMessage::Deletion: query.delete(conn); query.update_daily_logs(&mut daily_log);
//! daily_log.write(conn); followed by DailyLogsUpdate::compute.

use std::{collections::HashMap, sync::Arc};

use rusqlite::Connection;

use crate::{
    date_utils::{date, now},
    security::{new_uid, uid_encode, Ed25519SigningKey, SigningKey, Uid},
};

use super::{
    authorisation_service::RoomAuthorisations,
    daily_log::{DailyLog, DailyLogsUpdate, DailyMutations},
    deletion::DeletionQuery,
    mutation_query::MutationQuery,
    node::Node,
    query_language::{
        data_model_parser::DataModel,
        deletion_parser::DeletionParser,
        mutation_parser::MutationParser,
        parameter::{Parameters, ParametersAdd},
    },
    room::{Authorisation, EntityRight, Room, User},
    sqlite_database::{prepare_connection, Writeable},
};

const MS_PER_DAY: i64 = 86_400_000;

struct Scenario {
    conn: Connection,
    room_id: Uid,
    short_name: String,
    john_id: Uid,
    //date (with time) of the previous version of the source row: three days ago
    old_mdate: i64,
    old_signature: Vec<u8>,
}

fn bucket(s: &Scenario, day: i64) -> Option<DailyLog> {
    let logs = DailyLog::get_room_log_at(&s.room_id, date(day), &s.conn).unwrap();
    logs.into_iter().find(|l| l.entity.eq(&s.short_name))
}

///
/// Room R, entity Person. John (source row) was last modified three days ago (D1) and references Alice.
/// The daily log is computed: bucket (R, Person, D1) counts exactly one entry: John.
/// Then the reference John->Alice is deleted through a DeletionQuery applied like the writer does.
///
fn delete_reference_of_an_old_row() -> Scenario {
    let mut data_model = DataModel::new();
    data_model
        .update(
            "
        {
            Person {
                name : String,
                parents : [Person]
            }
        }",
        )
        .unwrap();
    let short_name = data_model.get_entity("Person").unwrap().short_name.clone();

    let conn = Connection::open_in_memory().unwrap();
    prepare_connection(&conn).unwrap();

    let signing_key = Ed25519SigningKey::new();
    let verifying_key = signing_key.export_verifying_key();
    let room_id = new_uid();

    //authorisations: the local user can mutate its own Person rows
    let mut auth = Authorisation {
        id: new_uid(),
        mdate: 1000,
        ..Default::default()
    };
    auth.add_user(User {
        verifying_key: verifying_key.clone(),
        date: 1000,
        enabled: true,
    })
    .unwrap();
    auth.add_right(EntityRight::new(1000, "Person".to_string(), true, true))
        .unwrap();
    let mut room = Room {
        id: room_id,
        mdate: 1000,
        ..Default::default()
    };
    room.add_auth(auth).unwrap();

    //create John -> Alice in the room
    let mutation = MutationParser::parse(
        r#"
        mutate {
            Person { room_id:$room_id name:"John" parents:[{room_id:$room_id name:"Alice"}]  }
        } "#,
        &data_model,
    )
    .unwrap();
    let mut param = Parameters::new();
    param.add("room_id", uid_encode(&room_id)).unwrap();
    let mut mutation_query = MutationQuery::execute(&mut param, Arc::new(mutation), &conn).unwrap();
    mutation_query.sign_all(&signing_key).unwrap();
    mutation_query.write(&conn).unwrap();

    let john_id = mutation_query.mutate_entities[0].node_to_mutate.id;
    let alice_id = mutation_query.mutate_entities[0].edge_insertions[0].dest;

    //John was last modified three days ago
    let today = now();
    let old_mdate = today - 3 * MS_PER_DAY;
    let mut john = *Node::get_with_entity(&john_id, &short_name, &conn)
        .unwrap()
        .unwrap();
    assert_eq!(Some(room_id), john.room_id);
    john.cdate = old_mdate;
    john.mdate = old_mdate;
    john.sign(&signing_key).unwrap();
    john.write(&conn, false, &None, &None).unwrap();
    let old_signature = john._signature.clone();

    //compute the daily log of the two days
    let mut daily_log = DailyMutations::new();
    daily_log.set_need_update(room_id, &short_name, old_mdate);
    daily_log.set_need_update(room_id, &short_name, today);
    daily_log.write(&conn).unwrap();
    DailyLogsUpdate::default().compute(&conn).unwrap();

    let s = Scenario {
        conn,
        room_id,
        short_name,
        john_id,
        old_mdate,
        old_signature,
    };

    let before = bucket(&s, old_mdate).unwrap();
    assert_eq!(1, before.entry_number);
    assert!(!before.need_recompute);
    assert_eq!(
        Some(blake3::hash(&s.old_signature).as_bytes().to_vec()),
        before.daily_hash
    );

    //delete the reference John -> Alice
    let deletion = DeletionParser::parse(
        "
        delete delete_ref {
            Person { $src parents[$p0] }
        }
      ",
        &data_model,
    )
    .unwrap();
    let mut param = Parameters::new();
    param.add("src", uid_encode(&john_id)).unwrap();
    param.add("p0", uid_encode(&alice_id)).unwrap();
    let mut deletion_query = DeletionQuery::build(&mut param, Arc::new(deletion), &s.conn).unwrap();
    assert_eq!(1, deletion_query.edges.len());
    assert_eq!(1, deletion_query.updated_nodes.len());
    //the source row is rewritten with a new date: the old one is not kept anywhere in the query
    assert_eq!(john_id, deletion_query.updated_nodes[0].id);
    assert_eq!(date(today), date(deletion_query.updated_nodes[0].mdate));

    let mut auths = RoomAuthorisations {
        signing_key,
        rooms: HashMap::new(),
        max_node_size: 1024 * 1024,
    };
    auths.add_room(room);
    auths.validate_deletion(&mut deletion_query).unwrap();
    assert_eq!(1, deletion_query.edge_log.len());

    //what process_batch_write does for WriteMessage::Deletion
    let mut daily_log = DailyMutations::new();
    deletion_query.delete(&s.conn).unwrap();
    deletion_query.update_daily_logs(&mut daily_log);
    daily_log.write(&s.conn).unwrap();

    //the row has really left its previous day
    let john = Node::get_with_entity(&s.john_id, &s.short_name, &s.conn)
        .unwrap()
        .unwrap();
    assert_eq!(date(today), date(john.mdate));
    assert_ne!(s.old_signature, john._signature);

    s
}

/// function level: the bucket left by the rewritten source row is marked for recomputation by the batch
#[test]
fn f6_reference_deletion_marks_the_day_left_by_the_source_row() {
    let s = delete_reference_of_an_old_row();
    let left = bucket(&s, s.old_mdate).unwrap();
    assert!(
        left.need_recompute,
        "F6: the source row left day {} but its daily log is not marked for recomputation: {:?}",
        date(s.old_mdate),
        left
    );
}

/// end to end: the stored daily log of the day that was left equals a from-scratch recomputation of that day
#[test]
fn f6_daily_log_of_the_day_left_equals_a_recomputation() {
    let s = delete_reference_of_an_old_row();

    //the regular computation that follows a batch
    DailyLogsUpdate::default().compute(&s.conn).unwrap();
    let stored = bucket(&s, s.old_mdate).unwrap();

    //forced recomputation of that day
    let mut force = DailyMutations::new();
    force.set_need_update(s.room_id, &s.short_name, s.old_mdate);
    force.write(&s.conn).unwrap();
    DailyLogsUpdate::default().compute(&s.conn).unwrap();
    let recomputed = bucket(&s, s.old_mdate).unwrap();

    //no row of that entity remains on that day
    assert_eq!(0, recomputed.entry_number);
    assert_eq!(None, recomputed.daily_hash);

    assert_eq!(
        (recomputed.entry_number, &recomputed.daily_hash),
        (stored.entry_number, &stored.daily_hash),
        "F6: stale daily log for the day left by the source row of a deleted reference (right), a recomputation gives (left)"
    );
}

/// sanity: today's bucket (the day the row moves to, also the tombstone's day) is handled by the batch
#[test]
fn f6_sanity_today_bucket_is_marked() {
    let s = delete_reference_of_an_old_row();
    let today = bucket(&s, now()).unwrap();
    assert!(today.need_recompute);
}
