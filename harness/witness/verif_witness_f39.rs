//! Witness for property C15 (finding F39).
//!
//! C15: replacing the data model by an accepted new version keeps the storage identifiers
//! (short names) of entities and fields stable; the identifiers depend only on the SEQUENCE of
//! accepted versions, and a model that was accepted is accepted again.
//!
//! Suspicion: `Entity::update` numbers the fields that are new in a version in the iteration
//! order of a `HashMap` (random per HashMap instance), whereas the parser numbers them by their
//! position in the text.

use std::{fs, path::PathBuf};

use crate::{
    configuration::Configuration,
    database::{
        graph_database::GraphDatabaseService,
        query_language::data_model_parser::{DataModel, RESERVED_SHORT_NAMES},
    },
    event_service::EventService,
    security::random32,
};

const V1: &str = "{Person{ name:String }}";
const V2: &str = "{Person{
    name:String,
    a:String nullable,
    b:String nullable,
    c:String nullable,
    d:String nullable
}}";

fn short(dm: &DataModel, entity: &str, field: &str) -> usize {
    dm.get_entity(entity)
        .unwrap()
        .get_field(field)
        .unwrap()
        .short_name
        .parse()
        .unwrap()
}

#[test]
fn f39_identifiers_of_fields_added_together_follow_the_model_text() {
    // control: a model written in one go numbers the fields by their position in the text,
    // and applying the same text again is accepted
    {
        let mut dm = DataModel::new();
        dm.update(V2).expect("control: V2 alone is a valid model");
        let ids: Vec<usize> = ["name", "a", "b", "c", "d"]
            .iter()
            .map(|f| short(&dm, "Person", f))
            .collect();
        let expected: Vec<usize> = (0..5).map(|i| RESERVED_SHORT_NAMES + i).collect();
        assert_eq!(ids, expected, "control: parser numbers fields by position");
        dm.update(V2)
            .expect("control: re-applying a model created in one go is accepted");
    }
    // control: adding ONE field in a version is deterministic and can be re-applied
    {
        let mut dm = DataModel::new();
        dm.update(V1).unwrap();
        let one = "{Person{ name:String, a:String nullable }}";
        dm.update(one).expect("control: V1 -> one more field");
        assert_eq!(short(&dm, "Person", "a"), RESERVED_SHORT_NAMES + 1);
        dm.update(one)
            .expect("control: re-applying after a single added field is accepted");
    }

    let mut bad_order = Vec::new();
    let mut refused = Vec::new();
    let mut seen = std::collections::HashSet::new();
    for round in 0..30 {
        let mut dm = DataModel::new();
        dm.update(V1).expect("control: V1 is accepted");
        assert_eq!(short(&dm, "Person", "name"), RESERVED_SHORT_NAMES);
        dm.update(V2)
            .expect("control: V2 is a legal successor of V1 (only nullable fields added)");

        let ids: Vec<usize> = ["name", "a", "b", "c", "d"]
            .iter()
            .map(|f| short(&dm, "Person", f))
            .collect();
        // control: whatever the order, the identifiers are a permutation of 33..=36 and
        // the old field keeps its identifier
        assert_eq!(ids[0], RESERVED_SHORT_NAMES, "control: old field keeps its id");
        let mut sorted = ids[1..].to_vec();
        sorted.sort();
        assert_eq!(
            sorted,
            (1..5).map(|i| RESERVED_SHORT_NAMES + i).collect::<Vec<_>>(),
            "control: new fields get the next four identifiers"
        );
        seen.insert(ids.clone());

        if !ids.windows(2).all(|w| w[0] < w[1]) {
            bad_order.push((round, ids.clone()));
        }
        if let Err(e) = dm.update(V2) {
            refused.push((round, ids.clone(), e.to_string()));
        }
    }
    println!(
        "F39: {} distinct numberings of (name,a,b,c,d) in 30 identical runs: {:?}",
        seen.len(),
        seen
    );
    println!("F39: rounds not in text order: {}", bad_order.len());
    println!("F39: rounds where re-applying V2 is refused: {}", refused.len());
    if let Some(r) = refused.first() {
        println!("F39: first refusal: round {} ids {:?}: {}", r.0, r.1, r.2);
    }

    assert!(
        bad_order.is_empty(),
        "C15 violated: the storage identifiers of fields added in one version depend on the iteration order of a HashMap: {} of 30 identical runs are not in text order, {} distinct numberings, first: {:?}",
        bad_order.len(),
        seen.len(),
        bad_order.first()
    );
    assert!(
        refused.is_empty(),
        "C15 violated: re-applying the model in use is refused: {} of 30 runs, first: {:?}",
        refused.len(),
        refused.first()
    );
}

const DATA_PATH: &str = "test_data/database/verif_witness_f39/";

#[tokio::test(flavor = "multi_thread")]
async fn f39_restart_with_the_model_in_use_after_adding_four_fields() {
    let path: PathBuf = DATA_PATH.into();
    fs::create_dir_all(&path).unwrap();

    let mut refused = Vec::new();
    let mut misread = Vec::new();
    // the iteration order is random per HashMap: a few independent rounds make the outcome
    // deterministic in practice (one round is accepted by luck 1 time in 24)
    for round in 0..4 {
        let secret = random32();
        let key = random32();
        let name = format!("f39 restart app {}", round);
        let expected = "{\n\"Person\":[{\"name\":\"Alice\",\"a\":null,\"b\":null,\"c\":null,\"d\":null},{\"name\":\"Bob\",\"a\":\"va\",\"b\":\"vb\",\"c\":\"vc\",\"d\":\"vd\"}]\n}";
        let query = "query q { Person(order_by(name asc)){ name a b c d } }";
        {
            let (app, _, _) = GraphDatabaseService::start(
                &name,
                V1,
                &secret,
                &key,
                path.clone(),
                &Configuration::default(),
                EventService::new(),
            )
            .await
            .expect("control: first start with V1");

            app.mutate_raw(r#"mutate { Person { name:"Alice" } }"#, None)
                .await
                .expect("control: write under V1");

            let dm = app
                .update_data_model(V2)
                .await
                .expect("control: V2 is accepted by the running service");
            for f in ["\"a\"", "\"b\"", "\"c\"", "\"d\""] {
                assert!(dm.contains(f), "control: V2 is in use ({} present)", f);
            }

            app.mutate_raw(
                r#"mutate { Person { name:"Bob" a:"va" b:"vb" c:"vc" d:"vd" } }"#,
                None,
            )
            .await
            .expect("control: write under V2 with the new fields");

            let result = app.query(query, None).await.unwrap();
            assert_eq!(result, expected, "control: read back before the restart");
            drop(app);
        }
        {
            // restart with the model in use
            let res = GraphDatabaseService::start(
                &name,
                V2,
                &secret,
                &key,
                path.clone(),
                &Configuration::default(),
                EventService::new(),
            )
            .await;
            match res {
                Err(e) => refused.push((round, e.to_string())),
                Ok((app, _, _)) => {
                    let result = app.query(query, None).await.unwrap();
                    if result != expected {
                        misread.push((round, result));
                    }
                }
            }
        }
    }
    println!("F39: restarts refused: {:?}", refused);
    println!("F39: restarts that misread rows: {:?}", misread);
    assert!(
        refused.is_empty(),
        "C15 violated: re-applying the model in use is refused: restarting the service with the accepted model fails in {} of 4 rounds: {:?}",
        refused.len(),
        refused
    );
    assert!(
        misread.is_empty(),
        "C15 violated: rows written before the restart read back differently: {:?}",
        misread
    );
}

/// Same question for ENTITIES added to an existing namespace by `DataModel::update_with`.
#[test]
fn f39_identifiers_of_entities_added_together_follow_the_model_text() {
    let v1 = "{Person{ name:String }} ns {Thing{ name:String }}";
    let v2 = "{Person{ name:String } A{ x:String } B{ x:String } C{ x:String } D{ x:String }}
              ns {Thing{ name:String } E{ x:String } F{ x:String } G{ x:String }}
              ns2 {H{ x:String } I{ x:String } J{ x:String }}";
    let mut seen = std::collections::HashSet::new();
    for round in 0..30 {
        let mut dm = DataModel::new();
        dm.update(v1).expect("control: v1 accepted");
        assert_eq!(dm.get_entity("Person").unwrap().short_name, "0");
        // namespace ids: the first id (0) is reserved for sys, so "" is 1, ns is 2, ns2 is 3
        assert_eq!(dm.get_entity("ns.Thing").unwrap().short_name, "2.0");
        dm.update(v2).expect("control: v2 accepted");

        let names = [
            "Person", "A", "B", "C", "D", "ns.Thing", "ns.E", "ns.F", "ns.G", "ns2.H", "ns2.I",
            "ns2.J",
        ];
        let ids: Vec<String> = names
            .iter()
            .map(|n| dm.get_entity(n).unwrap().short_name.clone())
            .collect();
        seen.insert(ids.clone());
        // control: the same text parsed in one go gives the same identifiers
        let mut fresh = DataModel::new();
        fresh.update(v2).unwrap();
        let fresh_ids: Vec<String> = names
            .iter()
            .map(|n| fresh.get_entity(n).unwrap().short_name.clone())
            .collect();
        let expected = [
            "0", "1", "2", "3", "4", "2.0", "2.1", "2.2", "2.3", "3.0", "3.1", "3.2",
        ];
        assert_eq!(
            ids, expected,
            "C15 violated: the storage identifiers of entities added in one version do not follow the model text (round {})",
            round
        );
        assert_eq!(fresh_ids, expected, "control: numbering of a model parsed in one go");
        for (n, id) in names.iter().zip(expected.iter()) {
            let stored = dm.get_entity(n).unwrap().name.clone();
            assert_eq!(
                dm.name_for(id),
                Some(stored),
                "C15 violated: reverse lookup of entity identifier {} (round {})",
                id,
                round
            );
        }
        if let Err(e) = dm.update(v2) {
            panic!(
                "C15 violated: re-applying the model in use is refused (entities added together, round {}): {}",
                round, e
            );
        }
    }
    println!("F39: distinct entity numberings in 30 runs: {}", seen.len());
}
