//! Witness for F8 / C06: the identity challenge of the connection handshake signs
//! whatever 32 bytes the remote side sends, with the very key that authenticates rows.
//!
//! The test drives the real serving arm `InboundQueryService::process_inbound`
//! (`Query::ProveIdentity`) of a real running `GraphDatabaseService`.
//!
//! Registered from the end of peer_outbound_service.rs:
//!   #[cfg(test)] #[path = "verif_witness_f8.rs"] mod verif_witness_f8;

use std::{fs, path::PathBuf};

use super::*;
use crate::{
    configuration::Configuration,
    database::node::Node,
    event_service::EventService,
    security::{new_uid, random32, Ed25519SigningKey, SigningKey},
};

const DATA_PATH: &str = "test_data/synchronisation/verif_witness_f8/";

/// what a remote peer does: send the query, read the answer from the connection
async fn ask_identity_proof(
    victim: &mut RemotePeerHandle,
    answers: &mut mpsc::Receiver<Answer>,
    id: u64,
    challenge: Vec<u8>,
) -> IdentityAnswer {
    // state of a connection that has just been opened: the remote key is not known yet
    // and the connection is not ready. ProveIdentity is the first query of every connection.
    let remote_key: Arc<Mutex<Vec<u8>>> = Arc::new(Mutex::new(Vec::new()));
    let conn_ready = Arc::new(AtomicBool::new(false));
    let fingerprint = HardwareFingerprint {
        id: new_uid(),
        name: "victim device".to_string(),
    };

    InboundQueryService::process_inbound(
        QueryProtocol {
            id,
            query: Query::ProveIdentity(challenge),
        },
        victim,
        &remote_key,
        &conn_ready,
        &fingerprint,
    )
    .await
    .expect("the ProveIdentity arm answers");

    let answer = answers.recv().await.expect("an answer is sent");
    assert_eq!(answer.id, id);
    assert!(answer.success);
    assert!(answer.complete);
    bincode::deserialize::<IdentityAnswer>(&answer.serialized).expect("an IdentityAnswer")
}

#[tokio::test(flavor = "multi_thread")]
async fn f8_identity_challenge_is_a_signing_oracle() {
    let path: PathBuf = DATA_PATH.into();
    fs::create_dir_all(&path).unwrap();

    // (1) the victim: a real running instance, with its real key
    let (victim_db, victim_key, _private_room) = GraphDatabaseService::start(
        "verif witness f8",
        "{Person{ name:String }}",
        &random32(),
        &random32(),
        path,
        &Configuration::default(),
        EventService::new(),
    )
    .await
    .unwrap();

    let (reply, mut answers) = mpsc::channel::<Answer>(8);
    let mut victim = RemotePeerHandle {
        allowed_room: HashSet::new(),
        db: victim_db,
        verifying_key: victim_key.clone(),
        reply,
    };

    // ---- control A: an honest handshake verifies -------------------------------------
    let honest_challenge = random32().to_vec();
    let honest =
        ask_identity_proof(&mut victim, &mut answers, 1, honest_challenge.clone()).await;
    assert_eq!(honest.peer.verifying_key, victim_key);
    honest
        .verify(&honest_challenge)
        .expect("control: the honest identity proof must verify");
    assert!(
        honest.verify(&random32()).is_err(),
        "control: the proof must not verify for another challenge"
    );

    // (2) the attacker builds a row the victim never wrote: a sys.UserAuth entry
    //     (entity "0.2") naming the attacker, in a room of the attacker's choice,
    //     claimed to be authored by the victim.
    let attacker_key = Ed25519SigningKey::create_from(&random32());
    let mut forged = Node {
        id: new_uid(),
        room_id: Some(new_uid()),
        cdate: 1_700_000_000_000,
        mdate: 1_700_000_000_000,
        _entity: "0.2".to_string(),
        _json: Some(format!(
            "{{\"32\":\"{}\",\"33\":true}}",
            crate::base64_encode(&attacker_key.export_verifying_key())
        )),
        _binary: None,
        verifying_key: victim_key.clone(),
        _signature: Vec::new(),
        _local_id: None,
    };
    let digest = forged.hash().unwrap();
    assert_eq!(digest.as_bytes().len(), 32);

    // ---- control B: without the victim's help the row does not verify ---------------
    forged._signature = random32().iter().chain(random32().iter()).copied().collect();
    assert!(
        forged.verify().is_err(),
        "control: a random signature must not verify"
    );
    forged._signature = attacker_key.sign(digest.as_bytes());
    assert!(
        forged.verify().is_err(),
        "control: a signature by another key must not verify"
    );

    // (3) the attacker asks the victim to "prove its identity" on challenge = row digest
    let proof = ask_identity_proof(&mut victim, &mut answers, 2, digest.as_bytes().to_vec()).await;
    assert_eq!(proof.chall_signature.len(), 64);

    // (4) and puts the answer in the row
    forged._signature = proof.chall_signature.clone();
    let verdict = forged.verify();
    assert!(
        verdict.is_err(),
        "C06 violated: the identity challenge returned a signature that verifies as a row the user never authored \
         (entity {}, room {}, author {}): Query::ProveIdentity signs the raw 32 bytes chosen by the remote peer \
         with the key that signs rows",
        forged._entity,
        crate::base64_encode(&forged.room_id.unwrap()),
        crate::base64_encode(&forged.verifying_key),
    );
}
