//! Witness for suspected defect F18:
//! `prepare_new_auth` (new group received for an EXISTING room) never looks at the authors of the
//! group's `user_admin_nodes`. A plain member can attach a self-signed user-admin entry to a
//! legitimate, admin-signed, new group.
//!
//! The witnesses assert the SPECIFICATION (forged definition refused / forged entry without
//! effect). They FAIL on the current code if F18 is real.

use std::{fs, path::PathBuf};

use crate::{
    configuration::Configuration,
    database::{
        edge::Edge,
        graph_database::GraphDatabaseService,
        node::Node,
        query_language::parameter::{Parameters, ParametersAdd},
        room::RightType,
        room_node::{RoomNode, UserNode},
        system_entities::{
            AUTH_USER_ADMIN_FIELD_SHORT, AUTH_USER_FIELD_SHORT, ROOM_AUTHORISATION_FIELD,
        },
    },
    date_utils::now,
    event_service::EventService,
    security::{base64_encode, derive_key, new_uid, random32, Ed25519SigningKey, SigningKey, Uid},
    signature_verification_service::SignatureVerificationService,
};

const DATA_PATH: &str = "test_data/database/verif_witness_f18/";
const APP_KEY: &str = "witness f18 app";
const DATA_MODEL: &str = "{ Person{ name:String, parents:[Person] } }";

fn init_database_path() {
    let path: PathBuf = DATA_PATH.into();
    fs::create_dir_all(&path).unwrap();
}

async fn start_app() -> (GraphDatabaseService, Vec<u8>, Ed25519SigningKey) {
    let secret = random32();
    let path: PathBuf = DATA_PATH.into();
    let (app, verifying_key, _) = GraphDatabaseService::start(
        APP_KEY,
        DATA_MODEL,
        &secret,
        &random32(),
        path,
        &Configuration::default(),
        EventService::new(),
    )
    .await
    .unwrap();
    let signature_key = derive_key(&format!("{} SIGNING_KEY", APP_KEY), &secret);
    let signing_key = Ed25519SigningKey::create_from(&signature_key);
    assert_eq!(signing_key.export_verifying_key(), verifying_key);
    (app, verifying_key, signing_key)
}

async fn export(app: &GraphDatabaseService, room_id: Uid) -> RoomNode {
    let node = app.get_room_node(room_id).await.unwrap().unwrap();
    let ser = bincode::serialize(&node).unwrap();
    bincode::deserialize(&ser).unwrap()
}

async fn receive(app: &GraphDatabaseService, node: RoomNode) -> crate::database::Result<()> {
    let node = SignatureVerificationService::room_check(node)
        .expect("the forged definition only contains valid signatures");
    app.add_room_node(node).await
}

struct Setup {
    admin_app: GraphDatabaseService,
    member_app: GraphDatabaseService,
    member_key: Vec<u8>,
    member_signing: Ed25519SigningKey,
    other_app: GraphDatabaseService,
    room_id: Uid,
    new_auth_id: Uid,
}

///
/// Room R, admin A. group G0 (no right at all) with plain users M and C.
/// - `other_app` (C) holds R *before* the new group is created when `other_knows_room`, nothing otherwise
/// - then A creates the new group G1 (mutate_all on Person) with NO user and NO user admin
/// - member_app (M) gets the up to date legitimate definition
///
async fn setup(other_knows_room: bool) -> Setup {
    init_database_path();
    let (admin_app, admin_key, _) = start_app().await;
    let (member_app, member_key, member_signing) = start_app().await;
    let (other_app, other_key, _) = start_app().await;

    let mut param = Parameters::default();
    param.add("user_id", base64_encode(&admin_key)).unwrap();
    param.add("member", base64_encode(&member_key)).unwrap();
    param.add("other", base64_encode(&other_key)).unwrap();
    let room = admin_app
        .mutate_raw(
            r#"mutate mut {
                sys.Room{
                    admin: [{
                        verif_key:$user_id
                    }]
                    authorisations:[{
                        name:"G0"
                        users: [{verif_key:$member},{verif_key:$other}]
                    }]
                }
            }"#,
            Some(param),
        )
        .await
        .unwrap();
    let room_id = room.mutate_entities[0].node_to_mutate.id;

    if other_knows_room {
        let legit = export(&admin_app, room_id).await;
        receive(&other_app, legit).await.unwrap();
    }

    let mut param = Parameters::default();
    param.add("room_id", base64_encode(&room_id)).unwrap();
    let res = admin_app
        .mutate_raw(
            r#"mutate mut {
                sys.Room{
                    id:$room_id
                    authorisations:[{
                        name:"G1"
                        rights:[{
                            entity:"Person"
                            mutate_self:true
                            mutate_all:true
                        }]
                    }]
                }
            }"#,
            Some(param),
        )
        .await
        .unwrap();
    let new_auth_id = res.mutate_entities[0]
        .sub_nodes
        .get(ROOM_AUTHORISATION_FIELD)
        .unwrap()[0]
        .node_to_mutate
        .id;

    let legit = export(&admin_app, room_id).await;
    receive(&member_app, legit).await.unwrap();

    Setup {
        admin_app,
        member_app,
        member_key,
        member_signing,
        other_app,
        room_id,
        new_auth_id,
    }
}

/// a sys.UserAuth row for `template`'s key, with a new id and date, signed by `signing_key`
fn self_signed_entry(template: &UserNode, date: i64, signing_key: &Ed25519SigningKey) -> UserNode {
    let mut node: Node = template.node.clone();
    node.id = new_uid();
    node.cdate = date;
    node.mdate = date;
    node._local_id = None;
    node.sign(signing_key).unwrap();
    UserNode { node }
}

fn forged_edge(
    src: Uid,
    src_entity: &str,
    label: &str,
    dest: Uid,
    cdate: i64,
    signing_key: &Ed25519SigningKey,
) -> Edge {
    let mut edge = Edge {
        src,
        src_entity: src_entity.to_string(),
        label: label.to_string(),
        dest,
        cdate,
        ..Default::default()
    };
    edge.sign(signing_key).unwrap();
    edge
}

/// legit definition + in G1: a user_admin entry for M signed by M (+ edge signed by M)
/// and optionaly a user entry for M signed by M
fn forge(s: &Setup, legit: &RoomNode, with_user: bool) -> RoomNode {
    //M's legitimate user entry in G0, used as a template for the json content ({verif_key: M})
    let my_entry = legit
        .auth_nodes
        .iter()
        .flat_map(|a| a.user_nodes.iter())
        .find(|u| {
            let user = crate::database::room::user_from_json(
                u.node._json.as_ref().unwrap(),
                u.node.mdate,
            )
            .unwrap();
            user.verifying_key.eq(&s.member_key)
        })
        .unwrap()
        .clone();

    let mut forged = legit.clone();
    let g1 = forged
        .auth_nodes
        .iter_mut()
        .find(|a| a.node.id.eq(&s.new_auth_id))
        .unwrap();
    assert!(g1.user_admin_nodes.is_empty());
    assert!(g1.user_nodes.is_empty());
    let src_entity = g1.node._entity.clone();

    let date = now();
    let user_admin = self_signed_entry(&my_entry, date, &s.member_signing);
    assert_eq!(user_admin.node.verifying_key, s.member_key);
    g1.user_admin_edges.push(forged_edge(
        g1.node.id,
        &src_entity,
        AUTH_USER_ADMIN_FIELD_SHORT,
        user_admin.node.id,
        date,
        &s.member_signing,
    ));
    g1.user_admin_nodes.push(user_admin);

    if with_user {
        let user = self_signed_entry(&my_entry, date + 1, &s.member_signing);
        g1.user_edges.push(forged_edge(
            g1.node.id,
            &src_entity,
            AUTH_USER_FIELD_SHORT,
            user.node.id,
            date + 1,
            &s.member_signing,
        ));
        g1.user_nodes.push(user);
    }
    forged.check_consistency().unwrap();
    forged
}

///
/// F18: existing room, new group, self-signed user admin
///
#[tokio::test(flavor = "multi_thread")]
async fn f18_self_signed_user_admin_in_new_group_of_existing_room() {
    let s = setup(true).await;
    let legit = export(&s.member_app, s.room_id).await;
    let forged = forge(&s, &legit, false);

    // the receiver holds R but has not yet seen G1
    let before = export(&s.other_app, s.room_id).await;
    assert!(before
        .auth_nodes
        .iter()
        .all(|a| !a.node.id.eq(&s.new_auth_id)));

    let result = receive(&s.other_app, forged).await;

    let stored = export(&s.other_app, s.room_id).await.parse().unwrap();
    let can_admin_users = match stored.authorisations.get(&s.new_auth_id) {
        Some(auth) => auth.can_admin_users(&s.member_key, now()),
        None => false,
    };
    assert!(
        result.is_err() || !can_admin_users,
        "F18 REAL: new group with a user_admin entry signed by the plain member itself was accepted (result: {:?}); member can_admin_users of the new group on the receiving peer: {}",
        result,
        can_admin_users
    );
}

///
/// F18: same, the member also gives itself a user entry in the same definition and so
/// obtains the rights of the new group
///
#[tokio::test(flavor = "multi_thread")]
async fn f18_self_signed_user_admin_then_user_gets_group_rights() {
    let s = setup(true).await;
    let legit = export(&s.member_app, s.room_id).await;
    assert!(!legit.parse().unwrap().can(
        &s.member_key,
        "Person",
        now(),
        &RightType::MutateSelf
    ));
    let forged = forge(&s, &legit, true);

    let result = receive(&s.other_app, forged).await;

    let date = now() + 10;
    let stored = export(&s.other_app, s.room_id).await.parse().unwrap();
    let can_all = stored.can(&s.member_key, "Person", date, &RightType::MutateAll);
    assert!(
        result.is_err() || !can_all,
        "F18 REAL: self-signed user_admin + self-signed user entries in a new group were accepted (result: {:?}); member has MutateAll on Person on the receiving peer: {}",
        result,
        can_all
    );
}

///
/// control: when the receiver already knows the group (prepare_auth_with_history) the same
/// self-signed user admin entry is refused
///
#[tokio::test(flavor = "multi_thread")]
async fn f18_control_known_group_refuses_self_signed_user_admin() {
    let s = setup(true).await;
    let legit = export(&s.member_app, s.room_id).await;
    let forged = forge(&s, &legit, false);

    //admin_app already holds G1
    let result = receive(&s.admin_app, forged).await;
    let stored = export(&s.admin_app, s.room_id).await.parse().unwrap();
    let can_admin_users = stored
        .authorisations
        .get(&s.new_auth_id)
        .unwrap()
        .can_admin_users(&s.member_key, now());
    assert!(
        result.is_err() && !can_admin_users,
        "unexpected: known group accepted the self signed user admin (result: {:?}, can_admin_users: {})",
        result,
        can_admin_users
    );
    println!("control known group: {:?}", result);
}

///
/// variant: the whole room is new to the receiver (prepare_new_room)
///
#[tokio::test(flavor = "multi_thread")]
async fn f18_variant_new_room_self_signed_user_admin() {
    let s = setup(false).await;
    let legit = export(&s.member_app, s.room_id).await;
    let forged = forge(&s, &legit, false);

    assert!(s.other_app.get_room_node(s.room_id).await.unwrap().is_none());
    let result = receive(&s.other_app, forged).await;
    println!("variant new room: {:?}", result);

    let can_admin_users = match s.other_app.get_room_node(s.room_id).await.unwrap() {
        Some(stored) => match stored.parse().unwrap().authorisations.get(&s.new_auth_id) {
            Some(auth) => auth.can_admin_users(&s.member_key, now()),
            None => false,
        },
        None => false,
    };
    assert!(
        result.is_err() || !can_admin_users,
        "F18 variant REAL: new room with a group whose user_admin entry is signed by the plain member itself was accepted (result: {:?}); member can_admin_users: {}",
        result,
        can_admin_users
    );
}

///
/// F18 combined with F10 (edge authors are never examined): the member does not have to wait for
/// the admin to create a group. It grafts into R a group row that the same admin signed for
/// ANOTHER room R' (with its admin-signed right rows), attached to R by an edge signed by the
/// member, plus a self-signed user_admin entry and a self-signed user entry.
/// The group is "new" for every peer holding R, including the admin's own peer.
///
#[tokio::test(flavor = "multi_thread")]
async fn f18_f10_foreign_group_grafted_with_self_signed_user_admin() {
    let s = setup(true).await;

    // the admin of R also administrates another room R' where M is a legitimate user
    let admin_key = export(&s.admin_app, s.room_id).await.admin_nodes[0]
        .node
        .verifying_key
        .clone();
    let mut param = Parameters::default();
    param.add("user_id", base64_encode(&admin_key)).unwrap();
    param.add("member", base64_encode(&s.member_key)).unwrap();
    let res = s
        .admin_app
        .mutate_raw(
            r#"mutate mut {
                sys.Room{
                    admin: [{ verif_key:$user_id }]
                    authorisations:[{
                        name:"GX of other room"
                        rights:[{
                            entity:"Person"
                            mutate_self:true
                            mutate_all:true
                        }]
                        users: [{ verif_key:$member }]
                    }]
                }
            }"#,
            Some(param),
        )
        .await
        .unwrap();
    let other_room_id = res.mutate_entities[0].node_to_mutate.id;
    let other_room = export(&s.admin_app, other_room_id).await;
    receive(&s.member_app, other_room.clone()).await.unwrap();

    let legit = export(&s.member_app, s.room_id).await;
    assert!(!legit.parse().unwrap().can(
        &s.member_key,
        "Person",
        now(),
        &RightType::MutateSelf
    ));

    // graft
    let mut gx = other_room.auth_nodes[0].clone();
    assert_eq!(gx.node.verifying_key, admin_key);
    let my_entry = gx.user_nodes[0].clone();
    gx.user_nodes.clear();
    gx.user_edges.clear();
    let gx_id = gx.node.id;
    let auth_entity = gx.node._entity.clone();
    let date = now();
    let user_admin = self_signed_entry(&my_entry, date, &s.member_signing);
    gx.user_admin_edges.push(forged_edge(
        gx_id,
        &auth_entity,
        AUTH_USER_ADMIN_FIELD_SHORT,
        user_admin.node.id,
        date,
        &s.member_signing,
    ));
    gx.user_admin_nodes.push(user_admin);
    let user = self_signed_entry(&my_entry, date + 1, &s.member_signing);
    gx.user_edges.push(forged_edge(
        gx_id,
        &auth_entity,
        AUTH_USER_FIELD_SHORT,
        user.node.id,
        date + 1,
        &s.member_signing,
    ));
    gx.user_nodes.push(user);

    let mut forged = legit.clone();
    let template = legit.auth_edges[0].clone();
    forged.auth_edges.push(forged_edge(
        s.room_id,
        &template.src_entity,
        &template.label,
        gx_id,
        date,
        &s.member_signing,
    ));
    forged.auth_nodes.push(gx);
    forged.check_consistency().unwrap();

    // sent to the admin's own peer, which is fully up to date
    let result = receive(&s.admin_app, forged).await;

    let check_date = now() + 10;
    let stored = export(&s.admin_app, s.room_id).await.parse().unwrap();
    let grafted = stored.authorisations.contains_key(&gx_id);
    let can_all = stored.can(&s.member_key, "Person", check_date, &RightType::MutateAll);
    assert!(
        result.is_err() || !can_all,
        "F18+F10 REAL: group row signed by the admin for another room, grafted in R by a member-signed edge with self-signed user_admin and user entries, was accepted by the admin's own up to date peer (result: {:?}); group is now part of R: {}; member has MutateAll on Person in R: {}",
        result,
        grafted,
        can_all
    );
}
