// Witness for finding F11 (property C08): LocalPeerService::process_local_event re-authorises a room for the connection
// when `room.has_user(key)` holds.  has_user is "ever listed", not membership: a key that has been DISABLED in the room
// still satisfies it, so a former member is (re-)granted read access to the room on every change of its definition.
// This test shows the two predicates disagree on the real Room type for a disabled user.
use crate::database::room::{Authorisation, EntityRight, Room, User};
use crate::security::{new_uid, random32};

#[test]
fn witness_f11_former_member_is_still_has_user() {
    let key = random32().to_vec();
    let mut room = Room { id: new_uid(), ..Default::default() };
    let mut auth = Authorisation { id: new_uid(), ..Default::default() };
    auth.add_right(EntityRight::new(0, "Person".to_string(), true, false)).unwrap();
    auth.add_user(User { verifying_key: key.clone(), date: 1000, enabled: true }).unwrap();
    auth.add_user(User { verifying_key: key.clone(), date: 2000, enabled: false }).unwrap();
    room.add_auth(auth).unwrap();

    // member between 1000 and 1999, not a member from 2000 on
    assert!(room.is_user_valid_at(&key, 1500));
    assert!(!room.is_user_valid_at(&key, 2000));
    assert!(!room.is_user_valid_at(&key, i64::MAX));
    // the guard used by process_local_event still lets the former member in:
    // (the specification of C08 demands membership at the current date)
    assert!(
        !room.has_user(&key),
        "F11: has_user() is true for a key disabled since date 2000: process_local_event would add the room to the rooms this former member may read"
    );
}
