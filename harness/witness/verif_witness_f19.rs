//! Witness for finding F19 (property C19, "an invitation can be consumed once").
//!
//! PeerManager::invite_accepted admits the peer that used an own invitation (AllowedPeer::add + token table entry) and only
//! afterwards, behind several fallible steps (deletion of the sys.OwnedInvite row, the default-room grant), removes the
//! invitation from the token table get_token_type answers from.  When one of those steps fails - here the default room of the
//! invitation cannot be granted - the error is only logged by the caller, the first peer stays admitted, and the invitation is
//! still answered: a second, different peer can consume the same invitation.
//!
//! Place as src/network/verif_witness_f19.rs and add `#[cfg(test)] mod verif_witness_f19;` to src/network/mod.rs.
use std::{fs, path::PathBuf};

use tokio::sync::mpsc;

use crate::{
    configuration::Configuration,
    database::{
        graph_database::GraphDatabaseService,
        node::Node,
        system_entities::{Invite, Peer},
    },
    discret::{DiscretParams, DiscretServices},
    event_service::EventService,
    network::{
        endpoint::{DiscretEndpoint, EndpointMessage},
        peer_manager::{PeerManager, TokenType},
    },
    security::{
        base64_encode, derive_key, new_uid, random32, uid_encode, Ed25519SigningKey,
        HardwareFingerprint, MeetingSecret, MeetingToken, SigningKey,
    },
    signature_verification_service::SignatureVerificationService,
    DefaultRoom,
};

const DATA_PATH: &str = "test_data/network/verif_witness_f19/";

struct RemotePeer {
    node: Node,
    verifying_key: Vec<u8>,
}
impl RemotePeer {
    fn new() -> Self {
        let signing_key = Ed25519SigningKey::new();
        let meeting_secret = MeetingSecret::new(random32());
        let mut node = Peer::create(
            new_uid(),
            base64_encode(meeting_secret.public_key().as_bytes()),
        );
        node.sign(&signing_key).unwrap();
        Peer::validate(&node).unwrap();
        Self {
            node,
            verifying_key: signing_key.export_verifying_key(),
        }
    }
}

fn is_owned_invite(t: &Result<TokenType, crate::Error>) -> bool {
    matches!(t, Ok(TokenType::OwnedInvite(_)))
}

#[tokio::test(flavor = "multi_thread")]
async fn invitation_whose_room_grant_fails_can_be_consumed_twice() {
    let path: PathBuf = DATA_PATH.into();
    fs::create_dir_all(&path).unwrap();

    let app_key = "verif witness f19";
    let key_material = random32();
    let meeting_key = derive_key(&format!("{}{}", "MEETING_SECRET", app_key), &key_material);
    let public_key = MeetingSecret::new(meeting_key).public_key();

    let configuration = Configuration::default();
    let events = EventService::new();
    let (database, verifying_key, private_room_id) = GraphDatabaseService::start(
        app_key,
        "{Person{ name:String }}",
        &key_material,
        public_key.as_bytes(),
        path,
        &configuration,
        events.clone(),
    )
    .await
    .unwrap();

    let params = DiscretParams {
        app_key: app_key.to_string(),
        verifying_key,
        private_room_id,
        hardware_fingerprint: HardwareFingerprint {
            id: new_uid(),
            name: "witness".to_string(),
        },
        configuration,
    };
    let services = DiscretServices {
        events,
        database,
        signature_verification: SignatureVerificationService::start(1),
    };

    //no network: the endpoint is only a handle
    let (sender, _receiver) = mpsc::channel::<EndpointMessage>(20);
    let endpoint = DiscretEndpoint {
        id: new_uid(),
        sender,
        ipv4_port: 0,
        ipv4_cert_hash: [0; 32],
    };
    let mut manager = PeerManager::new(
        &params,
        &services,
        endpoint,
        None,
        MeetingSecret::new(meeting_key),
    )
    .await
    .unwrap();

    // an invitation that carries a default room the inviter cannot grant (here: a room that does not exist;
    // a room in which the inviter has lost its admin right behaves alike)
    let invite_bytes = manager
        .create_invite(Some(DefaultRoom {
            room: uid_encode(&new_uid()),
            authorisation: uid_encode(&new_uid()),
        }))
        .await
        .unwrap();
    let invite: Invite = bincode::deserialize(&invite_bytes).unwrap();
    let token: MeetingToken = MeetingSecret::derive_token("P", &invite.invite_id);

    let bob = RemotePeer::new();
    let carol = RemotePeer::new();

    // bob's connection passed the identity challenge: initialise_connection reports the invitation as accepted
    let token_type = manager.get_token_type(&token, &bob.verifying_key).unwrap();
    assert!(is_owned_invite(&Ok(token_type.clone())));
    let first = manager.invite_accepted(token_type, bob.node.clone()).await;
    // the caller (peer_connection_service) only logs this error
    assert!(first.is_err(), "the default room cannot be granted");

    // bob has nevertheless been admitted as an allowed peer
    let bob_public = bincode::deserialize(&Peer::pub_key(&bob.node).unwrap()).unwrap();
    let bob_token = MeetingSecret::new(meeting_key).token(&bob_public);
    assert!(
        matches!(
            manager.get_token_type(&bob_token, &bob.verifying_key),
            Ok(TokenType::AllowedPeer(_))
        ),
        "bob is an allowed peer"
    );

    // the same invitation is presented by somebody else
    let second = manager.get_token_type(&token, &carol.verifying_key);
    assert!(
        !is_owned_invite(&second),
        "C19 violated: the invitation that admitted a first peer is still answered for a second peer"
    );
}
