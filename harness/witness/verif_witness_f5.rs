//! Witness for F5: `NodeToInsert::update_daily_logs` (synchronised row insertion) marks the daily log bucket
//! (room, entity, day) of the REPLACED version only when the row changed room. When the row stays in the same room
//! and its modification date moves to another day, the old day keeps a daily hash that still counts the old version.
//!
//! Specification: every (room, entity, day) bucket whose content changes is marked `need_recompute`
//! (this is what the local mutation path does: `InsertEntity::update_daily_logs` marks the old node's bucket unconditionally).

use rusqlite::Connection;

use crate::{
    database::{
        daily_log::DailyMutations,
        node::{Node, NodeToInsert},
        sqlite_database::prepare_connection,
    },
    date_utils::date,
    security::{new_uid, Uid},
};

const MS_PER_DAY: i64 = 24 * 60 * 60 * 1000;

fn marked_buckets(daily: &DailyMutations) -> Vec<(Uid, String, i64)> {
    let conn = Connection::open_in_memory().unwrap();
    prepare_connection(&conn).unwrap();
    daily.write(&conn).unwrap();
    let mut stmt = conn
        .prepare("SELECT room_id, entity, date FROM _daily_log WHERE need_recompute = 1 ORDER BY date")
        .unwrap();
    let rows = stmt
        .query_map([], |row| Ok((row.get(0)?, row.get(1)?, row.get(2)?)))
        .unwrap();
    rows.map(|r| r.unwrap()).collect()
}

#[test]
fn f5_old_day_is_marked_when_the_row_moves_to_another_day_in_the_same_room() {
    let room = new_uid();
    let entity = "1.0".to_string();
    let old_day: i64 = 19000 * MS_PER_DAY;
    let new_day: i64 = 19003 * MS_PER_DAY;
    let old_mdate = old_day + 1000;
    let new_mdate = new_day + 2000;
    assert_eq!(old_day, date(old_mdate));
    assert_eq!(new_day, date(new_mdate));

    let node = Node {
        room_id: Some(room),
        _entity: entity.clone(),
        cdate: old_mdate,
        mdate: new_mdate,
        ..Default::default()
    };

    //control: the row changes room, both buckets are marked
    let other_room = new_uid();
    let moved = NodeToInsert {
        id: node.id,
        node: Some(node.clone()),
        entity_name: Some("ns.Entity".to_string()),
        old_room_id: Some(other_room),
        old_mdate,
        ..Default::default()
    };
    let mut daily = DailyMutations::new();
    moved.update_daily_logs(&mut daily);
    let marked = marked_buckets(&daily);
    assert!(marked.contains(&(other_room, entity.clone(), old_day)));
    assert!(marked.contains(&(room, entity.clone(), new_day)));

    //witness: same room, other day
    let updated = NodeToInsert {
        id: node.id,
        node: Some(node.clone()),
        entity_name: Some("ns.Entity".to_string()),
        old_room_id: Some(room),
        old_mdate,
        ..Default::default()
    };
    let mut daily = DailyMutations::new();
    updated.update_daily_logs(&mut daily);
    let marked = marked_buckets(&daily);

    assert!(
        marked.contains(&(room, entity.clone(), new_day)),
        "the bucket of the new version is marked"
    );
    assert!(
        marked.contains(&(room, entity.clone(), old_day)),
        "F5: the bucket (room, entity, day of the replaced version) is not marked for recompute; marked days: {:?}",
        marked.iter().map(|m| m.2).collect::<Vec<i64>>()
    );
}
