//! Witness for F37 (properties C03 / C11), version for the UNMODIFIED code:
//! the identifiers announced by a peer are filtered with `filter_existing_node`.
//!
//! C03: a row stored in room R on one member is eventually stored on every member of R.
//! C11: only a valid deletion OF THAT ROW (a deletion record of room R by a key entitled in R)
//!      may keep a peer from fetching it.
//!
//! Suspicion: `Node::filter_existing` looks `_node_deletion_log` up by row id only, so a deletion
//! record accepted for ANOTHER room (where its author holds the own-rows right) keeps the victim
//! from ever requesting a row of room R.
use std::{collections::HashSet, fs, path::PathBuf};

use crate::{
    configuration::Configuration,
    database::{
        graph_database::GraphDatabaseService,
        node::{Node, NodeDeletionEntry, NodeIdentifier, NodeToInsert},
        query_language::parameter::{Parameters, ParametersAdd},
        room_node::RoomNode,
    },
    date_utils::now,
    event_service::EventService,
    security::{base64_encode, random32, Ed25519SigningKey, SigningKey, Uid},
};

const DATA_PATH: &str = "test_data/database/verif_witness_f37/";

const DATA_MODEL: &str = "{
    Person{
        name:String
    }
}";

async fn start_instance() -> (GraphDatabaseService, Vec<u8>) {
    let path: PathBuf = DATA_PATH.into();
    fs::create_dir_all(&path).unwrap();
    let (app, verifying_key, _) = GraphDatabaseService::start(
        "f37 app",
        DATA_MODEL,
        &random32(),
        &random32(),
        path,
        &Configuration::default(),
        EventService::new(),
    )
    .await
    .unwrap();
    (app, verifying_key)
}

///
/// the identifiers of the announced rows that `synchronise_day` would request for room `_room_id`
///
async fn requested(
    db: &GraphDatabaseService,
    _room_id: Uid,
    announced: HashSet<NodeIdentifier>,
) -> Vec<NodeToInsert> {
    db.filter_existing_node(announced).await.unwrap()
}

fn identifier(node: &Node) -> NodeIdentifier {
    NodeIdentifier {
        id: node.id,
        mdate: node.mdate,
        signature: node._signature.clone(),
    }
}

fn announce(node: &Node) -> HashSet<NodeIdentifier> {
    let mut set = HashSet::new();
    set.insert(identifier(node));
    set
}

///
/// what synchronise_day does with the rows received for the requested identifiers
///
async fn push_row(
    db: &GraphDatabaseService,
    room_id: Uid,
    mut filtered: Vec<NodeToInsert>,
    node: &Node,
) -> Vec<Uid> {
    let mut nti = filtered.pop().unwrap();
    assert_eq!(nti.id, node.id);
    let mut node = node.clone();
    node._local_id = nti.old_local_id;
    nti.node = Some(node);
    db.add_nodes(room_id, vec![nti]).await.unwrap()
}

async fn persons(db: &GraphDatabaseService) -> String {
    db.query(
        "query q {
            Person(order_by(name asc)){
                name
            }
        }",
        None,
    )
    .await
    .unwrap()
}

///
/// a deletion record signed by `key`, for the row `id` last modified at `mdate`
///
fn deletion_record(
    room_id: Uid,
    id: Uid,
    entity: &str,
    mdate: i64,
    deletion_date: i64,
    key: &Ed25519SigningKey,
) -> NodeDeletionEntry {
    let dummy = Node {
        id,
        mdate,
        _entity: entity.to_string(),
        ..Default::default()
    };
    let entry = NodeDeletionEntry::build(room_id, &dummy, deletion_date, key);
    entry.verify().unwrap();
    entry
}

async fn room_deletion_log(
    db: &GraphDatabaseService,
    room_id: Uid,
    entity: &str,
    date: i64,
) -> Vec<NodeDeletionEntry> {
    let mut recv = db
        .get_room_node_deletion_log(room_id, entity.to_string(), date)
        .await;
    let mut res = Vec::new();
    while let Some(entries) = recv.recv().await {
        res.append(&mut entries.unwrap());
    }
    res
}

#[tokio::test(flavor = "multi_thread")]
async fn f37_deletion_record_of_another_room_suppresses_the_fetch_of_a_row() {
    // A: honest author, admin of room R
    // va, vb: victims used for the controls, v: victim of the attack. All are users of R
    // M: a key that is NOT a member of R
    let (a, a_key) = start_instance().await;
    let (va, va_key) = start_instance().await;
    let (vb, vb_key) = start_instance().await;
    let (v, v_key) = start_instance().await;
    let m = Ed25519SigningKey::create_from(&[37; 32]);
    let m_key = m.export_verifying_key();

    //
    // room R on A
    //
    let mut param = Parameters::default();
    param.add("a", base64_encode(&a_key)).unwrap();
    param.add("va", base64_encode(&va_key)).unwrap();
    param.add("vb", base64_encode(&vb_key)).unwrap();
    param.add("v", base64_encode(&v_key)).unwrap();
    let room = a
        .mutate_raw(
            r#"mutate mut {
                sys.Room{
                    admin: [{
                        verif_key:$a
                    }]
                    authorisations:[{
                        name:"members"
                        rights:[{
                            entity:"Person"
                            mutate_self:true
                            mutate_all:true
                        }]
                        users: [{verif_key:$a},{verif_key:$va},{verif_key:$vb},{verif_key:$v}]
                    }]
                }
            }"#,
            Some(param),
        )
        .await
        .unwrap();
    let r: Uid = room.mutate_entities[0].node_to_mutate.id;

    let room_node = a.get_room_node(r).await.unwrap().unwrap();
    let ser = bincode::serialize(&room_node).unwrap();
    for victim in [&va, &vb, &v] {
        let room_node: RoomNode = bincode::deserialize(&ser).unwrap();
        victim.add_room_node(room_node).await.unwrap();
    }

    //
    // A stores two rows in R: X (controls (a) and the attack) and XB (control (b))
    //
    let mut param = Parameters::default();
    param.add("room_id", base64_encode(&r)).unwrap();
    let rows = a
        .mutate_raw(
            r#"mutate mut {
                x: Person{
                    room_id: $room_id
                    name:"X"
                }
                xb: Person{
                    room_id: $room_id
                    name:"XB"
                }
            }"#,
            Some(param),
        )
        .await
        .unwrap();
    let x_id = rows.mutate_entities[0].node_to_mutate.id;
    let xb_id = rows.mutate_entities[1].node_to_mutate.id;
    assert_eq!("Person", rows.mutate_entities[0].node_to_mutate.entity);
    // short id of the entity Person, as stored in the rows and in the deletion records
    let person: String = rows.mutate_entities[0]
        .node_to_mutate
        .node
        .as_ref()
        .unwrap()
        ._entity
        .clone();

    // what A announces and sends during the synchronisation of R
    let mut announced = HashSet::new();
    let mut recv = a.get_room_daily_nodes(r, person.clone(), now()).await;
    while let Some(ids) = recv.recv().await {
        for id in ids.unwrap() {
            announced.insert(id);
        }
    }
    assert_eq!(2, announced.len(), "control: A announces X and XB for R");
    let mut full_rows = Vec::new();
    let mut recv = a.get_nodes(r, vec![x_id, xb_id]).await;
    while let Some(nodes) = recv.recv().await {
        full_rows.append(&mut nodes.unwrap());
    }
    assert_eq!(2, full_rows.len(), "control: A sends X and XB for R");
    let x = full_rows.iter().find(|n| n.id == x_id).unwrap().clone();
    let xb = full_rows.iter().find(|n| n.id == xb_id).unwrap().clone();
    x.verify().unwrap();
    xb.verify().unwrap();
    assert_eq!(person, x._entity);
    for node in [&x, &xb] {
        let ann = announced.get(&identifier(node)).unwrap();
        assert_eq!(ann.mdate, node.mdate);
        assert_eq!(ann.signature, node._signature);
    }

    //
    // control (a): without any deletion record X is requested, and is stored once received
    //
    let filtered = requested(&va, r, announce(&x)).await;
    assert_eq!(
        1,
        filtered.len(),
        "control (a): without deletion record the row X is requested"
    );
    let rejected = push_row(&va, r, filtered, &x).await;
    assert!(rejected.is_empty(), "control (a): X is accepted in R");
    assert_eq!(
        "{\n\"Person\":[{\"name\":\"X\"}]\n}",
        persons(&va).await,
        "control (a): X is stored on the peer"
    );
    assert_eq!(
        0,
        requested(&va, r, announce(&x)).await.len(),
        "control (a): a stored version is not requested again"
    );

    //
    // control (b), the intended C11 behaviour: the deletion of XB by A, in room R, suppresses the fetch of XB (and only XB)
    //
    let mut param = Parameters::default();
    param.add("id", base64_encode(&xb_id)).unwrap();
    a.delete("delete del { Person { $id } }", Some(param))
        .await
        .unwrap();
    let mut honest = room_deletion_log(&a, r, &person, now()).await;
    assert_eq!(1, honest.len(), "control (b): A logs the deletion of XB");
    assert_eq!(xb_id, honest[0].id);
    assert_eq!(r, honest[0].room_id);
    honest[0].verify().unwrap();
    assert_eq!(1, requested(&vb, r, announce(&xb)).await.len());
    vb.delete_nodes(vec![honest.pop().unwrap()]).await.unwrap();
    assert_eq!(
        0,
        requested(&vb, r, announce(&xb)).await.len(),
        "control (b): a valid deletion of the row in its room suppresses the fetch"
    );
    assert_eq!(
        1,
        requested(&vb, r, announce(&x)).await.len(),
        "control (b): the other row of the room is still requested"
    );

    //
    // the attack. V holds a second room R2 where M has the own-rows right on Person. M is not a member of R
    //
    let mut param = Parameters::default();
    param.add("v", base64_encode(&v_key)).unwrap();
    param.add("m", base64_encode(&m_key)).unwrap();
    let room2 = v
        .mutate_raw(
            r#"mutate mut {
                sys.Room{
                    admin: [{
                        verif_key:$v
                    }]
                    authorisations:[{
                        name:"members"
                        rights:[{
                            entity:"Person"
                            mutate_self:true
                            mutate_all:false
                        }]
                        users: [{verif_key:$v},{verif_key:$m}]
                    }]
                }
            }"#,
            Some(param),
        )
        .await
        .unwrap();
    let r2: Uid = room2.mutate_entities[0].node_to_mutate.id;
    assert_ne!(r, r2);

    assert_eq!(
        1,
        requested(&v, r, announce(&x)).await.len(),
        "control: before the attack X is requested by V"
    );

    // control: M has no right in R, its deletion record for room R is refused and changes nothing
    let date = now();
    let in_r = deletion_record(r, x.id, &person, x.mdate + 1_000_000, date, &m);
    v.delete_nodes(vec![in_r]).await.unwrap();
    assert_eq!(
        0,
        room_deletion_log(&v, r, &person, date).await.len(),
        "control: a deletion record of R by a key without right in R is not logged"
    );
    assert_eq!(
        1,
        requested(&v, r, announce(&x)).await.len(),
        "control: a deletion record of R by a key without right in R does not suppress the fetch"
    );

    // the forged record: room R2, id of X
    let forged = deletion_record(r2, x.id, &person, x.mdate + 1_000_000, date, &m);
    assert_eq!(m_key, forged.verifying_key);
    forged.verify().unwrap();
    v.delete_nodes(vec![forged]).await.unwrap();
    let logged = room_deletion_log(&v, r2, &person, date).await;
    assert_eq!(
        1,
        logged.len(),
        "control: the record is a valid deletion record of R2 for V (M holds the own-rows right there)"
    );
    assert_eq!(x.id, logged[0].id);
    assert_eq!(
        0,
        room_deletion_log(&v, r, &person, date).await.len(),
        "control: no deletion record of R exists on V"
    );

    let filtered = requested(&v, r, announce(&x)).await;
    assert_eq!(
        1,
        filtered.len(),
        "C03 violated: a deletion record accepted for another room keeps the peer from ever fetching a row of this room"
    );

    // V converges with A
    let rejected = push_row(&v, r, filtered, &x).await;
    assert!(rejected.is_empty());
    assert_eq!("{\n\"Person\":[{\"name\":\"X\"}]\n}", persons(&v).await);
}
