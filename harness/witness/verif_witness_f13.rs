//! Witness for F13: RoomAuthorisations::validate_deletion checks the "own rows" right at the date the
//! DeletionQuery was built (NodeDelete::date / EdgeDelete::date) but signs the deletion entry with
//! `now` taken later, which is the date peers use to check the right (validate_node_deletions /
//! validate_edge_deletions).
//!
//! Declared as a child of authorisation_service (validate_node_deletions is private):
//!   #[cfg(test)]
//!   #[path = "verif_witness_f13.rs"]
//!   mod verif_witness_f13;
//! at the end of src/database/authorisation_service.rs
//!
//! Specification: local acceptance and peer acceptance of a deletion agree.

use super::*;
use crate::{
    database::{
        deletion::{EdgeDelete, NodeDelete},
        node::Node,
        query_language::{
            data_model_parser::DataModel,
            deletion_parser::DeletionParser,
            parameter::{Parameters, ParametersAdd},
        },
        sqlite_database::prepare_connection,
    },
    security::new_uid,
};
use std::sync::Arc;

const ENTITY: &str = "Person";
const ENTITY_SHORT: &str = "0";

///
/// an empty DeletionQuery, obtained from DeletionQuery::build on an id that does not exist
/// (no struct literal: the witness does not depend on the exact list of fields of DeletionQuery)
///
fn empty_deletion_query() -> DeletionQuery {
    let mut data_model = DataModel::new();
    data_model
        .update("{ Person { name : String, parents : [Person] } }")
        .unwrap();
    let deletion = DeletionParser::parse("delete del { Person { $id } }", &data_model).unwrap();
    let conn = rusqlite::Connection::open_in_memory().unwrap();
    prepare_connection(&conn).unwrap();
    let mut param = Parameters::new();
    param.add("id", uid_encode(&new_uid())).unwrap();
    let query = DeletionQuery::build(&mut param, Arc::new(deletion), &conn).unwrap();
    assert!(query.nodes.is_empty());
    assert!(query.node_log.is_empty());
    assert!(query.updated_nodes.is_empty());
    assert!(query.edges.is_empty());
    assert!(query.edge_log.is_empty());
    query
}

struct Scenario {
    local: RoomAuthorisations,
    peer: RoomAuthorisations,
    room_id: Uid,
    key: Vec<u8>,
    build_date: i64,
    revocation_date: i64,
}

///
/// a room where `key` (the local user) is an enabled user since date 1000
/// with the own-rows right on ENTITY since date 1000,
/// and the right is removed (mutate_self:false) at `revocation_date`
///
/// build_date < revocation_date <= now
///
fn scenario() -> Scenario {
    let t = now();
    let build_date = t - 10_000;
    let revocation_date = t - 5_000;

    let signing_key = Ed25519SigningKey::new();
    let key = signing_key.export_verifying_key();

    let mut auth = Authorisation {
        id: new_uid(),
        mdate: 1000,
        ..Default::default()
    };
    auth.add_user(User {
        verifying_key: key.clone(),
        date: 1000,
        enabled: true,
    })
    .unwrap();
    auth.add_right(EntityRight::new(1000, ENTITY.to_string(), true, false))
        .unwrap();
    auth.add_right(EntityRight::new(
        revocation_date,
        ENTITY.to_string(),
        false,
        false,
    ))
    .unwrap();

    let room_id = new_uid();
    let mut room = Room {
        id: room_id,
        mdate: revocation_date,
        ..Default::default()
    };
    room.add_auth(auth).unwrap();

    //sanity of the scenario itself
    assert!(room.can(&key, ENTITY, build_date, &RightType::MutateSelf));
    assert!(!room.can(&key, ENTITY, revocation_date, &RightType::MutateSelf));
    assert!(!room.can(&key, ENTITY, t, &RightType::MutateSelf));

    let mut local = RoomAuthorisations {
        signing_key,
        rooms: HashMap::new(),
        max_node_size: 1024 * 1024,
    };
    local.add_room(room.clone());

    //the peer has the same room definition
    let mut peer = RoomAuthorisations {
        signing_key: Ed25519SigningKey::new(),
        rooms: HashMap::new(),
        max_node_size: 1024 * 1024,
    };
    peer.add_room(room);

    Scenario {
        local,
        peer,
        room_id,
        key,
        build_date,
        revocation_date,
    }
}

#[test]
fn f13_own_node_deletion_local_and_peer_agree() {
    let s = scenario();

    //a row authored by the local user in that room
    let mut node = Node {
        room_id: Some(s.room_id),
        cdate: 2000,
        mdate: 2000,
        _entity: ENTITY_SHORT.to_string(),
        ..Default::default()
    };
    node.sign(&s.local.signing_key).unwrap();
    assert_eq!(node.verifying_key, s.key);

    //as built by DeletionQuery::build on a reader thread, before the revocation
    let mut deletion_query = empty_deletion_query();
    deletion_query.nodes.push(NodeDelete {
        node: node.clone(),
        name: ENTITY.to_string(),
        date: s.build_date,
    });

    //validated later on the authorisation actor, after the revocation
    let local_result = s.local.validate_deletion(&mut deletion_query);
    let locally_accepted = local_result.is_ok();

    let peer_accepted = if locally_accepted {
        assert_eq!(1, deletion_query.node_log.len());
        let mut entry = deletion_query.node_log.pop().unwrap();
        entry.verify().unwrap();
        assert!(entry.deletion_date >= s.revocation_date);
        //what the peer does when it receives the deletion log
        entry.entity_name = Some(ENTITY.to_string());
        let mut received = HashMap::new();
        received.insert(entry.id, (entry, Some(node.verifying_key.clone())));
        let accepted = s.peer.validate_node_deletions(received);
        !accepted.is_empty()
    } else {
        //nothing is signed, nothing is sent: the peers keep the row, as the local instance does
        false
    };

    assert_eq!(
        locally_accepted, peer_accepted,
        "F13: node deletion locally accepted={} but accepted by peers={}",
        locally_accepted, peer_accepted
    );
}

#[test]
fn f13_own_edge_deletion_local_and_peer_agree() {
    let s = scenario();

    let mut edge = Edge {
        src: new_uid(),
        src_entity: ENTITY_SHORT.to_string(),
        label: "parents".to_string(),
        dest: new_uid(),
        cdate: 2000,
        ..Default::default()
    };
    edge.sign(&s.local.signing_key).unwrap();
    assert_eq!(edge.verifying_key, s.key);

    let mut deletion_query = empty_deletion_query();
    deletion_query.edges.push(EdgeDelete {
        edge: edge.clone(),
        src_name: ENTITY.to_string(),
        room_id: Some(s.room_id),
        date: s.build_date,
    });

    let local_result = s.local.validate_deletion(&mut deletion_query);
    let locally_accepted = local_result.is_ok();

    let peer_accepted = if locally_accepted {
        assert_eq!(1, deletion_query.edge_log.len());
        let mut entry = deletion_query.edge_log.pop().unwrap();
        entry.verify().unwrap();
        assert!(entry.deletion_date >= s.revocation_date);
        entry.entity_name = Some(ENTITY.to_string());
        let accepted = s
            .peer
            .validate_edge_deletions(vec![(entry, Some(edge.verifying_key.clone()))]);
        !accepted.is_empty()
    } else {
        false
    };

    assert_eq!(
        locally_accepted, peer_accepted,
        "F13: edge deletion locally accepted={} but accepted by peers={}",
        locally_accepted, peer_accepted
    );
}

/// sanity: without any revocation both sides accept (the witness above does not fail for an unrelated reason)
#[test]
fn f13_sanity_no_revocation_both_accept() {
    let t = now();
    let signing_key = Ed25519SigningKey::new();
    let key = signing_key.export_verifying_key();

    let mut auth = Authorisation {
        id: new_uid(),
        mdate: 1000,
        ..Default::default()
    };
    auth.add_user(User {
        verifying_key: key.clone(),
        date: 1000,
        enabled: true,
    })
    .unwrap();
    auth.add_right(EntityRight::new(1000, ENTITY.to_string(), true, false))
        .unwrap();
    let room_id = new_uid();
    let mut room = Room {
        id: room_id,
        mdate: 1000,
        ..Default::default()
    };
    room.add_auth(auth).unwrap();

    let mut local = RoomAuthorisations {
        signing_key,
        rooms: HashMap::new(),
        max_node_size: 1024 * 1024,
    };
    local.add_room(room);

    let mut node = Node {
        room_id: Some(room_id),
        cdate: 2000,
        mdate: 2000,
        _entity: ENTITY_SHORT.to_string(),
        ..Default::default()
    };
    node.sign(&local.signing_key).unwrap();

    let mut deletion_query = empty_deletion_query();
    deletion_query.nodes.push(NodeDelete {
        node: node.clone(),
        name: ENTITY.to_string(),
        date: t - 10_000,
    });
    local.validate_deletion(&mut deletion_query).unwrap();
    let mut entry = deletion_query.node_log.pop().unwrap();
    entry.entity_name = Some(ENTITY.to_string());
    let mut received = HashMap::new();
    received.insert(entry.id, (entry, Some(key)));
    assert_eq!(1, local.validate_node_deletions(received).len());
}
