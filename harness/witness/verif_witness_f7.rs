//! Witness for finding F7 (property C06, "a signature valid for one row is valid for no row that differs from it in any
//! field, nor for a row of another kind").
//!
//! The digest that is signed for a reference (Edge::hash) is the plain concatenation
//!   src ++ src_entity ++ label ++ dest ++ cdate ++ verifying_key
//! with no length prefix or separator between the two variable-length names.  Moving the boundary between `src_entity`
//! and `label` gives a different reference with the same digest: the author's signature is valid for both.
//! With the short identifiers the data model assigns (entities "1.1", "1.12", fields "3", "23") both references are
//! plausible rows.  The same holds for a reference deletion record (EdgeDeletionEntry) and, with the optional and
//! variable-length fields of a node, for nodes; a crafted node can also share its digest with a reference.
//!
//! Place as src/database/verif_witness_f7.rs and add `#[cfg(test)] mod verif_witness_f7;` to src/database/mod.rs.
use crate::{
    database::edge::Edge,
    security::{new_uid, Ed25519SigningKey, SigningKey},
};

#[test]
fn f7_one_signature_two_references() {
    let key = Ed25519SigningKey::new();
    let src = new_uid();
    let dest = new_uid();

    // the reference its author signed: entity 1.1, field 23
    let mut signed = Edge {
        src,
        src_entity: "1.1".to_string(),
        label: "23".to_string(),
        dest,
        cdate: 1_700_000_000_000,
        verifying_key: Vec::new(),
        signature: Vec::new(),
    };
    signed.sign(&key).unwrap();
    signed.verify().unwrap();

    // another reference: entity 1.12, field 3 - never signed by anybody
    let other = Edge {
        src,
        src_entity: "1.12".to_string(),
        label: "3".to_string(),
        dest,
        cdate: signed.cdate,
        verifying_key: signed.verifying_key.clone(),
        signature: signed.signature.clone(),
    };
    assert!(
        other.src_entity != signed.src_entity && other.label != signed.label,
        "control: the two references differ in two fields"
    );

    // control: a reference that differs in a fixed-length field is refused
    let mut control = Edge {
        src,
        src_entity: "1.1".to_string(),
        label: "23".to_string(),
        dest: new_uid(),
        cdate: signed.cdate,
        verifying_key: signed.verifying_key.clone(),
        signature: signed.signature.clone(),
    };
    assert!(control.verify().is_err(), "control: another destination is refused");
    control.dest = dest;
    control.verify().unwrap();

    assert!(
        other.verify().is_err(),
        "C06 violated: the signature of the reference (entity 1.1, field 23) also verifies for the reference (entity 1.12, field 3)"
    );
}
