//! Witness F32 (properties C07 / C10).
//!
//! A room definition written by the room admin must be accepted by a peer that holds an
//! earlier version of the same room, and must mean the same there as on a peer that
//! receives it for the first time.
//!
//! Scenario: admin A (instance P1) creates a room with one group G1. P2 imports it.
//! A then adds a second group G2 holding `users:[B]` and no `user_admin` list (accepted by
//! the live path on P1). P1 exports the room again: a fresh P3 accepts the definition,
//! P2 (which knows the room but not the group) goes through `prepare_new_auth`.
use std::{fs, path::PathBuf};

use crate::{
    configuration::Configuration,
    database::{
        graph_database::GraphDatabaseService,
        query_language::parameter::{Parameters, ParametersAdd},
        room_node::RoomNode,
        system_entities::ROOM_AUTHORISATION_FIELD,
    },
    date_utils::now,
    event_service::EventService,
    security::{base64_encode, random32, Uid},
};

const DATA_PATH: &str = "test_data/database/verif_witness_f32/";
const DATA_MODEL: &str = "{ Person{ name:String } }";

async fn start_instance() -> (GraphDatabaseService, Vec<u8>) {
    let path: PathBuf = DATA_PATH.into();
    fs::create_dir_all(&path).unwrap();
    let (app, verifying_key, _) = GraphDatabaseService::start(
        "verif witness f32",
        DATA_MODEL,
        &random32(),
        &random32(),
        path,
        &Configuration::default(),
        EventService::new(),
    )
    .await
    .unwrap();
    (app, verifying_key)
}

/// what a peer receives: the room definition without the sender's local ids
async fn export_room(app: &GraphDatabaseService, room_id: Uid) -> RoomNode {
    let node = app.get_room_node(room_id).await.unwrap().unwrap();
    let ser = bincode::serialize(&node).unwrap();
    bincode::deserialize(&ser).unwrap()
}

async fn insert_person(app: &GraphDatabaseService, room_id: &str) -> bool {
    let mut param = Parameters::default();
    param.add("room_id", room_id.to_string()).unwrap();
    app.mutate_raw(
        r#"mutate mut {
            Person{
                room_id: $room_id
                name:"someone"
            }
        }"#,
        Some(param),
    )
    .await
    .is_ok()
}

async fn rooms_of(app: &GraphDatabaseService, key: &[u8]) -> Vec<Uid> {
    let mut receiver = app.get_rooms_for_peer(key.to_vec()).await;
    let mut res = Vec::new();
    while let Some(batch) = receiver.recv().await {
        for id in batch.unwrap() {
            res.push(id);
        }
    }
    res
}

/// A creates the room with a single group G1 (A is user and user admin of G1)
async fn create_room(p1: &GraphDatabaseService, a_id: &str) -> (Uid, String) {
    let mut param = Parameters::default();
    param.add("user_id", a_id.to_string()).unwrap();
    let room = p1
        .mutate_raw(
            r#"mutate mut {
                sys.Room{
                    admin: [{
                        verif_key:$user_id
                    }]
                    authorisations:[{
                        name:"G1"
                        rights:[{
                            entity:"Person"
                            mutate_self:true
                            mutate_all:true
                        }]
                        users: [{
                            verif_key:$user_id
                        }]
                        user_admin: [{
                            verif_key:$user_id
                        }]
                    }]
                }
            }"#,
            Some(param),
        )
        .await
        .unwrap();
    let room_insert = &room.mutate_entities[0];
    let room_uid = room_insert.node_to_mutate.id;
    assert_eq!(
        1,
        room_insert
            .sub_nodes
            .get(ROOM_AUTHORISATION_FIELD)
            .unwrap()
            .len()
    );
    (room_uid, base64_encode(&room_uid))
}

#[tokio::test(flavor = "multi_thread")]
async fn f32_new_group_with_users_added_by_the_room_admin() {
    let (p1, a_key) = start_instance().await;
    let (p2, b_key) = start_instance().await;
    let (p3, _) = start_instance().await;
    let a_id = base64_encode(&a_key);
    let b_id = base64_encode(&b_key);

    let (room_uid, room_id) = create_room(&p1, &a_id).await;

    // version 1 of the room reaches P2
    let v1 = export_room(&p1, room_uid).await;
    assert_eq!(1, v1.auth_nodes.len(), "control: version 1 has one group");
    p2.add_room_node(v1.clone())
        .await
        .expect("control: P2 accepts the first version of the room");
    assert!(
        insert_person(&p1, &room_id).await,
        "control: A can write in its room"
    );
    assert!(
        !insert_person(&p2, &room_id).await,
        "control: B has no right in version 1 of the room"
    );
    assert!(
        !rooms_of(&p2, &b_key).await.contains(&room_uid),
        "control: on P2, B is not a member of version 1 of the room"
    );

    // the admin adds a second group G2 with user B, and no user admin list
    let mut param = Parameters::default();
    param.add("room_id", room_id.clone()).unwrap();
    param.add("user_id", b_id.clone()).unwrap();
    p1.mutate_raw(
        r#"mutate mut {
            sys.Room{
                id:$room_id
                authorisations:[{
                    name:"G2"
                    rights:[{
                        entity:"Person"
                        mutate_self:true
                        mutate_all:true
                    }]
                    users: [{
                        verif_key:$user_id
                    }]
                }]
            }
        }"#,
        Some(param),
    )
    .await
    .expect("control: the live path lets the room admin add a group with users and no user admin");

    let v2 = export_room(&p1, room_uid).await;
    assert_eq!(2, v2.auth_nodes.len(), "control: version 2 has two groups");
    let g2 = v2
        .auth_nodes
        .iter()
        .find(|auth| !v1.auth_nodes.iter().any(|old| old.node.id == auth.node.id))
        .expect("control: version 2 holds a group unknown to version 1");
    assert_eq!(1, g2.user_nodes.len(), "control: G2 has one user entry");
    assert_eq!(0, g2.user_admin_nodes.len(), "control: G2 has no user admin");
    assert_eq!(
        a_key, g2.user_nodes[0].node.verifying_key,
        "control: the user entry of G2 is authored by the room admin A"
    );
    let parsed = v2.parse().expect("control: version 2 parses");
    assert!(
        parsed.is_admin(&a_key, g2.user_nodes[0].node.mdate),
        "control: A is a room admin at the date of the user entry"
    );
    assert!(
        parsed.is_user_valid_at(&b_key, now()),
        "control: version 2 makes B a member of the room"
    );

    // control: a peer that never saw the room accepts version 2
    p3.add_room_node(v2.clone())
        .await
        .expect("control: a fresh peer P3 accepts version 2 of the room");
    assert!(
        rooms_of(&p3, &b_key).await.contains(&room_uid),
        "control: on P3, B is a member of the room"
    );

    // P2 holds version 1
    let res_v2 = p2.add_room_node(v2.clone()).await;

    // a later version: A gives itself a second user entry in G1 (group known by P2)
    let g1_id = base64_encode(&v1.auth_nodes[0].node.id);
    let other = base64_encode(&random32());
    let mut param = Parameters::default();
    param.add("room_id", room_id.clone()).unwrap();
    param.add("auth_id", g1_id).unwrap();
    param.add("user_id", other).unwrap();
    p1.mutate_raw(
        r#"mutate mut {
            sys.Room{
                id:$room_id
                authorisations:[{
                    id:$auth_id
                    users: [{
                        verif_key:$user_id
                    }]
                }]
            }
        }"#,
        Some(param),
    )
    .await
    .expect("control: A can add a user to G1");
    let v3 = export_room(&p1, room_uid).await;
    let res_v3 = p2.add_room_node(v3.clone()).await;
    let err_v3 = res_v3.as_ref().err().map(|e| e.to_string());

    assert!(
        res_v2.is_ok(),
        "C10 violated: a room definition written by its admin is refused by a peer that holds an earlier version: {:?}; the following version of the room: {:?}",
        res_v2.err().map(|e| e.to_string()),
        err_v3
    );
    assert!(
        res_v3.is_ok(),
        "C10 violated: every later version of the room is refused too: {:?}",
        res_v3.err().map(|e| e.to_string())
    );

    // the room means the same on P2 as on P1 / P3
    assert!(
        rooms_of(&p2, &b_key).await.contains(&room_uid),
        "C10 violated: on P2, B is not a member of the room after version 2"
    );
    assert!(
        insert_person(&p2, &room_id).await,
        "C10 violated: on P2, B does not have the right given by G2"
    );
    let stored = export_room(&p2, room_uid).await;
    assert_eq!(
        2,
        stored.auth_nodes.len(),
        "C10 violated: P2 does not store the two groups"
    );
    let stored_room = stored.parse().expect("P2 stores a room that parses");
    assert!(
        stored_room.is_user_valid_at(&b_key, now()),
        "C10 violated: the room stored by P2 does not make B a member"
    );
}

/// control: the same scenario with A listed as user admin of the new group is accepted by P2
/// (the user entry is then authored by a user admin of the group)
#[tokio::test(flavor = "multi_thread")]
async fn f32_control_new_group_whose_author_is_its_user_admin() {
    let (p1, a_key) = start_instance().await;
    let (p2, b_key) = start_instance().await;
    let a_id = base64_encode(&a_key);
    let b_id = base64_encode(&b_key);

    let (room_uid, room_id) = create_room(&p1, &a_id).await;
    let v1 = export_room(&p1, room_uid).await;
    p2.add_room_node(v1).await.unwrap();

    let mut param = Parameters::default();
    param.add("room_id", room_id.clone()).unwrap();
    param.add("user_id", b_id.clone()).unwrap();
    param.add("admin_id", a_id.clone()).unwrap();
    p1.mutate_raw(
        r#"mutate mut {
            sys.Room{
                id:$room_id
                authorisations:[{
                    name:"G2"
                    rights:[{
                        entity:"Person"
                        mutate_self:true
                        mutate_all:true
                    }]
                    users: [{
                        verif_key:$user_id
                    }]
                    user_admin: [{
                        verif_key:$admin_id
                    }]
                }]
            }
        }"#,
        Some(param),
    )
    .await
    .unwrap();

    let v2 = export_room(&p1, room_uid).await;
    p2.add_room_node(v2)
        .await
        .expect("control: P2 accepts a new group whose users are added by a user admin of it");
    assert!(rooms_of(&p2, &b_key).await.contains(&room_uid));
    assert!(insert_person(&p2, &room_id).await);
}
