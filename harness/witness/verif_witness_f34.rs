//
// Witness for C18/C13 (F34): every committed change to a room's data - including a synchronised batch -
// is followed by a data-changed event and the daily log is recomputed.
//
// Two real GraphDatabaseService of the same user are wired back to back without network.
// The pulling side runs the real LocalPeerService::synchronise_room, the serving side answers with the real
// InboundQueryService::process_inbound, except that the second Query::Nodes (nodes of the second entity)
// is answered by a failure.
//
use std::{collections::HashSet, fs, path::PathBuf, sync::atomic::AtomicUsize};

use super::*;

use crate::{
    configuration::Configuration,
    database::{
        graph_database::GraphDatabaseService,
        query_language::parameter::{Parameters, ParametersAdd},
    },
    event_service::{Event, EventService},
    security::random32,
    signature_verification_service::SignatureVerificationService,
    synchronisation::peer_outbound_service::RemotePeerHandle,
};

const DATA_PATH: &str = "test_data/synchronisation/verif_witness_f34/";
const DATA_MODEL: &str = "{Person{ name:String } Pet{ name:String }}";

fn init_database_path(sub: &str) -> PathBuf {
    let path: PathBuf = format!("{}{}", DATA_PATH, sub).into();
    let _ = fs::remove_dir_all(&path);
    fs::create_dir_all(&path).unwrap();
    path
}

///
/// wait for a DataChanged event that names the room, returns false if none arrives before the delay
///
async fn wait_data_changed(
    events: &mut broadcast::Receiver<Event>,
    room_id: &str,
    delay: Duration,
) -> bool {
    let wait = async {
        loop {
            match events.recv().await {
                Ok(Event::DataChanged(log)) => {
                    if log.rooms.contains_key(room_id) {
                        return true;
                    }
                }
                Ok(_) => {}
                Err(broadcast::error::RecvError::Lagged(_)) => {}
                Err(broadcast::error::RecvError::Closed) => return false,
            }
        }
    };
    timeout(delay, wait).await.unwrap_or(false)
}

///
/// wait for the first DataChanged event: the one that is produced by the daily log computation requested during start up
///
async fn wait_startup_event(events: &mut broadcast::Receiver<Event>) {
    let wait = async {
        loop {
            if let Ok(Event::DataChanged(_)) = events.recv().await {
                return;
            }
        }
    };
    timeout(Duration::from_secs(10), wait)
        .await
        .expect("start up daily log event");
}

async fn room_log(db: &GraphDatabaseService, room: Uid) -> Vec<DailyLog> {
    let mut receiver = db.get_room_log(room).await;
    let mut res = Vec::new();
    while let Some(log) = receiver.recv().await {
        res.append(&mut log.unwrap());
    }
    res
}

struct Outcome {
    result: Result<(), crate::Error>,
    nodes_queries: usize,
    failed_queries: usize,
    first_entity: String,
    committed: String,
    log_before: Vec<DailyLog>,
    announced: bool,
    log_after: Vec<DailyLog>,
}

///
/// fail_nodes_query: the rank of the Query::Nodes that is answered by a failure (0: the serving side never fails)
///
async fn scenario(name: &str, fail_nodes_query: usize) -> Outcome {
    let serving_path = init_database_path(&format!("{}/serving", name));
    let pulling_path = init_database_path(&format!("{}/pulling", name));

    //same user on both sides: same application key, same key material
    let secret = random32();
    let pub_key = random32();
    let app_key = "verif witness f34";

    //
    // serving side
    //
    let serving_events = EventService::new();
    let mut serving_sub = serving_events.subcribe().await;
    let (serving, verifying_key, _) = GraphDatabaseService::start(
        app_key,
        DATA_MODEL,
        &secret,
        &pub_key,
        serving_path.clone(),
        &Configuration::default(),
        serving_events,
    )
    .await
    .unwrap();
    wait_startup_event(&mut serving_sub).await;

    let user_id = base64_encode(&verifying_key);
    let mut param = Parameters::default();
    param.add("user_id", user_id.clone()).unwrap();
    let room = serving
        .mutate_raw(
            r#"mutate mut {
                sys.Room{
                    admin: [{
                        verif_key:$user_id
                    }]
                    authorisations:[{
                        name:"admin"
                        rights:[
                            {
                                entity:"Person"
                                mutate_self:true
                                mutate_all:true
                            },
                            {
                                entity:"Pet"
                                mutate_self:true
                                mutate_all:true
                            }
                        ]
                        users: [{
                            verif_key:$user_id
                        }]
                    }]
                }
            }"#,
            Some(param),
        )
        .await
        .unwrap();
    let room_uid: Uid = room.mutate_entities[0].node_to_mutate.id;
    let room_id = base64_encode(&room_uid);

    let mut param = Parameters::default();
    param.add("room_id", room_id.clone()).unwrap();
    serving
        .mutate_raw(
            r#"mutate mut {
                P1: Person {room_id:$room_id name:"Alice" }
                P2: Person {room_id:$room_id name:"Bob" }
                A1: Pet {room_id:$room_id name:"Rex" }
                A2: Pet {room_id:$room_id name:"Felix" }
            }"#,
            Some(param),
        )
        .await
        .unwrap();
    assert!(
        wait_data_changed(&mut serving_sub, &room_id, Duration::from_secs(10)).await,
        "control: the serving side announces its own local mutation"
    );

    let serving_log = room_log(&serving, room_uid).await;
    assert_eq!(
        2,
        serving_log.len(),
        "control: the serving side has one daily log per entity: {:?}",
        serving_log
    );
    for log in &serving_log {
        assert!(!log.need_recompute, "control: serving log is computed");
        assert_eq!(2, log.entry_number);
    }
    //the history is synchronised in this order: the first entity is applied, the second one fails
    let first_entity = serving_log[0].entity.clone();
    let second_entity = serving_log[1].entity.clone();
    assert_ne!(first_entity, second_entity);

    //
    // pulling side: another device of the same user, it knows nothing about the room
    //
    let pulling_events = EventService::new();
    let mut pulling_sub = pulling_events.subcribe().await;
    let (pulling, pulling_key, _) = GraphDatabaseService::start(
        app_key,
        DATA_MODEL,
        &secret,
        &pub_key,
        pulling_path.clone(),
        &Configuration::default(),
        pulling_events.clone(),
    )
    .await
    .unwrap();
    assert_eq!(verifying_key, pulling_key, "control: same user");
    //the computation requested during start up must not be mistaken for the one that is expected after the synchronisation
    wait_startup_event(&mut pulling_sub).await;

    let discret_services = DiscretServices {
        events: pulling_events,
        database: pulling.clone(),
        signature_verification: SignatureVerificationService::start(2),
    };

    //the peer connection service is only used to receive the NewPeer message
    let (peer_sender, mut peer_receiver) = mpsc::channel::<PeerConnectionMessage>(32);
    let peer_service = PeerConnectionService {
        sender: peer_sender,
    };
    tokio::spawn(async move { while peer_receiver.recv().await.is_some() {} });

    //
    // back to back wiring
    //
    let (query_sender, mut query_receiver) = mpsc::channel::<QueryProtocol>(10);
    let (answer_sender, answer_receiver) = mpsc::channel::<Answer>(10);
    let query_service = QueryService::start(query_sender, answer_receiver);

    let mut allowed_room = HashSet::new();
    allowed_room.insert(room_uid);
    let mut handle = RemotePeerHandle {
        allowed_room,
        db: serving.clone(),
        verifying_key: verifying_key.clone(),
        reply: answer_sender.clone(),
    };

    let mut fingerprint_file = serving_path.clone();
    fingerprint_file.push("hardware_fingerprint.bin");
    let fingerprint = HardwareFingerprint::get(&fingerprint_file).unwrap();

    let nodes_queries = Arc::new(AtomicUsize::new(0));
    let failed_queries = Arc::new(AtomicUsize::new(0));
    let total_queries = Arc::new(AtomicUsize::new(0));
    let nodes_queries_c = nodes_queries.clone();
    let failed_queries_c = failed_queries.clone();
    let total_queries_c = total_queries.clone();
    let remote_key = verifying_key.clone();
    tokio::spawn(async move {
        let remote_key = Arc::new(Mutex::new(remote_key));
        let conn_ready = Arc::new(AtomicBool::new(true));
        while let Some(msg) = query_receiver.recv().await {
            total_queries_c.fetch_add(1, Ordering::SeqCst);
            if let Query::Nodes(_, _) = &msg.query {
                let num = nodes_queries_c.fetch_add(1, Ordering::SeqCst) + 1;
                if num == fail_nodes_query {
                    //the serving side fails: the puller receives an error for this query
                    failed_queries_c.fetch_add(1, Ordering::SeqCst);
                    let serialized =
                        bincode::serialize(&Error::RemoteTechnical("Query::Nodes".to_string()))
                            .unwrap();
                    let _ = answer_sender
                        .send(Answer {
                            id: msg.id,
                            success: false,
                            complete: false,
                            serialized,
                        })
                        .await;
                    let _ = answer_sender
                        .send(Answer {
                            id: msg.id,
                            success: true,
                            complete: true,
                            serialized: bincode::serialize("").unwrap(),
                        })
                        .await;
                    continue;
                }
            }
            InboundQueryService::process_inbound(
                msg,
                &mut handle,
                &remote_key,
                &conn_ready,
                &fingerprint,
            )
            .await
            .unwrap();
        }
    });

    //
    // the synchronisation applies the first entity and fails on the second one
    //
    let result =
        LocalPeerService::synchronise_room(room_uid, &query_service, peer_service, &discret_services)
            .await;
    println!(
        "synchronise_room returned: {:?} ({} queries)",
        result.as_ref().map_err(|e| e.to_string()),
        total_queries.load(Ordering::SeqCst)
    );

    //
    // what is committed and visible on the pulling side
    //
    let committed = pulling
        .query(
            "query q {
                Person (order_by(name asc)){ name }
                Pet (order_by(name asc)){ name }
            }",
            None,
        )
        .await
        .unwrap();
    println!("pulling side after the synchronisation: {}", committed);
    let log_before = room_log(&pulling, room_uid).await;
    println!("pulling side daily log right after the synchronisation: {:?}", log_before);
    //
    // is the room announced by a data-changed event, and is its daily log recomputed once the database is idle
    //
    let announced = wait_data_changed(&mut pulling_sub, &room_id, Duration::from_secs(3)).await;
    //the database is idle: every message sent before these round trips has been processed
    let _ = pulling.datamodel().await.unwrap();
    let _ = pulling.datamodel().await.unwrap();
    let log_after = room_log(&pulling, room_uid).await;
    println!("pulling side daily log once idle: {:?}", log_after);

    Outcome {
        result,
        nodes_queries: nodes_queries.load(Ordering::SeqCst),
        failed_queries: failed_queries.load(Ordering::SeqCst),
        first_entity,
        committed,
        log_before,
        announced,
        log_after,
    }
}

///
/// control: the same wiring without any failure. The complete synchronisation is announced and recomputed,
/// this shows that the harness sees the data-changed event of the pulling side when the recomputation is requested.
///
#[tokio::test(flavor = "multi_thread")]
async fn control_complete_synchronisation_is_announced_and_recomputed() {
    let out = scenario("complete", 0).await;
    assert!(out.result.is_ok(), "control: the synchronisation succeeds");
    assert_eq!(2, out.nodes_queries, "control: one node query per entity");
    assert_eq!(0, out.failed_queries);
    for name in ["Alice", "Bob", "Rex", "Felix"] {
        assert!(out.committed.contains(name), "control: {} is synchronised", name);
    }
    assert_eq!(2, out.log_before.len());
    assert!(
        out.announced,
        "control: a complete synchronisation is followed by a data-changed event naming the room"
    );
    assert_eq!(2, out.log_after.len());
    for log in &out.log_after {
        assert!(!log.need_recompute, "control: {:?} is recomputed", log);
        assert_eq!(2, log.entry_number);
        assert!(log.daily_hash.is_some());
    }
}

///
/// the synchronisation applies the first entity and fails on the node query of the second one
///
#[tokio::test(flavor = "multi_thread")]
async fn c18_aborted_synchronisation_is_announced_and_recomputed() {
    let out = scenario("aborted", 2).await;
    assert_eq!(
        2, out.nodes_queries,
        "control: two node queries have been sent"
    );
    assert_eq!(1, out.failed_queries, "control: one query has failed");
    assert!(
        out.result.is_err(),
        "control: the synchronisation is aborted by the failed query"
    );

    //the rows of the first entity are committed and visible on the pulling side, the second entity is missing
    assert!(
        out.committed.contains("Alice") && out.committed.contains("Bob"),
        "control: the rows synchronised before the failure are committed and can be queried: {}",
        out.committed
    );
    assert!(
        !out.committed.contains("Rex") && !out.committed.contains("Felix"),
        "control: the rows of the failed query are missing: {}",
        out.committed
    );
    assert_eq!(
        1,
        out.log_before.len(),
        "control: the committed rows have marked their day in the daily log"
    );
    assert_eq!(out.first_entity, out.log_before[0].entity);

    //the property: the committed rows are announced and their daily log is recomputed
    let pending: Vec<&DailyLog> = out.log_after.iter().filter(|l| l.need_recompute).collect();
    assert!(
        out.announced && pending.is_empty(),
        "C18 violated: rows of an aborted synchronisation are committed but never announced nor recomputed (data-changed event for the room: {}, daily logs left with need_recompute: {:?})",
        out.announced,
        pending
    );
    assert_eq!(1, out.log_after.len());
    assert_eq!(2, out.log_after[0].entry_number);
    assert!(out.log_after[0].daily_hash.is_some());
}
