//! Witness for suspected defect F10:
//! a UserAuth entry row is attached to a room / group / list only by an edge whose AUTHOR is
//! never examined. A plain member can replay an admin-signed *user* entry into the room *admin*
//! list by signing the edge itself.
//!
//! The witness asserts the SPECIFICATION: the forged definition is refused, or at least the
//! forged entry does not make its key an admin. It FAILS on the current code if F10 is real.

use std::{fs, path::PathBuf};

use crate::{
    configuration::Configuration,
    database::{
        edge::Edge,
        graph_database::GraphDatabaseService,
        query_language::parameter::{Parameters, ParametersAdd},
        room_node::{RoomNode, UserNode},
        system_entities::{
            AUTH_USER_ADMIN_FIELD_SHORT, AUTH_USER_FIELD_SHORT, ROOM_ADMIN_FIELD_SHORT,
            ROOM_AUTHORISATION_FIELD,
        },
    },
    date_utils::now,
    event_service::EventService,
    security::{base64_encode, derive_key, random32, Ed25519SigningKey, SigningKey, Uid},
    signature_verification_service::SignatureVerificationService,
};

const DATA_PATH: &str = "test_data/database/verif_witness_f10/";
const APP_KEY: &str = "witness f10 app";
const DATA_MODEL: &str = "{ Person{ name:String, parents:[Person] } }";

fn init_database_path() {
    let path: PathBuf = DATA_PATH.into();
    fs::create_dir_all(&path).unwrap();
}

/// start an app and return (service, verifying key, signing key of that user)
async fn start_app() -> (GraphDatabaseService, Vec<u8>, Ed25519SigningKey) {
    let secret = random32();
    let path: PathBuf = DATA_PATH.into();
    let (app, verifying_key, _) = GraphDatabaseService::start(
        APP_KEY,
        DATA_MODEL,
        &secret,
        &random32(),
        path,
        &Configuration::default(),
        EventService::new(),
    )
    .await
    .unwrap();
    // same derivation as GraphDatabase::new
    let signature_key = derive_key(&format!("{} SIGNING_KEY", APP_KEY), &secret);
    let signing_key = Ed25519SigningKey::create_from(&signature_key);
    assert_eq!(signing_key.export_verifying_key(), verifying_key);
    (app, verifying_key, signing_key)
}

async fn export(app: &GraphDatabaseService, room_id: Uid) -> RoomNode {
    let node = app.get_room_node(room_id).await.unwrap().unwrap();
    //serialize and deserialize to get rid of the local_id, as on the wire
    let ser = bincode::serialize(&node).unwrap();
    bincode::deserialize(&ser).unwrap()
}

/// what the inbound peer service does with a received room definition
async fn receive(app: &GraphDatabaseService, node: RoomNode) -> crate::database::Result<()> {
    let node = SignatureVerificationService::room_check(node)
        .expect("the forged definition only contains valid signatures");
    app.add_room_node(node).await
}

struct Setup {
    admin_app: GraphDatabaseService,
    admin_key: Vec<u8>,
    member_app: GraphDatabaseService,
    member_key: Vec<u8>,
    member_signing: Ed25519SigningKey,
    room_id: Uid,
    auth_id: Uid,
}

/// Room R, admin A, one group G with a right on Person; A adds M as a plain USER of G.
/// both peers hold the legitimate definition
async fn setup() -> Setup {
    init_database_path();
    let (admin_app, admin_key, _) = start_app().await;
    let (member_app, member_key, member_signing) = start_app().await;

    let mut param = Parameters::default();
    param.add("user_id", base64_encode(&admin_key)).unwrap();
    let room = admin_app
        .mutate_raw(
            r#"mutate mut {
                sys.Room{
                    admin: [{
                        verif_key:$user_id
                    }]
                    authorisations:[{
                        name:"G"
                        rights:[{
                            entity:"Person"
                            mutate_self:true
                            mutate_all:false
                        }]
                    }]
                }
            }"#,
            Some(param),
        )
        .await
        .unwrap();
    let room_insert = &room.mutate_entities[0];
    let room_id = room_insert.node_to_mutate.id;
    let auth_insert = &room_insert.sub_nodes.get(ROOM_AUTHORISATION_FIELD).unwrap()[0];
    let auth_id = auth_insert.node_to_mutate.id;

    //A adds M as a plain user of G
    let mut param = Parameters::default();
    param.add("room_id", base64_encode(&room_id)).unwrap();
    param.add("auth_id", base64_encode(&auth_id)).unwrap();
    param.add("user_id", base64_encode(&member_key)).unwrap();
    admin_app
        .mutate_raw(
            r#"mutate mut {
                sys.Room{
                    id:$room_id
                    authorisations:[{
                        id:$auth_id
                        users: [{
                            verif_key:$user_id
                        }]
                    }]
                }
            }"#,
            Some(param),
        )
        .await
        .expect("admin can add a user");

    let legit = export(&admin_app, room_id).await;
    receive(&member_app, legit).await.unwrap();

    Setup {
        admin_app,
        admin_key,
        member_app,
        member_key,
        member_signing,
        room_id,
        auth_id,
    }
}

fn forged_edge(
    template: &Edge,
    label: &str,
    dest: Uid,
    cdate: i64,
    signing_key: &Ed25519SigningKey,
) -> Edge {
    let mut edge = Edge {
        src: template.src,
        src_entity: template.src_entity.clone(),
        label: label.to_string(),
        dest,
        cdate,
        ..Default::default()
    };
    edge.sign(signing_key).unwrap();
    edge
}

///
/// F10, list replay user -> room admin
///
/// forged definition = legitimate definition of R
///   + admin_nodes += E      (E: UserAuth row for M, signed by admin A, created as USER of G)
///   + admin_edges += (R --admin--> E) signed by M
///
#[tokio::test(flavor = "multi_thread")]
async fn f10_user_entry_replayed_as_room_admin() {
    let s = setup().await;

    let legit = export(&s.member_app, s.room_id).await;
    let room = legit.parse().unwrap();
    assert!(room.is_admin(&s.admin_key, now()));
    assert!(!room.is_admin(&s.member_key, now()));

    let group = legit
        .auth_nodes
        .iter()
        .find(|a| a.node.id.eq(&s.auth_id))
        .unwrap();
    assert_eq!(1, group.user_nodes.len());
    let entry: UserNode = group.user_nodes[0].clone();
    //the entry is signed by the admin, not by the member
    assert_eq!(entry.node.verifying_key, s.admin_key);

    let mut forged = legit.clone();
    let edge = forged_edge(
        &legit.admin_edges[0],
        ROOM_ADMIN_FIELD_SHORT,
        entry.node.id,
        now(),
        &s.member_signing,
    );
    assert_eq!(edge.verifying_key, s.member_key);
    forged.admin_edges.push(edge);
    forged.admin_nodes.push(entry.clone());
    forged.check_consistency().unwrap();

    //the member sends the forged definition to the admin's own peer (which holds R)
    let result = receive(&s.admin_app, forged).await;

    let stored = export(&s.admin_app, s.room_id).await;
    let stored_room = stored.parse().unwrap();
    let is_admin = stored_room.is_admin(&s.member_key, now());

    assert!(
        result.is_err() || !is_admin,
        "F10 REAL: definition with a user entry replayed in the admin list by a member-signed edge was accepted (result: {:?}); member is_admin on the receiving peer: {}",
        result,
        is_admin
    );
}

///
/// F10 follow up: once the replay is accepted, the member really acts as an admin:
/// it signs a brand new admin entry for a third key and the victim peer accepts it.
///
#[tokio::test(flavor = "multi_thread")]
async fn f10_replayed_admin_can_then_create_admins() {
    let s = setup().await;
    let legit = export(&s.member_app, s.room_id).await;
    let group = legit
        .auth_nodes
        .iter()
        .find(|a| a.node.id.eq(&s.auth_id))
        .unwrap();
    let entry: UserNode = group.user_nodes[0].clone();

    let mut forged = legit.clone();
    forged.admin_edges.push(forged_edge(
        &legit.admin_edges[0],
        ROOM_ADMIN_FIELD_SHORT,
        entry.node.id,
        now(),
        &s.member_signing,
    ));
    forged.admin_nodes.push(entry.clone());

    //step 1: replay on both peers (the member controls its own peer)
    let r_victim = receive(&s.admin_app, forged.clone()).await;
    let r_self = receive(&s.member_app, forged).await;

    //step 2: the member uses the regular API of its own peer to add a new admin
    let third_key = Ed25519SigningKey::create_from(&random32()).export_verifying_key();
    let mut param = Parameters::default();
    param.add("room_id", base64_encode(&s.room_id)).unwrap();
    param.add("third_user", base64_encode(&third_key)).unwrap();
    let mutation = s
        .member_app
        .mutate_raw(
            r#"mutate mut {
                sys.Room{
                    id: $room_id
                    admin: [{
                        verif_key:$third_user
                    }]
                }
            }"#,
            Some(param),
        )
        .await;

    //step 3: regular synchronisation of the member's definition to the victim
    let second = export(&s.member_app, s.room_id).await;
    let r_second = receive(&s.admin_app, second).await;

    let stored = export(&s.admin_app, s.room_id).await;
    let stored_room = stored.parse().unwrap();
    let third_is_admin = stored_room.is_admin(&third_key, now());
    assert!(
        !third_is_admin,
        "F10 REAL (escalation): replay results victim={:?} self={:?}; member's admin mutation: {}; sync of the member's definition to the victim: {:?}; a key chosen by the member is now admin on the victim: {}",
        r_victim,
        r_self,
        mutation.is_ok(),
        r_second,
        third_is_admin
    );
}

///
/// F10, list replay user -> user_admin of the same group
///
/// forged definition = legitimate definition of R
///   + G.user_admin_nodes += E
///   + G.user_admin_edges += (G --user_admin--> E) signed by M
///
#[tokio::test(flavor = "multi_thread")]
async fn f10_user_entry_replayed_as_user_admin() {
    let s = setup().await;
    let legit = export(&s.member_app, s.room_id).await;
    let pos = legit
        .auth_nodes
        .iter()
        .position(|a| a.node.id.eq(&s.auth_id))
        .unwrap();
    let entry: UserNode = legit.auth_nodes[pos].user_nodes[0].clone();
    let template = legit.auth_nodes[pos].user_edges[0].clone();
    assert_eq!(template.label, AUTH_USER_FIELD_SHORT);

    let mut forged = legit.clone();
    forged.auth_nodes[pos].user_admin_edges.push(forged_edge(
        &template,
        AUTH_USER_ADMIN_FIELD_SHORT,
        entry.node.id,
        now(),
        &s.member_signing,
    ));
    forged.auth_nodes[pos].user_admin_nodes.push(entry.clone());
    forged.check_consistency().unwrap();

    let result = receive(&s.admin_app, forged).await;

    let stored = export(&s.admin_app, s.room_id).await;
    let stored_room = stored.parse().unwrap();
    let can_admin_users = stored_room
        .authorisations
        .get(&s.auth_id)
        .unwrap()
        .can_admin_users(&s.member_key, now());

    assert!(
        result.is_err() || !can_admin_users,
        "F10 REAL: user entry replayed in the user_admin list of its group by a member-signed edge was accepted (result: {:?}); member can_admin_users on the receiving peer: {}",
        result,
        can_admin_users
    );
}

///
/// F10, replay across groups: user entry of G replayed as user of another group G2 of the same room
///
#[tokio::test(flavor = "multi_thread")]
async fn f10_user_entry_replayed_in_other_group() {
    let s = setup().await;

    //A creates a second group G2, with stronger rights, M is not part of it
    let mut param = Parameters::default();
    param.add("room_id", base64_encode(&s.room_id)).unwrap();
    let res = s
        .admin_app
        .mutate_raw(
            r#"mutate mut {
                sys.Room{
                    id:$room_id
                    authorisations:[{
                        name:"G2"
                        rights:[{
                            entity:"Person"
                            mutate_self:true
                            mutate_all:true
                        }]
                    }]
                }
            }"#,
            Some(param),
        )
        .await
        .unwrap();
    let g2_id = res.mutate_entities[0]
        .sub_nodes
        .get(ROOM_AUTHORISATION_FIELD)
        .unwrap()[0]
        .node_to_mutate
        .id;
    let legit = export(&s.admin_app, s.room_id).await;
    receive(&s.member_app, legit.clone()).await.unwrap();

    let room = legit.parse().unwrap();
    assert!(!room.can(
        &s.member_key,
        "Person",
        now(),
        &crate::database::room::RightType::MutateAll
    ));

    let g_pos = legit
        .auth_nodes
        .iter()
        .position(|a| a.node.id.eq(&s.auth_id))
        .unwrap();
    let g2_pos = legit
        .auth_nodes
        .iter()
        .position(|a| a.node.id.eq(&g2_id))
        .unwrap();
    let entry: UserNode = legit.auth_nodes[g_pos].user_nodes[0].clone();
    let mut template = legit.auth_nodes[g_pos].user_edges[0].clone();
    template.src = g2_id;

    let mut forged = legit.clone();
    forged.auth_nodes[g2_pos].user_edges.push(forged_edge(
        &template,
        AUTH_USER_FIELD_SHORT,
        entry.node.id,
        now(),
        &s.member_signing,
    ));
    forged.auth_nodes[g2_pos].user_nodes.push(entry.clone());
    forged.check_consistency().unwrap();

    let result = receive(&s.admin_app, forged).await;

    let stored = export(&s.admin_app, s.room_id).await;
    let stored_room = stored.parse().unwrap();
    let in_g2 = stored_room
        .authorisations
        .get(&g2_id)
        .unwrap()
        .is_user_valid_at(&s.member_key, now());
    let can_all = stored_room.can(
        &s.member_key,
        "Person",
        now(),
        &crate::database::room::RightType::MutateAll,
    );

    assert!(
        result.is_err() || !in_g2,
        "F10 REAL: user entry of group G replayed in group G2 by a member-signed edge was accepted (result: {:?}); member is user of G2: {}; member has MutateAll on Person: {}",
        result,
        in_g2,
        can_all
    );
}
