//! Witness for F15: PeerManager::invite_accepted must remove the consumed invitation from `allowed_token`.
//! Invitation entries are inserted under MeetingSecret::derive_token(DERIVE_STRING, invite_id)
//! (PeerManager::new, create_invite, accept_invite) but invite_accepted looks for them under the NEW PEER's
//! meeting token (self.meeting_secret.token(&peer_public)).
//!
//! Declared in src/network/mod.rs:
//!   #[cfg(test)]
//!   mod verif_witness_f15;
//!
//! Specification: once an invitation has been consumed, its token is not accepted any more
//! (get_token_type, used to accept a new connection, does not resolve it).
//!
//! No network is needed: DiscretEndpoint only has public fields and is built around a dummy channel,
//! multicast discovery is disabled (None) and no beacon is configured.

use std::{fs, path::PathBuf};

use tokio::sync::mpsc;

use crate::{
    base64_encode,
    configuration::Configuration,
    database::{
        graph_database::GraphDatabaseService,
        node::Node,
        system_entities::{Invite, OwnedInvite, Peer},
    },
    discret::{DiscretParams, DiscretServices},
    event_service::EventService,
    security::{
        new_uid, random32, uid_encode, Ed25519SigningKey, HardwareFingerprint, MeetingSecret,
        MeetingToken,
    },
    signature_verification_service::SignatureVerificationService,
};

use super::{
    endpoint::{DiscretEndpoint, EndpointMessage},
    peer_manager::{PeerManager, TokenType},
};

const APP_KEY: &str = "f15 app";
//value of the private constant peer_manager::DERIVE_STRING.
//every test first checks that the invitation IS resolved with this context before it is consumed,
//so a change of that constant makes the witness fail on its precondition instead of passing silently
const DERIVE_STRING: &str = "P";

struct Instance {
    manager: PeerManager,
    services: DiscretServices,
    params: DiscretParams,
    //the Peer node that this instance sends to the others
    peer_node: Node,
    _endpoint_receiver: mpsc::Receiver<EndpointMessage>,
}

async fn start_instance(name: &str) -> Instance {
    let path: PathBuf = format!("test_data/network/verif_witness_f15/{}", name).into();
    fs::create_dir_all(&path).unwrap();

    let key_material = random32();
    let meeting_secret = MeetingSecret::new(random32());
    let pub_key = meeting_secret.public_key();

    let event_service = EventService::new();
    let (database, verifying_key, private_room_id) = GraphDatabaseService::start(
        APP_KEY,
        "",
        &key_material,
        pub_key.as_bytes(),
        path.clone(),
        &Configuration::default(),
        event_service.clone(),
    )
    .await
    .unwrap();

    let mut hardware_file = path.clone();
    hardware_file.push("hardware_fingerprint.bin");
    let params = DiscretParams {
        app_key: APP_KEY.to_string(),
        verifying_key: verifying_key.clone(),
        private_room_id,
        hardware_fingerprint: HardwareFingerprint::get(&hardware_file).unwrap(),
        configuration: Configuration::default(),
    };
    let services = DiscretServices {
        events: event_service,
        database,
        signature_verification: SignatureVerificationService::start(1),
    };

    let (sender, receiver) = mpsc::channel::<EndpointMessage>(20);
    let endpoint = DiscretEndpoint {
        id: new_uid(),
        sender,
        ipv4_port: 0,
        ipv4_cert_hash: [0; 32],
    };

    let manager = PeerManager::new(&params, &services, endpoint, None, meeting_secret)
        .await
        .unwrap();

    let peer_node = services
        .database
        .get_peer_node(verifying_key)
        .await
        .unwrap()
        .unwrap();

    Instance {
        manager,
        services,
        params,
        peer_node,
        _endpoint_receiver: receiver,
    }
}

/// a Peer node of a user that is unknown to every instance
fn unknown_peer_node() -> Node {
    let meeting_secret = MeetingSecret::new(random32());
    let mut peer = Peer::create(
        new_uid(),
        base64_encode(meeting_secret.public_key().as_bytes()),
    );
    peer.sign(&Ed25519SigningKey::new()).unwrap();
    Peer::validate(&peer).unwrap();
    peer
}

fn invite_token(invite: &Invite) -> MeetingToken {
    MeetingSecret::derive_token(DERIVE_STRING, &invite.invite_id)
}

/// inviter side: the OwnedInvite is consumed when the invited peer proves it holds the invitation
#[tokio::test(flavor = "multi_thread")]
async fn f15_owned_invite_is_not_usable_twice() {
    let mut inviter = start_instance("owner").await;

    let invite_bin = inviter.manager.create_invite(None).await.unwrap();
    let invite: Invite = bincode::deserialize(&invite_bin).unwrap();
    let token = invite_token(&invite);

    //precondition: the invitation is accepted as a connection token
    let token_type = inviter.manager.get_token_type(&token, &Vec::new()).unwrap();
    assert!(matches!(&token_type, TokenType::OwnedInvite(o) if o.id.eq(&invite.invite_id)));

    //a first peer uses the invitation
    inviter
        .manager
        .invite_accepted(token_type, unknown_peer_node())
        .await
        .unwrap();

    //the invitation is consumed in the database
    let room_id = uid_encode(&inviter.params.private_room_id);
    let remaining = OwnedInvite::list_valid(room_id, &inviter.services.database)
        .await
        .unwrap();
    assert!(remaining.is_empty());

    //a second peer announces itself with the same invitation token
    let second = inviter.manager.get_token_type(&token, &Vec::new());
    assert!(
        second.is_err(),
        "F15: the consumed OwnedInvite is still accepted as a connection token"
    );
}

/// invited side: the Invite is consumed when the inviter answers
#[tokio::test(flavor = "multi_thread")]
async fn f15_invite_is_not_usable_twice() {
    let mut inviter = start_instance("inviter").await;
    let mut invited = start_instance("invited").await;

    let invite_bin = inviter.manager.create_invite(None).await.unwrap();
    let invite: Invite = bincode::deserialize(&invite_bin).unwrap();
    let token = invite_token(&invite);

    invited.manager.accept_invite(&invite_bin).await.unwrap();

    //precondition: the invitation is accepted as a connection token
    let token_type = invited.manager.get_token_type(&token, &Vec::new()).unwrap();
    assert!(matches!(&token_type, TokenType::Invite(i) if i.invite_id.eq(&invite.invite_id)));

    //the inviter is reached and sends its Peer node
    invited
        .manager
        .invite_accepted(token_type, inviter.peer_node.clone())
        .await
        .unwrap();

    //the invitation is consumed in the database
    let room_id = uid_encode(&invited.params.private_room_id);
    let remaining = Invite::list(room_id, &invited.services.database)
        .await
        .unwrap();
    assert!(remaining.is_empty());

    //anybody announcing the same invitation token later
    let second = invited.manager.get_token_type(&token, &Vec::new());
    assert!(
        second.is_err(),
        "F15: the consumed Invite is still accepted as a connection token"
    );
}
