//! Witness for F33 (properties C10 / C07): what a peer stores for a received room
//! definition must not depend on unsigned fields of the message.
//!
//! `AuthorisationNode::need_update` is a plain serialised boolean that is not covered
//! by any signature. `AuthorisationNode::write` only writes the group's own row when
//! it is true. These tests send a genuine, validly signed room definition whose only
//! alteration is `need_update = false` on the groups.

use std::{fs, path::PathBuf};

use crate::{
    configuration::Configuration,
    database::{
        graph_database::GraphDatabaseService,
        query_language::parameter::{Parameters, ParametersAdd},
        room_node::RoomNode,
        system_entities::ROOM_AUTHORISATION_FIELD,
    },
    event_service::EventService,
    security::{base64_encode, random32, Uid},
    signature_verification_service::SignatureVerificationService,
};

const DATA_PATH: &str = "test_data/database/verif_witness_f33/";
const DATA_MODEL: &str = "
{
    Person{
        name:String,
        parents:[Person]
    }
}";

async fn start_peer() -> (GraphDatabaseService, String) {
    let path: PathBuf = DATA_PATH.into();
    fs::create_dir_all(&path).unwrap();
    let (app, verifying_key, _) = GraphDatabaseService::start(
        "f33 app",
        DATA_MODEL,
        &random32(),
        &random32(),
        path,
        &Configuration::default(),
        EventService::new(),
    )
    .await
    .unwrap();
    (app, base64_encode(&verifying_key))
}

/// P1 creates a room with one group "admin" whose users are P1 and P2.
/// returns (room id, group id)
async fn create_room(first: &GraphDatabaseService, first_id: &str, second_id: &str) -> (Uid, Uid) {
    let mut param = Parameters::default();
    param.add("user_id", first_id.to_string()).unwrap();
    param.add("second_id", second_id.to_string()).unwrap();
    let room = first
        .mutate_raw(
            r#"mutate mut {
                sys.Room{
                    admin: [{
                        verif_key:$user_id
                    }]
                    authorisations:[{
                        name:"admin"
                        rights:[{
                            entity:"Person"
                            mutate_self:true
                            mutate_all:true
                        }]
                        users: [{
                            verif_key:$user_id
                        },{
                            verif_key:$second_id
                        }]
                        user_admin: [{
                            verif_key:$user_id
                        }]
                    }]
                }
            }"#,
            Some(param),
        )
        .await
        .unwrap();
    let room_insert = &room.mutate_entities[0];
    let auth_insert = &room_insert.sub_nodes.get(ROOM_AUTHORISATION_FIELD).unwrap()[0];
    (
        room_insert.node_to_mutate.id,
        auth_insert.node_to_mutate.id,
    )
}

/// what the serving peer puts on the wire: its stored definition, with the unsigned
/// flag of every group set to `wire_flag`, passed through the wire encoding
async fn export(first: &GraphDatabaseService, room_id: Uid, wire_flag: bool) -> RoomNode {
    let mut node = first.get_room_node(room_id).await.unwrap().unwrap();
    node.check_consistency().unwrap();
    assert!(!node.auth_nodes.is_empty(), "control: the room has a group");
    for auth in &mut node.auth_nodes {
        auth.need_update = wire_flag;
    }
    let ser = bincode::serialize(&node).unwrap();
    let node: RoomNode = bincode::deserialize(&ser).unwrap();
    for auth in &node.auth_nodes {
        assert_eq!(
            auth.need_update, wire_flag,
            "control: the flag is carried by the wire encoding"
        );
    }
    //control: it is the genuine definition, every signature is valid (the flag is not signed)
    SignatureVerificationService::room_check(node.clone())
        .expect("control: the definition is validly signed")
}

async fn second_can_insert_person(second: &GraphDatabaseService, room_id: Uid) -> bool {
    let mut param = Parameters::default();
    param.add("room_id", base64_encode(&room_id)).unwrap();
    second
        .mutate_raw(
            r#"mutate mut {
                Person{
                    room_id: $room_id
                    name:"someone"
                }
            }"#,
            Some(param),
        )
        .await
        .is_ok()
}

/// returns Ok(number of groups of the stored definition) or the reason why what is stored is broken
async fn stored_groups(second: &GraphDatabaseService, room_id: Uid) -> Result<usize, String> {
    let stored = second
        .get_room_node(room_id)
        .await
        .unwrap()
        .ok_or("no room row stored".to_string())?;
    stored.check_consistency().map_err(|e| e.to_string())?;
    stored.parse().map_err(|e| e.to_string())?;
    Ok(stored.auth_nodes.len())
}

#[tokio::test(flavor = "multi_thread")]
async fn f33_group_row_stored_whatever_the_wire_flag_says() {
    let (first, first_id) = start_peer().await;

    // ---- control: flag left to true (what an honest peer sends)
    {
        let (second, second_id) = start_peer().await;
        let (room_id, _) = create_room(&first, &first_id, &second_id).await;
        let node = export(&first, room_id, true).await;
        let sent_groups = node.auth_nodes.len();
        second
            .add_room_node(node)
            .await
            .expect("control: the definition is accepted");
        assert!(
            second_can_insert_person(&second, room_id).await,
            "control: the receiver uses the group of the accepted definition"
        );
        assert_eq!(
            stored_groups(&second, room_id).await,
            Ok(sent_groups),
            "control: with the flag set to true the definition is fully stored"
        );
    }

    // ---- same thing, the unsigned flag set to false by the serving peer
    {
        let (second, second_id) = start_peer().await;
        let (room_id, _) = create_room(&first, &first_id, &second_id).await;
        let node = export(&first, room_id, false).await;
        let sent_groups = node.auth_nodes.len();
        second
            .add_room_node(node)
            .await
            .expect("control: the definition is accepted whatever the flag says");
        assert!(
            second_can_insert_person(&second, room_id).await,
            "control: in memory, the receiver has and uses the group of the accepted definition"
        );
        let stored = stored_groups(&second, room_id).await;
        assert_eq!(
            stored,
            Ok(sent_groups),
            "C10 violated: the group row of an accepted room definition was not stored (sent {} group(s), stored definition: {:?})",
            sent_groups,
            stored
        );
    }
}

#[tokio::test(flavor = "multi_thread")]
async fn f33_group_row_updated_whatever_the_wire_flag_says() {
    let (first, first_id) = start_peer().await;

    for wire_flag in [true, false] {
        let (second, second_id) = start_peer().await;
        let (room_id, auth_id) = create_room(&first, &first_id, &second_id).await;

        //honest first transfer
        let node = export(&first, room_id, true).await;
        second.add_room_node(node).await.unwrap();
        assert_eq!(stored_groups(&second, room_id).await, Ok(1));

        //P1 renames the group: the group row gets a new mdate and a new signature
        let mut param = Parameters::default();
        param.add("room_id", base64_encode(&room_id)).unwrap();
        param.add("auth_id", base64_encode(&auth_id)).unwrap();
        first
            .mutate_raw(
                r#"mutate mut {
                    sys.Room{
                        id:$room_id
                        authorisations:[{
                            id:$auth_id
                            name:"renamed"
                        }]
                    }
                }"#,
                Some(param),
            )
            .await
            .expect("control: the admin can rename the group");

        let node = export(&first, room_id, wire_flag).await;
        let sent_json = node.auth_nodes[0].node._json.clone().unwrap();
        let sent_mdate = node.auth_nodes[0].node.mdate;
        assert!(
            sent_json.contains("renamed"),
            "control: the exported group is the renamed one"
        );
        second
            .add_room_node(node)
            .await
            .expect("control: the new definition is accepted");

        let stored = second.get_room_node(room_id).await.unwrap().unwrap();
        stored.check_consistency().unwrap();
        assert_eq!(1, stored.auth_nodes.len());
        let stored_json = stored.auth_nodes[0].node._json.clone().unwrap();
        let stored_mdate = stored.auth_nodes[0].node.mdate;
        assert!(
            stored_json.eq(&sent_json) && stored_mdate == sent_mdate,
            "C10 violated: the newer group row of an accepted room definition was not stored with wire flag {} (sent {} @{}, stored {} @{})",
            wire_flag,
            sent_json,
            sent_mdate,
            stored_json,
            stored_mdate
        );
    }
}
